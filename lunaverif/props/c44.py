"""C44 -- idle handshake and U0 link-maintenance timers meet their timing rules.

Two harnesses, both around unmodified luna classes:

IdleHarness   luna.gateware.usb.usb3.link.idle.IdleHandshakeHandler
    Oracle (symbol level, independent of the DUT's word-pair shortcut): a ghost counts the run of consecutive
    *valid* logical-idle symbols (data byte 0, ctrl 0; cycles without `sink.valid` carry no symbols) and the
    number of words sent (= cycles enabled) since the handshake started.

TimersHarness luna.gateware.usb.usb3.link.timers.LinkMaintenanceTimers(ss_clock_frequency=f)
    Oracle: cycle counts are derived here from the spec times (10 us, 1 ms, 10 ms) and the frequency with exact
    rational arithmetic; ghosts count the cycles spent in U0 without a transmitted link command / without a
    received link command or header packet.
"""
from fractions import Fraction

from amaranth import *
from ..harness import Harness
from ..engine import Query
import z3

# FINDINGS
#  fixed  /repo 7602ce6 "fix: idle handshake only counts valid logical-idle symbols"
#         idle_detected ignored sink.valid (a cycle without valid whose stale data happened to be zero counted as four idle
#         symbols) and the reset value 0 of last_word counted as a received idle word.  Caught by `complete_needs_8_idle`
#         (free valid, and in the valid=1 layer for the reset-value case).

PROP = "C44"
ENCODED = [
    "luna/gateware/usb/usb3/link/idle.py: IdleHandshakeHandler.elaborate (idle_detected, seen_idle, enable_counter, "
    "idle_handshake_complete)",
    "luna/gateware/usb/usb3/link/timers.py: LinkMaintenanceTimers.elaborate (keepalive_timer/schedule_keepalive, "
    "recovery_timer/transition_to_recovery)",
]
ASSUMPTIONS = [
    "idle: sink.valid/data/ctrl and enable are free every cycle (sink.ready is not used by the DUT: it taps the stream)",
    "idle: symbol order inside a 32-bit word is byte 0 first (little-endian raw stream)",
    "idle: one word (4 symbols) is sent in every cycle the handshake is enabled",
    "idle: the eighth symbol of the idle run must arrive while the handshake is enabled (earlier symbols may precede it)",
    "timers: enable (= link in U0), link_command_received, packet_received, link_command_transmitted free every cycle",
    "timers: cycle convention: 'quiet' = number of consecutive previous cycles in U0 without the event; a strobe in the "
    "cycle with quiet == N-1 is exactly N cycles after the event / in the N-th cycle of U0 (accepted as 'on time'), "
    "one cycle later is still accepted ('within one cycle')",
    "timers: N = floor(spec time * f) cycles, computed with exact rationals",
]
BOUNDS = "idle: BMC from reset, K=12 (quick) / 16 (thorough), everything free.  timers: BMC from reset at 200/300/500 kHz " \
         "(keepalive 2/3/5 cycles, recovery 200/300/500 cycles) with K beyond the recovery time; 1-step induction with " \
         "ghost==timer invariants at 125 MHz (real constants 1250 / 125000 cycles) and at the scaled frequencies"
OUTSIDE = "idle: 16-symbol count is 'since enable' as the statement says, not 'after the first received idle symbol' as " \
          "USB3 7.5.4.10 says.  timers: frequencies other than those listed; whether the receiver actually emits the " \
          "keepalive once scheduled (C37/C38 territory)"


# ----------------------------------------------------------------------------------------------- idle handshake

class IdleHarness(Harness):
    domains = ("ss",)

    def __init__(self):
        super().__init__()
        from luna.gateware.usb.usb3.link.idle import IdleHandshakeHandler
        self.dut = IdleHandshakeHandler()
        self.inp("enable", signal=self.dut.enable)
        self.inp("valid", signal=self.dut.sink.valid)
        self.inp("data", signal=self.dut.sink.data)
        self.inp("ctrl", signal=self.dut.sink.ctrl)
        self.v_rx = self.viol("complete_needs_8_idle")       # complete => 8 consecutive valid idle symbols received
        self.v_tx = self.viol("complete_needs_16_sent")      # complete => >= 16 symbols sent since start
        self.v_en = self.viol("complete_only_enabled")       # complete => handshake is running
        self.v_live = self.viol("completes_when_met")        # documented behaviour: both conditions met => complete
        self.c_complete = self.cover("complete")
        self.c_earliest = self.cover("complete_at_16_sent")  # completion in the first cycle it is allowed
        self.c_gap = self.cover("complete_with_valid_gap")   # idle run interrupted by a cycle without valid
        self.c_unaligned = self.cover("run8_unaligned_no_complete")
        self.c_restart = self.cover("complete_after_restart")
        self.run = Signal(4, name="g_run")
        self.sent = Signal(3, name="g_sent")
        self.obs("run", self.run)
        self.obs("sent", self.sent)
        self.obs("complete", self.dut.idle_handshake_complete)

    def elaborate(self, platform):
        m = Module()
        m.submodules.dut = dut = self.dut
        en, valid, data, ctrl = dut.enable, dut.sink.valid, dut.sink.data, dut.sink.ctrl
        complete = dut.idle_handshake_complete

        # --- received side: run length of consecutive valid idle symbols (saturating at 8), symbol by symbol
        run = self.run
        stage = run
        hit_now = Const(0, 1)
        for i in range(4):
            idle_i = (data.word_select(i, 8) == 0) & ~ctrl[i]
            nxt = Signal(4, name=f"g_run_s{i}")
            m.d.comb += nxt.eq(Mux(idle_i, Mux(stage == 8, 8, stage + 1), 0))
            h = Signal(name=f"g_hit_s{i}")
            m.d.comb += h.eq(hit_now | (nxt == 8))
            stage, hit_now = nxt, h
        run8_now = Signal(name="g_run8_now")            # an 8-run is completed by (a symbol of) the current word
        m.d.comb += run8_now.eq(valid & hit_now)
        with m.If(valid):
            m.d.ss += run.eq(stage)

        # word-aligned version (what the documentation promises to detect): this and the previous valid word all idle
        word_idle = Signal(name="g_word_idle")
        m.d.comb += word_idle.eq(valid & (data == 0) & (ctrl == 0))
        prev_cycle_word_idle = Signal(name="g_prev_cycle_word_idle")   # previous *cycle* carried a valid all-idle word
        m.d.ss += prev_cycle_word_idle.eq(word_idle)

        # --- since the handshake started (enable continuously high)
        seen8 = Signal(name="g_seen8")                 # an 8-run completed in an earlier cycle of this handshake
        seen_pair = Signal(name="g_seen_pair")         # two adjacent valid all-idle words, second one while enabled
        sent = self.sent                               # words sent in earlier cycles of this handshake (sat. at 4)
        gap_in_run = Signal(name="g_gap_in_run")
        done_once = Signal(name="g_done_once")
        restarted = Signal(name="g_restarted")
        with m.If(en):
            m.d.ss += [
                seen8.eq(seen8 | run8_now),
                seen_pair.eq(seen_pair | (word_idle & prev_cycle_word_idle)),
                sent.eq(Mux(sent == 4, 4, sent + 1)),
            ]
        with m.Else():
            m.d.ss += [seen8.eq(0), seen_pair.eq(0), sent.eq(0)]
        with m.If(complete):
            m.d.ss += done_once.eq(1)
        with m.If(done_once & ~en):
            m.d.ss += restarted.eq(1)
        # a cycle without valid while an idle run is in progress
        with m.If(~valid & (run != 0)):
            m.d.ss += gap_in_run.eq(1)
        with m.Elif(valid & (stage == 0)):
            m.d.ss += gap_in_run.eq(0)

        m.d.comb += [
            self.v_rx.eq(complete & ~(seen8 | run8_now)),
            self.v_tx.eq(complete & (sent < 4)),
            self.v_en.eq(complete & ~en),
            self.v_live.eq(en & (sent == 4) & seen_pair & ~complete),
            self.c_complete.eq(complete),
            self.c_earliest.eq(complete & (sent == 4) & ~done_once),
            self.c_gap.eq(complete & gap_in_run & (seen8 | run8_now)),
            self.c_unaligned.eq(en & (sent == 4) & seen8 & ~seen_pair & ~complete),
            self.c_restart.eq(complete & restarted),
        ]

        return m

    def stimulus(self, rng, t, consts):
        r = rng.random()
        return dict(enable=int(rng.random() < 0.9), valid=int(rng.random() < 0.8),
                    data=0 if r < 0.7 else rng.getrandbits(32) & rng.getrandbits(32),
                    ctrl=0 if rng.random() < 0.85 else rng.getrandbits(4))


# ----------------------------------------------------------------------------------------------- U0 timers

KEEPALIVE_S = Fraction(10, 10**6)
RECOVERY_S = Fraction(1, 10**3)
KEEPALIVE_MAX_S = Fraction(10, 10**3)


class TimersHarness(Harness):
    domains = ("ss",)

    def __init__(self, freq):
        super().__init__()
        from luna.gateware.usb.usb3.link.timers import LinkMaintenanceTimers
        self.dut = LinkMaintenanceTimers(ss_clock_frequency=float(freq))
        self.NK = int(KEEPALIVE_S * freq)        # floor
        self.NR = int(RECOVERY_S * freq)
        self.NMAX = int(KEEPALIVE_MAX_S * freq)
        assert self.NK >= 2 and self.NR > self.NK
        self.restrictions.append(f"ss_clock_frequency={freq} Hz: keepalive {self.NK} cycles, recovery {self.NR} cycles, "
                                 f"10 ms = {self.NMAX} cycles")
        self.inp("enable", signal=self.dut.enable)
        self.inp("lc_rx", signal=self.dut.link_command_received)
        self.inp("pkt_rx", signal=self.dut.packet_received)
        self.inp("lc_tx", signal=self.dut.link_command_transmitted)
        self.v_ka_late = self.viol("keepalive_late")         # no strobe although nothing sent for the interval
        self.v_ka_early = self.viol("keepalive_early")       # strobe although something was sent less than the interval ago
        self.v_ka_gap = self.viol("keepalive_10ms")          # nothing sent and no keepalive scheduled for 10 ms
        self.v_rec_late = self.viol("recovery_late")
        self.v_rec_early = self.viol("recovery_early")
        self.c_ka = self.cover("keepalive")
        self.c_ka_after_tx = self.cover("keepalive_after_tx")
        self.c_ka_repeat = self.cover("keepalive_repeat")
        self.c_rec = self.cover("recovery")
        self.c_rec_after_rx = self.cover("recovery_after_rx")
        wk = len(Const(self.NK + 1))
        wr = len(Const(self.NR + 1))
        self.q_tx = Signal(wk, name="g_quiet_tx")
        self.q_rx = Signal(wr, name="g_quiet_rx")
        self.seen_ka = Signal(name="g_seen_ka")
        self.seen_rec = Signal(name="g_seen_rec")
        self.gap = Signal(len(Const(self.NMAX)), name="g_gap")
        self.had_tx = Signal(name="g_had_tx")
        self.had_rx = Signal(name="g_had_rx")
        for n in ("q_tx", "q_rx", "seen_ka", "seen_rec", "gap"):
            self.obs(n, getattr(self, n))

    def elaborate(self, platform):
        m = Module()
        m.submodules.dut = dut = self.dut
        NK, NR, NMAX = self.NK, self.NR, self.NMAX
        en = dut.enable
        tx = dut.link_command_transmitted
        rx = dut.link_command_received | dut.packet_received
        ka, rec = dut.schedule_keepalive, dut.transition_to_recovery

        def quiet(q, seen, n, event, strobe, had):
            """q: consecutive previous cycles in U0 without `event` (saturating at n); seen: strobe given earlier in
            this quiet period; had: the quiet period started with an event (rather than with U0 entry)"""
            with m.If(~en | event):
                m.d.ss += [q.eq(0), seen.eq(0)]
                m.d.ss += had.eq(event & en)
            with m.Else():
                m.d.ss += [q.eq(Mux(q == n, n, q + 1)), seen.eq(seen | strobe)]

        quiet(self.q_tx, self.seen_ka, NK, tx, ka, self.had_tx)
        quiet(self.q_rx, self.seen_rec, NR, rx, rec, self.had_rx)

        # cycles since the last keepalive strobe (or the start of the quiet period)
        gap = self.gap
        with m.If(~en | tx | ka):
            m.d.ss += gap.eq(0)
        with m.Elif(gap != NMAX - 1):
            m.d.ss += gap.eq(gap + 1)

        m.d.comb += [
            self.v_ka_late.eq((self.q_tx == NK) & ~(self.seen_ka | ka)),
            self.v_ka_early.eq(ka & (self.q_tx < NK - 1)),
            self.v_ka_gap.eq(gap == NMAX - 1),
            self.v_rec_late.eq((self.q_rx == NR) & ~(self.seen_rec | rec)),
            self.v_rec_early.eq(rec & (self.q_rx < NR - 1)),
            self.c_ka.eq(ka),
            self.c_ka_after_tx.eq(ka & self.had_tx),
            self.c_ka_repeat.eq(ka & self.seen_ka),
            self.c_rec.eq(rec),
            self.c_rec_after_rx.eq(rec & self.had_rx),
        ]
        return m

    def stimulus(self, rng, t, consts):
        return dict(enable=int(rng.random() < 0.995), lc_rx=int(rng.random() < 0.004), pkt_rx=int(rng.random() < 0.004),
                    lc_tx=int(rng.random() < 0.2))


def _timer_inv(ts, frame, h):
    """IND strengthening: ghost quiet counters equal the DUT timers until the ghost saturates; a saturated ghost has
    seen its strobe; the gap counter is bounded by the keepalive timer's wrap period."""
    names = ["dut.keepalive_timer", "dut.recovery_timer", "g_quiet_tx", "g_quiet_rx", "g_seen_ka", "g_seen_rec", "g_gap"]
    sigs = [ts.signal_by_name(n) for n in names]
    if any(s is None for s in sigs):
        return None, names
    kt, rt, qt, qr, sk, sr, gap = [frame.sig(s) for s in sigs]

    def rel(timer, q, seen, n):
        w = max(timer.size(), q.size())
        t_, q_ = z3.ZeroExt(w - timer.size(), timer), z3.ZeroExt(w - q.size(), q)
        return z3.And(z3.ULE(q_, n),
                      z3.Implies(z3.ULT(q_, n), z3.And(t_ == q_, seen == 0)),
                      z3.Implies(q_ == n, seen == 1))

    conds = [rel(kt, qt, sk, h.NK), rel(rt, qr, sr, h.NR)]
    # gap: before the first strobe gap == timer (< NK); afterwards gap == (timer - NK) mod 2^w
    w = kt.size()
    g = gap
    gw = z3.Extract(w - 1, 0, g) if g.size() >= w else z3.ZeroExt(w - g.size(), g)
    small = z3.ULT(g, z3.BitVecVal(1 << w, g.size())) if g.size() > w else z3.BoolVal(True)
    conds.append(z3.And(small, z3.Or(z3.And(sk == 0, gw == kt, z3.ULT(z3.ZeroExt(1, kt), z3.BitVecVal(h.NK, w + 1))),
                                     z3.And(sk == 1, gw == kt - z3.BitVecVal(h.NK % (1 << w), w)))))
    return conds, ["quiet_tx==keepalive_timer (until saturated, then strobe seen)",
                   "quiet_rx==recovery_timer (until saturated, then strobe seen)",
                   "gap == keepalive_timer [- NK mod 2^w after the first strobe]"]


def queries(tier):
    qs = []
    fi = lambda: IdleHarness()
    qs.append(Query("bmc_idle", fi, 12 if tier == "quick" else 16,
                    desc="idle handshake: enable/valid/data/ctrl free every cycle"))
    if tier == "thorough":
        qs.append(Query("bmc_idle_valid1", fi, 20, layer={"valid": 1}, covers=[],
                        desc="layer: sink.valid tied high (deeper; isolates findings that do not depend on valid gaps)"))
    qs.append(Query("cosim_idle", fi, 0, kind="cosim", cosim_cycles=300 if tier == "quick" else 2000))
    bmc_freqs = [200_000] if tier == "quick" else [200_000, 300_000, 500_000]
    for f in [200_000, 300_000, 500_000]:
        tag = f"{f // 1000}k"
        ft = (lambda f=f: TimersHarness(f))
        nr = f // 1000
        if f in bmc_freqs:
            qs.append(Query(f"bmc_timers_{tag}", ft, nr + 12 + (nr // 4 if tier == "thorough" else 0), timeout=900,
                            desc=f"timers at {f} Hz: enable and the three event strobes free every cycle",
                            hints={"recovery": {"lc_rx": 0, "pkt_rx": 0},
                                   "recovery_after_rx": {"pkt_rx": 0, "lc_rx": (lambda t: 1 if t == 2 else 0)}}))
            qs.append(Query(f"cosim_timers_{tag}", ft, 0, kind="cosim", cosim_cycles=600 if tier == "quick" else 3000))
        qs.append(Query(f"ind_timers_{tag}", ft, 1, kind="ind", invariants=_timer_inv,
                        desc=f"timers at {f} Hz: 1-step induction from an arbitrary state, ghost==timer invariants"))
    freal = (lambda: TimersHarness(125_000_000))
    qs.append(Query("ind_timers_125M", freal, 1, kind="ind", invariants=_timer_inv,
                    desc="timers at the real 125 MHz (1250 / 125000 / 1250000 cycles): 1-step induction from an "
                         "arbitrary state, ghost==timer invariants"))
    qs.append(Query("bmc_timers_125M_base", freal, 24, covers=[], split=False,
                    desc="base case of the 125 MHz induction (ghosts and timers start related)"))
    return qs
