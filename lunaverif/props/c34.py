"""C34 -- word alignment places COM sequences (packet starts) on word boundaries without corrupting data.

DUTs (real classes): luna.gateware.usb.usb3.physical.alignment.RxWordAligner (aligns to COM COM COM COM) and
RxPacketAligner (same datapath, aligns to SHP SHP SHP EPF / SLC SLC SLC EPF).

Oracle.  The input is a byte stream: valid word w carries bytes 4w..4w+3 (byte 0 = bits [7:0] = first in time),
each with its ctrl flag; invalid words carry nothing.  The monitor keeps its own copy of the previous valid word
and looks at the 8-symbol window (previous valid word, current word).  One cycle after every valid input word:
  * regroup:        the output word is exactly the 4 window symbols starting at the reported `alignment_offset`
                    (so with an unchanged offset o consecutive outputs are bytes 4(w-1)+o .. 4w+o-1: the input
                    delayed and regrouped, nothing lost, nothing duplicated);
  * offset_on_hit:  if the window holds the alignment pattern at one or more offsets, the reported offset is one
                    of them (when several match -- only possible with >4 consecutive COMs -- any is accepted);
  * whole_word:     ... and the output word is that pattern (ctrl 1111);
  * offset_stable:  if the window holds no pattern (or the word is invalid) the offset does not change;
  * valid_follows:  source.valid is the previous cycle's sink.valid; sink.ready is constantly 1.
A tracked symbol chosen by the environment is additionally followed through the aligner (delivered exactly once,
at the position its offset dictates) as an independent formulation of "no symbol lost or duplicated".
Symbol values are literals (USB 3.2 table 6-1), not imported from luna.
"""
from amaranth import *
from ..harness import Harness
from ..engine import Query

PROP = "C34"
ENCODED = ["luna/gateware/usb/usb3/physical/alignment.py: RxWordAligner.elaborate (previous word, shifted_data_slices, "
           "alignment detection, shift_to_apply / changing_shift, registered output)",
           "luna/gateware/usb/usb3/physical/alignment.py: RxPacketAligner.word_meets_alignment_criteria"]
ASSUMPTIONS = [
    "sink.valid, sink.data, sink.ctrl are free in every cycle (invalid words anywhere); sink.first/last tied to 0; "
    "source.ready tied to 1 (the DUT never reads it)",
    "offsets are counted in symbols from the start of the previous valid word (offset 0 = the previous word itself)",
    "when more than four consecutive COMs make several offsets match at once the statement does not say which wins; "
    "any matching offset is accepted",
]
BOUNDS = "BMC from reset K=7/10 (quick/thorough) with everything free, for both classes; 2-step induction from an arbitrary " \
         "state (previous word, offset) with invariant ghost previous word == DUT previous word (unbounded length)"
OUTSIDE = "the descrambler between the two aligners and their composition in USB3PhysicalLayer; behaviour before the first " \
          "alignment pattern is only required to be a consistent regrouping at the reported offset (0 after reset)"

COM, SHP, SLC, EPF = 0xBC, 0xFB, 0xFE, 0xF7


def _w(*syms):
    d = 0
    for i, s in enumerate(syms):
        d |= s << (8 * i)
    return d


PATTERNS = {
    "word": [_w(COM, COM, COM, COM)],
    "packet": [_w(SHP, SHP, SHP, EPF), _w(SLC, SLC, SLC, EPF)],
}


class AlignerHarness(Harness):
    domains = ("ss",)

    def __init__(self, which="word"):
        super().__init__()
        from luna.gateware.usb.usb3.physical.alignment import RxWordAligner, RxPacketAligner
        self.which = which
        self.dut = RxWordAligner() if which == "word" else RxPacketAligner()
        self.patterns = PATTERNS[which]
        self.inp("valid", signal=self.dut.sink.valid)
        self.inp("data", signal=self.dut.sink.data)
        self.inp("ctrl", signal=self.dut.sink.ctrl)
        self.mark = self.inp("mark", 1)
        self.mark_pos = self.inp("mark_pos", 2)
        self.v_regroup = self.viol("regroup")
        self.v_hit = self.viol("offset_on_hit")
        self.v_whole = self.viol("whole_word")
        self.v_stable = self.viol("offset_stable")
        self.v_valid = self.viol("valid_follows")
        self.v_track = self.viol("tracked_symbol")
        self.c_regroup = self.cover("regroup_offset_nonzero")
        self.c_hit = {o: self.cover(f"hit_offset{o}") for o in range(4)}
        self.c_whole = self.cover("whole_word_then_data")
        self.c_change = self.cover("offset_changes_between_nonzero")
        self.c_stable = self.cover("offset_kept_over_invalid_word")
        self.c_valid = self.cover("valid_gap")
        self.c_track = self.cover("tracked_delivered_next_word")
        self.c_multi = self.cover("several_offsets_match")

    def elaborate(self, platform):
        m = Module()
        m.submodules.dut = dut = self.dut
        sink, source = dut.sink, dut.source
        m.d.comb += [sink.first.eq(0), sink.last.eq(0), source.ready.eq(1)]

        # ---- monitor's own window: previous valid word ++ current word
        gprev_data = Signal(32, name="gprev_data")
        gprev_ctrl = Signal(4, name="gprev_ctrl")
        with m.If(sink.valid):
            m.d.ss += [gprev_data.eq(sink.data), gprev_ctrl.eq(sink.ctrl)]
        win_data = Signal(64, name="win_data")
        win_ctrl = Signal(8, name="win_ctrl")
        m.d.comb += [win_data.eq(Cat(gprev_data, sink.data)), win_ctrl.eq(Cat(gprev_ctrl, sink.ctrl))]
        match = Signal(4, name="match")
        for o in range(4):
            hits = [(win_data[8 * o: 8 * o + 32] == p) & (win_ctrl[o: o + 4] == 0b1111) for p in self.patterns]
            hit = hits[0]
            for x in hits[1:]:
                hit = hit | x
            m.d.comb += match[o].eq(sink.valid & hit)

        # ---- expectations for the next cycle (the DUT's outputs are registered)
        e_valid = Signal(name="e_valid")
        e_win_data = Signal(64, name="e_win_data")
        e_win_ctrl = Signal(8, name="e_win_ctrl")
        e_match = Signal(4, name="e_match")
        e_off_before = Signal(2, name="e_off_before")
        started = Signal(name="started")
        m.d.ss += [e_valid.eq(sink.valid), e_win_data.eq(win_data), e_win_ctrl.eq(win_ctrl), e_match.eq(match),
                   e_off_before.eq(dut.alignment_offset), started.eq(1)]

        off = dut.alignment_offset
        exp_data = Signal(32, name="exp_data")
        exp_ctrl = Signal(4, name="exp_ctrl")
        with m.Switch(off):
            for o in range(4):
                with m.Case(o):
                    m.d.comb += [exp_data.eq(e_win_data[8 * o: 8 * o + 32]), exp_ctrl.eq(e_win_ctrl[o: o + 4])]
        is_pattern = Signal(name="is_pattern")
        pat = [(source.data == p) for p in self.patterns]
        anyp = pat[0]
        for x in pat[1:]:
            anyp = anyp | x
        m.d.comb += is_pattern.eq(anyp & (source.ctrl == 0b1111))
        hit_now = Signal(name="hit_now")
        m.d.comb += hit_now.eq(e_valid & (e_match != 0))
        m.d.comb += [
            self.v_regroup.eq(e_valid & ((source.data != exp_data) | (source.ctrl != exp_ctrl))),
            self.v_hit.eq(hit_now & ~e_match.bit_select(off, 1)),
            self.v_whole.eq(hit_now & ~(source.valid & is_pattern)),
            self.v_stable.eq(started & ~hit_now & (off != e_off_before)),
            self.v_valid.eq((started & (source.valid != e_valid)) | ~sink.ready),
        ]

        # ---- tracked symbol (independent formulation of "nothing lost / duplicated while the offset is unchanged")
        t_sym = Signal(9, name="t_sym")
        t_pos = Signal(2, name="t_pos")
        t_state = Signal(2, name="t_state")     # 0 none, 1 expect in the output of its own word or the next, 2 expect in next, 3 done
        t_off = Signal(2, name="t_off")
        take = Signal(name="take")
        m.d.comb += take.eq(sink.valid & self.mark & (t_state == 0))
        out_sym = [Cat(source.data.word_select(i, 8), source.ctrl[i]) for i in range(4)]
        t_hit = Signal(name="t_hit")
        t_late = Signal(name="t_late")
        with m.If(take):
            m.d.ss += [t_sym.eq(Cat(sink.data.word_select(self.mark_pos, 8), sink.ctrl.bit_select(self.mark_pos, 1))),
                       t_pos.eq(self.mark_pos), t_state.eq(1)]
        with m.Elif((t_state == 1) & e_valid):
            # output for the word that carried the symbol: it holds window symbols off .. off+3; the symbol is window
            # symbol 4 + t_pos, i.e. present iff t_pos < off  -> output position 4 + t_pos - off
            with m.If(t_pos < off):
                m.d.comb += t_hit.eq(1)
                m.d.ss += t_state.eq(3)
                m.d.comb += self.v_track.eq(Array(out_sym)[(4 + t_pos - off)[:2]] != t_sym)
            with m.Else():
                m.d.ss += [t_state.eq(2), t_off.eq(off)]
        with m.Elif((t_state == 2) & e_valid):
            # output for the following valid word: the symbol is window symbol t_pos, present iff t_pos >= off
            m.d.ss += t_state.eq(3)
            with m.If(off == t_off):
                m.d.comb += [t_hit.eq(1), t_late.eq(1)]
                m.d.comb += self.v_track.eq(Array(out_sym)[(t_pos - off)[:2]] != t_sym)
        # ---- covers
        prev_hit = Signal(name="prev_hit")
        prev_off = Signal(2, name="prev_off")
        inval_seen = Signal(name="inval_seen")
        m.d.ss += prev_hit.eq(hit_now)
        with m.If(hit_now):
            m.d.ss += [prev_off.eq(off), inval_seen.eq(0)]
        with m.Elif(started & ~e_valid & (off != 0)):
            m.d.ss += inval_seen.eq(1)
        nhits = Signal(2, name="nhits")
        with m.If(hit_now & (nhits != 3)):
            m.d.ss += nhits.eq(nhits + 1)
        m.d.comb += [
            self.c_regroup.eq(e_valid & ~hit_now & (off != 0) & (nhits != 0) & (source.data == exp_data) & (source.ctrl == 0)
                              & (source.data[0:8] != source.data[8:16])),
            self.c_whole.eq(prev_hit & e_valid & ~hit_now & (off == 2) & source.valid),
            self.c_change.eq(hit_now & (nhits != 0) & (prev_off != 0) & (off != 0) & (off != prev_off)),
            self.c_stable.eq(e_valid & ~hit_now & inval_seen & (off != 0)),
            self.c_valid.eq(started & ~source.valid & ~e_valid),
            self.c_track.eq(t_late & ~self.v_track & (off != 0)),
            self.c_multi.eq(hit_now & ((e_match & (e_match - 1)) != 0)),
        ]
        for o in range(4):
            m.d.comb += self.c_hit[o].eq(hit_now & (e_match == (1 << o)) & (off == o) & is_pattern)
        self.obs("offset", off)
        self.obs("src_valid", source.valid)
        self.obs("src_data", source.data)
        self.obs("src_ctrl", source.ctrl)
        return m

    def stimulus(self, rng, t, consts):
        d = {"valid": int(rng.random() < 0.85), "mark": int(rng.random() < 0.1), "mark_pos": rng.getrandbits(2)}
        # byte stream with frequent pattern fragments at random offsets
        if not hasattr(self, "_bytes"):
            self._bytes = []
        while len(self._bytes) < 4:
            r = rng.random()
            if r < 0.3:
                p = rng.choice(self.patterns)
                self._bytes += [((p >> (8 * i)) & 0xFF, 1) for i in range(4)]
            elif r < 0.4:
                self._bytes += [(COM, 1)] * rng.randrange(1, 7)
            else:
                self._bytes += [(rng.getrandbits(8), int(rng.random() < 0.1)) for _ in range(rng.randrange(1, 6))]
        data = ctrl = 0
        for i in range(4):
            b, c = self._bytes.pop(0)
            data |= b << (8 * i)
            ctrl |= c << i
        d["data"], d["ctrl"] = data, ctrl
        return d


def _inv(ts, frame, h):
    import z3
    names = ["gprev_data", "gprev_ctrl", "dut.previous_data", "dut.previous_ctrl", "dut.shift_to_apply",
             "dut.alignment_offset", "t_state", "t_sym", "t_pos", "t_off", "e_valid", "e_win_data", "e_win_ctrl"]
    sigs = {n: ts.signal_by_name(n) for n in names}
    if any(v is None for v in sigs.values()):
        return None, names
    v = {n: frame.sig(s) for n, s in sigs.items()}
    conds = [v["gprev_data"] == v["dut.previous_data"], v["gprev_ctrl"] == v["dut.previous_ctrl"],
             v["dut.shift_to_apply"] == v["dut.alignment_offset"]]

    def sym(data, ctrl, i):
        return z3.Concat(z3.Extract(i, i, ctrl), z3.Extract(8 * i + 7, 8 * i, data))
    st, ts_, tp, to, ev = v["t_state"], v["t_sym"], v["t_pos"], v["t_off"], v["e_valid"]
    conds.append(z3.Implies(st == 1, ev == 1))
    conds.append(z3.Implies(st == 2, z3.UGE(tp, to)))
    for i in range(4):
        conds.append(z3.Implies(z3.And(st == 1, tp == i), sym(v["e_win_data"], v["e_win_ctrl"], 4 + i) == ts_))
        conds.append(z3.Implies(z3.And(st == 2, ev == 1, tp == i), sym(v["e_win_data"], v["e_win_ctrl"], i) == ts_))
        conds.append(z3.Implies(z3.And(st == 2, ev == 0, tp == i), sym(v["gprev_data"], v["gprev_ctrl"], i) == ts_))
    return conds, ["ghost previous word == DUT previous word", "shift_to_apply == alignment_offset",
                   "pending tracked symbol sits in the monitor's window"]


def queries(tier):
    quick = tier == "quick"
    qs = []
    for which in ("word", "packet"):
        f = (lambda which=which: AlignerHarness(which))
        covers = None if which == "word" else ["regroup_offset_nonzero", "hit_offset0", "hit_offset1", "hit_offset2",
                                               "hit_offset3", "whole_word_then_data", "offset_changes_between_nonzero",
                                               "offset_kept_over_invalid_word", "valid_gap", "tracked_delivered_next_word"]
        qs.append(Query(f"bmc_{which}", f, 7 if quick else 10, covers=covers, timeout=600,
                        desc=f"Rx{which.capitalize()}Aligner: valid/data/ctrl free every cycle, tracked symbol chosen by the solver"))
        qs.append(Query(f"ind_{which}", f, 2, kind="ind", invariants=_inv, timeout=600,
                        desc="2-step induction from an arbitrary (previous word, offset) state; unbounded length"))
        qs.append(Query(f"cosim_{which}", f, 0, kind="cosim", cosim_cycles=300 if quick else 2000))
    return qs
