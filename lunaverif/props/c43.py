"""C43 -- training ordered sets are emitted and detected exactly.

DUTs (unmodified): luna.gateware.usb.usb3.link.ordered_sets.TSEmitter / TSBurstDetector, constructed the way
TSTransceiver constructs them (the repo's TS1/TS2/TSEQ tables as `set_data`) but with small burst lengths.

Oracle: the ordered sets are rebuilt here from the USB 3.x specification (Table 6-2 .. 6-5: symbol lists, D/K code
arithmetic, little-endian packing, link-configuration bits) -- the repo's tables are not imported by the monitor.
  emitter : a reference burst model (word index, set index) driven by start/ready only; every output of the stream
            and `done` is compared with it every cycle.
  detector: a reference matcher over the *valid* words of the stream (cycles without valid are idle gaps and are
            skipped); a word that does not continue the current set ends the run of consecutive sets and may itself
            start a new set.  `detected` is compared with the reference report (fixed latency of two cycles).
"""
from amaranth import *
from ..harness import Harness
from ..engine import Query

# FINDINGS
#  fixed  TSBurstDetector failure handling (findings/C43_count_clear.patch, findings/C43_restart.patch):
#         - `only_consecutive_sets`: after a set followed by a cycle without valid, WAIT_FOR_FIRST skipped non-matching valid
#           words without clearing consecutive_set_count (set, gap, garbage, set counted as two consecutive sets);
#         - `reports_every_burst`: NONE_DETECTED (also the reset state) swallowed one word unchecked and a first word that
#           arrived mid-set was not taken as a new start, so a corrupted last word / truncated set also lost the next set.
#         All detector assertions are now checked on every stream (no scenario predicate).

PROP = "C43"
ENCODED = [
    "luna/gateware/usb/usb3/link/ordered_sets.py: TSEmitter.elaborate (word sequencing, config bits, done, restart)",
    "luna/gateware/usb/usb3/link/ordered_sets.py: TSBurstDetector.elaborate (set matching FSM, consecutive_set_count, "
    "config capture, detected strobe)",
    "luna/gateware/usb/usb3/link/ordered_sets.py: TS1_SET_DATA / TS2_SET_DATA / TSEQ_SET_DATA / INVERTED_TS1_SET_DATA "
    "(compared with spec-derived sets)",
]
ASSUMPTIONS = [
    "emitter: start and source.ready free every cycle; request_hot_reset/loopback/no_scrambling are symbolic but "
    "constant during a run (the LTSSM holds them for a whole substate)",
    "detector: sink.valid/data/ctrl free every cycle; 'idle gap' = cycle without sink.valid",
    "detector: a well-formed set for a detector with include_config has symbols 0-3 = COM and 6-15 = the set identifier "
    "(symbols 4/5 = reserved/link configuration are not compared); without include_config all 16 symbols are compared",
    "detector: report latency is two cycles after the last word of the burst (registered FSM + registered strobe)",
    "burst lengths 1-3 instead of 8/16/32/65536 (constructor parameter)",
]
BOUNDS = "emitter: BMC from reset, TS2(cfg) x{1,2,3}, TS1 x2, TSEQ x2, K=20..30 (quick) / +10 (thorough); TS2 x16 with K=80 " \
         "in the thorough tier.  detector: BMC from reset, TS1 x{1,2,3}, TS2(cfg) x2, inverted TS1 x2, TSEQ x2, K=16..24 (quick) / +8"
OUTSIDE = "the production burst lengths 8/32 (detectors) and 65536 (TSEQ emitter); TSTransceiver's multiplexing of " \
          "the three emitters; request bits changing in the middle of a burst"


# ------------------------------------------------------------------ spec-derived ordered sets (USB 3.2 section 6.4.1)

def _D(x, y):
    return (y << 5) | x


_K28_5 = _D(28, 5)          # COM, sent with the control flag


def _pack(symbols):
    """list of (value, is_control) per symbol -> list of (data32, ctrl4), first symbol in bits 7:0"""
    words = []
    for i in range(0, len(symbols), 4):
        d = c = 0
        for j, (v, k) in enumerate(symbols[i:i + 4]):
            d |= v << (8 * j)
            c |= int(k) << j
        words.append((d, c))
    return words


def spec_set(kind):
    if kind == "TSEQ":
        body = [_D(31, 7), _D(23, 0), _D(0, 6), _D(20, 0), _D(18, 5), _D(7, 7), _D(2, 0), _D(2, 4), _D(18, 3),
                _D(14, 3), _D(8, 1), _D(6, 5), _D(30, 5), _D(13, 3), _D(31, 5)] + [_D(10, 2)] * 16
        return _pack([(_K28_5, True)] + [(b, False) for b in body])
    ident = {"TS1": _D(10, 2), "TS2": _D(5, 2), "ITS1": _D(10, 2) ^ 0xFF}[kind]
    syms = [(_K28_5, True)] * 4 + [(_D(0, 0), False), (0, False)] + [(ident, False)] * 10
    return _pack(syms)


CFG_HOT_RESET, CFG_LOOPBACK, CFG_NO_SCRAMBLING = 0, 2, 3     # bit numbers inside symbol 5 (Table 6-5)


def _repo_set(kind):
    from luna.gateware.usb.usb3.link import ordered_sets as o
    return dict(TS1=(o.TS1_SET_DATA, 0b1111), TS2=(o.TS2_SET_DATA, 0b1111), ITS1=(o.INVERTED_TS1_SET_DATA, 0b1111),
                TSEQ=(o.TSEQ_SET_DATA, 0b0001))[kind]


# ------------------------------------------------------------------------------------------------ emitter

class EmitterHarness(Harness):
    domains = ("ss",)

    def __init__(self, kind, burst, config=False):
        super().__init__()
        from luna.gateware.usb.usb3.link.ordered_sets import TSEmitter
        data, fwc = _repo_set(kind)
        self.dut = TSEmitter(set_data=data, first_word_ctrl=fwc, transmit_burst_length=burst, include_config=config)
        self.words = spec_set(kind)
        self.burst, self.config = burst, config
        self.restrictions.append(f"TSEmitter({kind}, transmit_burst_length={burst}, include_config={config})")
        self.inp("start", signal=self.dut.start)
        self.inp("ready", signal=self.dut.source.ready)
        if config:
            self.inp("req_hot_reset", signal=self.dut.request_hot_reset, const=True)
            self.inp("req_loopback", signal=self.dut.request_loopback, const=True)
            self.inp("req_no_scrambling", signal=self.dut.request_no_scrambling, const=True)
        self.v_valid = self.viol("valid_exactly_during_burst")
        self.v_data = self.viol("symbols")
        self.v_frame = self.viol("first_last")
        self.v_done = self.viol("done")
        self.c_done = self.cover("done")
        self.c_done_stalled = self.cover("done_after_stall")
        self.c_b2b = self.cover("second_burst_back_to_back")
        self.c_idle_again = self.cover("idle_after_burst")
        if config:
            self.c_cfg = self.cover("all_config_bits_sent")
        self.busy = Signal(name="g_busy")
        self.wi = Signal(range(len(self.words)), name="g_word")
        self.si = Signal(range(burst + 1), name="g_set")
        for n in ("busy", "wi", "si"):
            self.obs(n, getattr(self, n))

    def elaborate(self, platform):
        m = Module()
        m.submodules.dut = dut = self.dut
        src = dut.source
        L, N = len(self.words), self.burst
        busy, wi, si = self.busy, self.wi, self.si
        stalled = Signal(name="g_stalled")
        bursts = Signal(2, name="g_bursts")
        b2b = Signal(name="g_b2b")

        exp_data = Signal(32, name="g_exp_data")
        exp_ctrl = Signal(4, name="g_exp_ctrl")
        with m.Switch(wi):
            for i, (d, c) in enumerate(self.words):
                with m.Case(i):
                    m.d.comb += [exp_data.eq(d), exp_ctrl.eq(c)]
                    if self.config and i == 1:
                        cfg = Signal(8, name="g_cfg")
                        m.d.comb += [cfg[CFG_HOT_RESET].eq(dut.request_hot_reset),
                                     cfg[CFG_LOOPBACK].eq(dut.request_loopback),
                                     cfg[CFG_NO_SCRAMBLING].eq(dut.request_no_scrambling)]
                        m.d.comb += exp_data.eq(d | (cfg << 8))
        last_word = wi == L - 1
        last_set = si == N - 1
        exp_done = Signal(name="g_exp_done")
        m.d.comb += exp_done.eq(busy & last_word & last_set & src.ready)

        with m.If(~busy):
            with m.If(dut.start):
                m.d.ss += [busy.eq(1), wi.eq(0), si.eq(0), stalled.eq(0), b2b.eq(0)]
        with m.Else():
            with m.If(src.ready):
                with m.If(last_word):
                    m.d.ss += wi.eq(0)
                    with m.If(last_set):
                        m.d.ss += [si.eq(0), busy.eq(dut.start), b2b.eq(dut.start), stalled.eq(0),
                                   bursts.eq(Mux(bursts == 3, 3, bursts + 1))]
                    with m.Else():
                        m.d.ss += si.eq(si + 1)
                with m.Else():
                    m.d.ss += wi.eq(wi + 1)
            with m.Else():
                m.d.ss += stalled.eq(1)

        m.d.comb += [
            self.v_valid.eq(src.valid != busy),
            self.v_data.eq(busy & ((src.data != exp_data) | (src.ctrl != exp_ctrl))),
            self.v_frame.eq(busy & ((src.first != (wi == 0)) | (src.last != last_word))),
            self.v_done.eq(dut.done != exp_done),
            self.c_done.eq(dut.done & exp_done),
            self.c_done_stalled.eq(dut.done & stalled),
            self.c_b2b.eq(dut.done & b2b),
            self.c_idle_again.eq(~busy & ~src.valid & (bursts != 0)),
        ]
        if self.config:
            m.d.comb += self.c_cfg.eq(busy & (wi == 1) & src.ready & (src.data.word_select(1, 8) == 0b1101))
        return m

    def stimulus(self, rng, t, consts):
        d = dict(start=int(rng.random() < 0.5), ready=int(rng.random() < 0.8))
        d.update(consts)
        return d


# ------------------------------------------------------------------------------------------------ detector

class DetectorHarness(Harness):
    domains = ("ss",)

    def __init__(self, kind, burst, config=False):
        super().__init__()
        from luna.gateware.usb.usb3.link.ordered_sets import TSBurstDetector
        data, fwc = _repo_set(kind)
        self.dut = TSBurstDetector(set_data=data, first_word_ctrl=fwc, sets_in_burst=burst, include_config=config)
        self.words = spec_set(kind)
        self.burst, self.config = burst, config
        self.restrictions.append(f"TSBurstDetector({kind}, sets_in_burst={burst}, include_config={config})")
        self.inp("valid", signal=self.dut.sink.valid)
        self.inp("data", signal=self.dut.sink.data)
        self.inp("ctrl", signal=self.dut.sink.ctrl)
        self.v_other = self.viol("never_on_other_data")      # report although fewer than N complete sets arrived since the last report
        self.v_spurious = self.viol("only_consecutive_sets") # report without N consecutive well-formed sets just before it
        self.v_missed = self.viol("reports_every_burst")     # N consecutive well-formed sets without a report
        self.c_report = self.cover("report")
        self.c_report_gaps = self.cover("report_with_idle_gaps")
        self.c_second = self.cover("second_report")
        self.c_resync = self.cover("report_after_broken_set")
        if config:
            self.v_cfg = self.viol("config_bits")
            self.c_cfg = self.cover("report_with_config_bits")
        self.pos = Signal(range(len(self.words)), name="g_pos")
        self.cnt = Signal(range(burst + 1), name="g_cnt")
        self.total = Signal(range(burst + 2), name="g_total")
        for n in ("pos", "cnt", "total"):
            self.obs(n, getattr(self, n))
        self.obs("detected", self.dut.detected)

    def elaborate(self, platform):
        m = Module()
        m.submodules.dut = dut = self.dut
        valid, data, ctrl = dut.sink.valid, dut.sink.data, dut.sink.ctrl
        L, N = len(self.words), self.burst
        pos, cnt, total = self.pos, self.cnt, self.total

        def matches(i):
            d, c = self.words[i]
            if self.config and i == 1:
                return (data[16:] == (d >> 16)) & (ctrl == c)
            return (data == d) & (ctrl == c)

        m0 = Signal(name="g_match_first")
        mp = Signal(name="g_match_pos")
        m.d.comb += m0.eq(matches(0))
        with m.Switch(pos):
            for i in range(L):
                with m.Case(i):
                    m.d.comb += mp.eq(matches(i))

        set_done = Signal(name="g_set_done")        # the current word completes a well-formed set
        report = Signal(name="g_report")            # ... which is the N-th consecutive one
        m.d.comb += [set_done.eq(valid & mp & (pos == L - 1)), report.eq(set_done & (cnt == N - 1))]
        gaps = Signal(name="g_gaps")
        broken = Signal(name="g_broken")
        reports = Signal(2, name="g_reports")
        with m.If(valid):
            with m.If(mp):
                with m.If(pos == L - 1):
                    m.d.ss += [pos.eq(0), cnt.eq(Mux(report, 0, cnt + 1))]
                with m.Else():
                    m.d.ss += pos.eq(pos + 1)
            with m.Else():
                # the word does not continue the set: the run of consecutive sets ends; it may start a new set
                m.d.ss += [cnt.eq(0), pos.eq(Mux(m0, 1, 0)), gaps.eq(0)]
                with m.If((pos != 0) | (cnt != 0)):
                    m.d.ss += broken.eq(1)
        with m.Elif((pos != 0) | (cnt != 0)):
            m.d.ss += gaps.eq(1)
        with m.If(report):
            m.d.ss += gaps.eq(0)

        # complete sets since the last DUT report (consecutive or not), for the weak 'other data' check
        rep_d1 = Signal(name="g_report_d1")
        rep_d2 = Signal(name="g_report_d2")
        gaps_d1 = Signal(name="g_gaps_d1")
        gaps_d2 = Signal(name="g_gaps_d2")
        m.d.ss += [rep_d1.eq(report), rep_d2.eq(rep_d1), gaps_d1.eq(gaps), gaps_d2.eq(gaps_d1)]
        sd1 = Signal(name="g_set_done_d1")
        sd2 = Signal(name="g_set_done_d2")
        m.d.ss += [sd1.eq(set_done), sd2.eq(sd1)]
        # `total` counts sets whose completion is at least two cycles old (what the DUT can know about)
        tot_next = Signal.like(total)
        m.d.comb += tot_next.eq(Mux(sd2 & (total != N + 1), total + 1, total))
        with m.If(dut.detected):
            m.d.ss += total.eq(Mux(tot_next >= N, tot_next - N, 0))
        with m.Else():
            m.d.ss += total.eq(tot_next)
        with m.If(dut.detected & (reports != 3)):
            m.d.ss += reports.eq(reports + 1)

        m.d.comb += [
            self.v_other.eq(dut.detected & (tot_next < N)),
            self.v_spurious.eq(dut.detected & ~rep_d2),
            self.v_missed.eq(rep_d2 & ~dut.detected),
            self.c_report.eq(dut.detected & rep_d2),
            self.c_report_gaps.eq(dut.detected & rep_d2 & gaps_d2),
            self.c_second.eq(dut.detected & rep_d2 & (reports != 0)),
            self.c_resync.eq(dut.detected & rep_d2 & broken),
        ]
        if self.config:
            cfg = Signal(8, name="g_cfg")
            with m.If(valid & mp & (pos == 1)):
                m.d.ss += cfg.eq(data.word_select(1, 8))
            got = Cat(dut.hot_reset, dut.loopback_requested, dut.scrambling_disabled)
            want = Cat(cfg[CFG_HOT_RESET], cfg[CFG_LOOPBACK], cfg[CFG_NO_SCRAMBLING])
            m.d.comb += [self.v_cfg.eq(dut.detected & (got != want)),
                         self.c_cfg.eq(dut.detected & rep_d2 & (got == 0b101))]
        return m

    def stimulus(self, rng, t, consts):
        # mostly a well-formed stream with occasional gaps and corruptions
        if not hasattr(self, "_p"):
            self._p = 0
        valid = int(rng.random() < 0.85)
        d, c = self.words[self._p]
        if self.config and self._p == 1:
            d |= rng.getrandbits(16)
        if rng.random() < 0.03:
            d ^= 1 << rng.randrange(32)
        if valid:
            self._p = (self._p + 1) % len(self.words)
        return dict(valid=valid, data=d, ctrl=c)


def queries(tier):
    deep = tier == "thorough"
    qs = []
    emit = [("TS2", 1, True), ("TS2", 2, True), ("TS2", 3, True), ("TS1", 2, False), ("TSEQ", 2, False)]
    for kind, n, cfg in emit:
        L = len(spec_set(kind))
        f = (lambda kind=kind, n=n, cfg=cfg: EmitterHarness(kind, n, cfg))
        K = 2 * L * n + 6 + (10 if deep else 0)
        tag = f"emit_{kind}x{n}"
        qs.append(Query(f"bmc_{tag}", f, K, split=False,
                        desc=f"emitter {kind} burst {n}: start/ready free every cycle, request bits symbolic constants"))
        qs.append(Query(f"cosim_{tag}", f, 0, kind="cosim", cosim_cycles=200 if not deep else 1000))
    if deep:
        f16 = lambda: EmitterHarness("TS2", 16, True)
        qs.append(Query("bmc_emit_TS2x16", f16, 80, split=False, timeout=900,
                        covers=["done", "done_after_stall", "all_config_bits_sent"],
                        desc="emitter TS2 with the production burst length 16"))
    det = [("TS1", 1, False), ("TS1", 2, False), ("TS1", 3, False), ("TS2", 2, True), ("ITS1", 2, False),
           ("TSEQ", 2, False)]
    for kind, n, cfg in det:
        L = len(spec_set(kind))
        f = (lambda kind=kind, n=n, cfg=cfg: DetectorHarness(kind, n, cfg))
        K = 2 * L * n + 4 + (8 if deep else 0)
        tag = f"det_{kind}x{n}"
        qs.append(Query(f"bmc_{tag}", f, K, split=False,
                        desc=f"detector {kind} threshold {n}: valid/data/ctrl free every cycle"))
        qs.append(Query(f"cosim_{tag}", f, 0, kind="cosim", cosim_cycles=300 if not deep else 1500))
    return qs
