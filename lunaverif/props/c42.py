"""C42 -- LFPS patterns are detected exactly within their timing windows; the generator produces typical bursts.

DUTs (unmodified): luna.gateware.usb.usb3.physical.lfps.LFPSDetector with the module's real pattern objects
(_PollingLFPS, _PingLFPS, _ResetLFPS) and LFPSGenerator(_PollingLFPS), at scaled clock frequencies.

Oracle: the windows are recomputed here from USB 3.2 Table 6-30 (restated below, exact rational arithmetic):
a burst / repeat period of n cycles lasts n/f seconds and is inside [t_min, t_max] iff ceil(f*t_min) <= n <= floor(f*t_max).
The monitor measures the *raw* envelope at the input (run length of signaling_received, distance between rising
edges), knows nothing about the DUT's FSM, and allows
  * one cycle of quantisation at each window edge for 'never reported outside the window' (soundness), while
    'reported when inside the window' (completeness) uses the exact window;
  * a report latency of 0..3 cycles after the edge that completes the pattern (the DUT has a 2-FF synchroniser).
"""
from fractions import Fraction as F
from math import ceil, floor

from amaranth import *
from ..harness import Harness
from ..engine import Query

# FINDINGS
#  fixed  /repo e6f8dce "fix: LFPSDetector tracks the signaling edge on every cycle"
#         rising_edge_detected() was instantiated inside the WAIT_FOR_NEXT_BURST state, so its history register only
#         updated there: a burst starting in the first cycle after the FSM fell back to WAIT (runt pulse + one idle cycle,
#         or a repeat period of exactly max+1 cycles) was never measured -- e.g. a whole warm-reset burst was ignored.
#         Caught by `reported_inside_window` (all three detectors).  The scenario predicate
#         kf_burst_starts_as_detector_rearms describes exactly these envelopes (unused now that the defect is fixed).
#  noted  (outside the bounds) LFPSGenerator computes ceil(f*t) in floating point: at 5 MHz the repeat count is 51 instead of
#         50 and, with the extra IDLE cycle, the period is 52 cycles; only float-exact frequencies (2, 4 MHz) are checked.

PROP = "C42"
ENCODED = [
    "luna/gateware/usb/usb3/physical/lfps.py: LFPSDetector.elaborate (burst/repeat windows, FSM, last_iteration_matched)",
    "luna/gateware/usb/usb3/physical/lfps.py: LFPSGenerator.elaborate (burst and repeat counters, completed)",
    "luna/gateware/usb/usb3/physical/lfps.py: _PollingLFPS/_PingLFPS/_ResetLFPS timing constants (compared with Table 6-30)",
]
ASSUMPTIONS = [
    "signaling_received is free every cycle (any envelope, including glitches); it changes synchronously to the ss clock, "
    "so the 2-FF synchroniser is a pure 2-cycle delay",
    "a periodic pattern is 'consecutive bursts' = two successive (burst, repeat period) pairs, each inside its window; the "
    "report comes at the start of the third burst",
    "+-1 cycle quantisation at window edges for the 'never reported' direction; exact window for the 'reported' direction",
    "report latency 0..3 cycles",
    "generator: burst length and start-to-start period are the typical times +-1 cycle; `generate` free every cycle",
]
BOUNDS = "detector: polling at 2 MHz (burst 2..2(3), repeat 12..28 cycles) K=46, 4 MHz (3..5(6), 24..56) K=72 and 5 MHz " \
         "(3..7, 30..70) K=80 [thorough]; reset at 100 Hz (8..12) K=22 and 250 Hz (20..30) K=44; ping at 100 Hz (burst " \
         "1 cycle, repeat 16..24) K=40 / 125 Hz (20..30) K=48.  generator: polling at 2 MHz (2 / 20 cycles) K=50, 4 MHz " \
         "(4 / 40) K=90.  Spec constants of all three patterns compared with Table 6-30."
OUTSIDE = "the production frequency 125 MHz (windows of 75..1750 cycles; ping/reset windows of 1e7 cycles); ping burst " \
          "window (40-160 ns) is below one cycle at the scaled frequencies, only its repeat window is exercised; " \
          "frequencies where the DUT's float ceil() differs from exact arithmetic for the generator (e.g. 5 MHz: repeat " \
          "51 instead of 50 cycles); asynchronous input edges (metastability)"

# USB 3.2 r1 Table 6-30 (seconds): (burst t_min, t_typ, t_max), (repeat t_min, t_typ, t_max)
SPEC = {
    "polling": (("0.6e-6", "1.0e-6", "1.4e-6"), ("6e-6", "10e-6", "14e-6")),
    "ping":    (("40e-9", None, "160e-9"), ("160e-3", "200e-3", "240e-3")),
    "reset":   (("80e-3", "100e-3", "120e-3"), None),
}


def _pattern(name):
    from luna.gateware.usb.usb3.physical import lfps
    return dict(polling=lfps._PollingLFPS, ping=lfps._PingLFPS, reset=lfps._ResetLFPS)[name]


def _constants_differ(name):
    """Python-level audit of the module constants against the table"""
    p = _pattern(name)
    b, r = SPEC[name]

    def same(t, spec):
        if t is None and spec is None:
            return True
        if t is None:
            return False
        for attr, s in zip(("t_min", "t_typ", "t_max"), spec):
            v = getattr(t, attr)
            if s is None:
                if v is not None:
                    return False
            elif v is None or abs(F(v) - F(s)) > F(s) / 10**9:
                return False
        return True
    return not (same(p.burst, b) and same(p.repeat, r))


def _window(tmin, tmax, f):
    lo, hi = ceil(F(tmin) * f), floor(F(tmax) * f)
    return max(lo, 1), max(hi, 1)      # a burst cannot be shorter than one cycle (quantisation floor)


def _sat_counter(m, name, width, reset_cond, run_cond, start=1, init=None):
    c = Signal(width, name=name, init=(1 << width) - 1 if init is None else init)
    with m.If(reset_cond):
        m.d.ss += c.eq(start)
    with m.Elif(run_cond & (c != (1 << width) - 1)):
        m.d.ss += c.eq(c + 1)
    return c


class DetectorHarness(Harness):
    domains = ("ss",)

    def __init__(self, name, freq):
        super().__init__()
        from luna.gateware.usb.usb3.physical.lfps import LFPSDetector
        self.name, self.freq = name, freq
        self.dut = LFPSDetector(_pattern(name), ss_clk_frequency=float(freq))
        b, r = SPEC[name]
        self.bw = _window(b[0], b[2], freq)
        self.rw = _window(r[0], r[2], freq) if r else None
        self.restrictions.append(f"LFPSDetector({name}) at {freq} Hz: burst window {self.bw} cycles, repeat window {self.rw}")
        self.inp("signaling", signal=self.dut.signaling_received)
        self.v_spurious = self.viol("never_outside_window")
        self.v_missed = self.viol("reported_inside_window")
        self.v_const = self.viol("spec_constants")
        # scenario of the recorded finding (stale edge detector): the envelope contained a burst that starts after a
        # single idle cycle, or exactly one/two cycles after the repeat window closed
        self.kf_stale = self.kf("kf_burst_starts_as_detector_rearms")
        self.c_detect = self.cover("detect")
        self.c_lo = self.cover("detect_at_lower_edges")
        self.c_hi = self.cover("detect_at_upper_edges")
        self.c_again = self.cover("detect_after_rejected_burst")
        self.obs("detect", self.dut.detect)

    def elaborate(self, platform):
        m = Module()
        m.submodules.dut = dut = self.dut
        s = dut.signaling_received
        (blo, bhi), rw = self.bw, self.rw
        top = max(bhi, rw[1] if rw else 0) + 3
        w = len(Const(top))
        s_prev = Signal(name="g_s_prev")
        m.d.ss += s_prev.eq(s)
        rise = Signal(name="g_rise")
        fall = Signal(name="g_fall")
        m.d.comb += [rise.eq(s & ~s_prev), fall.eq(~s & s_prev)]
        blen = _sat_counter(m, "g_blen", w, rise, s)            # high cycles of the current / last burst
        since = _sat_counter(m, "g_since", w, rise, 1)          # cycles since the last rising edge
        self.obs("blen", blen)
        self.obs("since", since)

        def inside(x, lo, hi, slack):
            return (x >= max(lo - slack, 1)) & (x <= hi + slack)

        pulse_sound = Signal(name="g_pulse_sound")
        pulse_exact = Signal(name="g_pulse_exact")
        at_lo = Signal(name="g_at_lo")
        at_hi = Signal(name="g_at_hi")
        rejected = Signal(name="g_rejected")
        if rw is None:
            m.d.comb += [pulse_sound.eq(fall & inside(blen, blo, bhi, 1)),
                         pulse_exact.eq(fall & inside(blen, blo, bhi, 0)),
                         at_lo.eq(blen == blo), at_hi.eq(blen == bhi)]
            with m.If(fall & ~inside(blen, blo, bhi, 1)):
                m.d.ss += rejected.eq(1)
        else:
            rlo, rhi = rw
            pair_sound = Signal(name="g_pair_sound")
            pair_exact = Signal(name="g_pair_exact")
            prev_sound = Signal(name="g_prev_sound")
            prev_exact = Signal(name="g_prev_exact")
            prev_lo = Signal(name="g_prev_lo")
            prev_hi = Signal(name="g_prev_hi")
            m.d.comb += [pair_sound.eq(inside(blen, blo, bhi, 1) & inside(since, rlo, rhi, 1)),
                         pair_exact.eq(inside(blen, blo, bhi, 0) & inside(since, rlo, rhi, 0))]
            pair_lo = (blen == blo) & (since == rlo)
            pair_hi = (blen == bhi) & (since == rhi)
            with m.If(rise):
                m.d.ss += [prev_sound.eq(pair_sound), prev_exact.eq(pair_exact), prev_lo.eq(pair_lo), prev_hi.eq(pair_hi)]
                with m.If(~pair_sound & (since != (1 << w) - 1)):
                    m.d.ss += rejected.eq(1)
            m.d.comb += [pulse_sound.eq(rise & pair_sound & prev_sound),
                         pulse_exact.eq(rise & pair_exact & prev_exact),
                         at_lo.eq(pair_lo & prev_lo), at_hi.eq(pair_hi & prev_hi)]

        gap = _sat_counter(m, "g_gap", 2, fall, ~s)                # low cycles since the last falling edge
        stale = Signal(name="g_stale")
        risky = rise & (since != (1 << w) - 1) & ((gap == 1) if rw is None else
                                                  ((gap == 1) | (since == rw[1] + 1) | (since == rw[1] + 2)))
        with m.If(risky):
            m.d.ss += stale.eq(1)
        m.d.comb += self.kf_stale.eq(stale | risky)

        def delays(sig, n, name):
            out, cur = [sig], sig
            for i in range(n):
                d = Signal(name=f"g_{name}_d{i + 1}")
                m.d.ss += d.eq(cur)
                out.append(d)
                cur = d
            return out

        ps = delays(pulse_sound, 3, "ps")
        pe = delays(pulse_exact, 3, "pe")
        de = delays(dut.detect, 3, "det")
        lo_d = delays(pulse_exact & at_lo, 3, "lo")
        hi_d = delays(pulse_exact & at_hi, 3, "hi")
        any_ps = ps[0] | ps[1] | ps[2] | ps[3]
        m.d.comb += [
            self.v_spurious.eq(dut.detect & ~any_ps),
            self.v_missed.eq(pe[3] & ~(de[0] | de[1] | de[2] | de[3])),
            self.v_const.eq(int(_constants_differ(self.name))),
            self.c_detect.eq(dut.detect & any_ps),
            self.c_lo.eq(dut.detect & (lo_d[0] | lo_d[1] | lo_d[2] | lo_d[3])),
            self.c_hi.eq(dut.detect & (hi_d[0] | hi_d[1] | hi_d[2] | hi_d[3])),
            self.c_again.eq(dut.detect & any_ps & rejected),
        ]
        return m

    def stimulus(self, rng, t, consts):
        # mostly in-window bursts and gaps with occasional outliers
        if not hasattr(self, "_left") or self._left == 0:
            self._lvl = 1 - getattr(self, "_lvl", 0)
            (blo, bhi), rw = self.bw, self.rw
            if self._lvl:
                self._b = rng.randint(max(blo - 1, 1), bhi + 1)
                self._left = self._b
            else:
                per = rng.randint(rw[0] - 1, rw[1] + 1) if rw else rng.randint(2, 6)
                self._left = max(per - self._b, 1)
        self._left -= 1
        return dict(signaling=self._lvl)


class GeneratorHarness(Harness):
    domains = ("ss",)

    def __init__(self, freq):
        super().__init__()
        from luna.gateware.usb.usb3.physical.lfps import LFPSGenerator
        self.freq = freq
        self.dut = LFPSGenerator(_pattern("polling"), float(freq))
        b, r = SPEC["polling"]
        tb, tp = F(b[1]) * freq, F(r[1]) * freq
        assert tb.denominator == 1 and tp.denominator == 1, "choose a frequency with whole-cycle typical times"
        self.tb, self.tp = int(tb), int(tp)
        self.restrictions.append(f"LFPSGenerator(polling) at {freq} Hz: typical burst {self.tb} cycles, period {self.tp} cycles")
        self.inp("generate", signal=self.dut.generate)
        self.v_burst = self.viol("burst_length")
        self.v_short = self.viol("period_not_shorter")
        self.v_long = self.viol("period_not_longer_while_enabled")
        self.v_idle = self.viol("electrical_idle_control")
        self.v_done = self.viol("completed_once_per_cycle")
        self.v_quiet = self.viol("no_burst_unless_requested")
        self.c_burst = self.cover("burst")
        self.c_second = self.cover("second_burst_on_time")
        self.c_completed = self.cover("completed")
        self.c_stop = self.cover("stops_after_disable")

    def elaborate(self, platform):
        m = Module()
        m.submodules.dut = dut = self.dut
        gen, send, idle, done = dut.generate, dut.send_signaling, dut.drive_electrical_idle, dut.completed
        tb, tp = self.tb, self.tp
        w = len(Const(tp + 4))
        send_prev = Signal(name="g_send_prev")
        m.d.ss += send_prev.eq(send)
        rise = Signal(name="g_rise")
        fall = Signal(name="g_fall")
        m.d.comb += [rise.eq(send & ~send_prev), fall.eq(~send & send_prev)]
        blen = _sat_counter(m, "g_blen", w, rise, send)
        since = _sat_counter(m, "g_since", w, rise, 1)              # cycles since the last burst start (all ones: none yet)
        gen_run = _sat_counter(m, "g_gen_run", w, ~gen, gen, start=0, init=0)   # consecutive previous cycles with generate high
        none_yet = since == (1 << w) - 1
        ever_gen = Signal(name="g_ever_gen")
        with m.If(gen):
            m.d.ss += ever_gen.eq(1)
        dones = Signal(2, name="g_dones")                           # completed strobes since the last burst start
        with m.If(rise):
            m.d.ss += dones.eq(0)
        with m.Elif(done & (dones != 3)):
            m.d.ss += dones.eq(dones + 1)
        bursts = Signal(2, name="g_bursts")
        with m.If(rise & (bursts != 3)):
            m.d.ss += bursts.eq(bursts + 1)
        in_cycle = ~none_yet & (since < tp - 1)                     # inside the repeat period of the last burst

        m.d.comb += [
            # every burst has the typical length (+-1 cycle)
            self.v_burst.eq((fall & ((blen < tb - 1) | (blen > tb + 1))) | (send & (blen > tb + 1) & ~rise)),
            # bursts are never closer than the typical period (-1 cycle)
            self.v_short.eq(rise & ~none_yet & (since < tp - 1)),
            # while generate stays high, a burst starts at least every typical period (+1 cycle)
            self.v_long.eq((gen_run >= tp + 2) & ~rise & (none_yet | (since > tp + 1))),
            # signalling only with the electrical-idle control asserted, which is held for the whole cycle
            self.v_idle.eq((send & ~idle) | (in_cycle & ~idle)),
            # completed: once per cycle, at its end, never during a burst
            self.v_done.eq((done & (send | none_yet | (since < tp - 2) | (dones != 0))) |
                           (rise & ~none_yet & (dones == 0))),
            # nothing is sent if nothing was ever requested
            self.v_quiet.eq(send & ~ever_gen & ~gen),
            self.c_burst.eq(fall),
            self.c_second.eq(rise & (bursts != 0) & (since <= tp + 1)),
            self.c_completed.eq(done),
            self.c_stop.eq((bursts != 0) & ~idle & ~gen),
        ]
        return m

    def stimulus(self, rng, t, consts):
        if not hasattr(self, "_g") or rng.random() < 0.02:
            self._g = int(rng.random() < 0.8)
        return dict(generate=self._g)


def queries(tier):
    deep = tier == "thorough"
    qs = []
    # (pattern, frequency, K for the assertions, K for the upper-edge witness)
    det = [("polling", 2_000_000, 46, 64), ("reset", 100, 22, 22), ("ping", 100, 40, 56)]
    if deep:
        det = [("polling", 2_000_000, 70, 70), ("polling", 4_000_000, 100, 120), ("polling", 5_000_000, 90, 150),
               ("reset", 100, 30, 30), ("reset", 250, 44, 44), ("ping", 100, 60, 60), ("ping", 125, 68, 68)]
    for name, f, K, KC in det:
        fac = (lambda name=name, f=f: DetectorHarness(name, f))
        tag = f"det_{name}_{f}"
        upper = ["detect_at_upper_edges"]
        rest = ["detect", "detect_at_lower_edges", "detect_after_rejected_burst"]
        qs.append(Query(f"bmc_{tag}", fac, K, timeout=900, covers=rest + (upper if KC == K else []),
                        desc=f"{name} detector at {f} Hz: signaling_received free every cycle"))
        if KC != K:
            qs.append(Query(f"cover_{tag}", fac, KC, asserts=[], covers=upper, timeout=900,
                            desc=f"{name} detector at {f} Hz: witness of a report with both windows at their upper edge"))
        qs.append(Query(f"cosim_{tag}", fac, 0, kind="cosim", cosim_cycles=400 if not deep else 2000))
    gen = [(2_000_000, 50)] if not deep else [(2_000_000, 70), (4_000_000, 90)]
    for f, K in gen:
        fac = (lambda f=f: GeneratorHarness(f))
        qs.append(Query(f"bmc_gen_{f}", fac, K, timeout=600, desc=f"polling generator at {f} Hz: generate free every cycle"))
        qs.append(Query(f"cosim_gen_{f}", fac, 0, kind="cosim", cosim_cycles=400 if not deep else 2000))
    return qs
