"""C33 -- transmit CTC inserts SKPs only in place of idle and often enough.

DUT: the real luna.gateware.usb.usb3.physical.layer.USB3PhysicalLayer (so the real wiring Scrambler -> CTCSkipInserter
-> PHY tx_data/tx_datak and `scrambler.hold = tx_ctc.sending_skip`), built around a plain PIPEInterface signal
bundle as PHY.  Two configurations: the real CTCSkipInserter (SKIP_BYTE_LIMIT 354) and a scaled one (a subclass that
only overrides SKIP_BYTE_LIMIT = 26, substituted for the name the layer instantiates) so that several insertions fit
into a shallow bound.

Oracle = a model of the link partner's receiver: every transmitted word (PHY tx_data/tx_datak, one cycle after the
link layer presented it) is either a whole SKP word, which the receiver discards without advancing its descrambler,
or goes through the repo's own Descrambler (shared definition, C31) and must then equal the word the link layer
presented -- so data is never replaced / dropped / reordered and the two LFSRs stay in step over inserted SKPs.
SKP scheduling is checked against ghost counters implementing USB 3.2 6.4.3 (one SKP ordered set = 2 SKP symbols
per 354 symbols, remainder carried, sent as pairs = one SKP word) : a SKP word appears exactly when idle is being
sent and at least two ordered sets are owed.
"""
from amaranth import *
from ..harness import Harness
from ..engine import Query

PROP = "C33"
ENCODED = ["luna/gateware/usb/usb3/physical/ctc.py: CTCSkipInserter.elaborate (skips_to_send, data_bytes_elapsed, SKP "
           "substitution, registered pass-through, sending_skip)",
           "luna/gateware/usb/usb3/physical/layer.py: USB3PhysicalLayer.elaborate transmit path (scrambler.sink wiring, "
           "tx_ctc.sink <- scrambler.source, tx_ctc.can_send_skip, scrambler.hold <- tx_ctc.sending_skip, phy.tx_data/tx_datak)",
           "luna/gateware/usb/usb3/physical/scrambling.py: Scrambler (hold / advance / COM reset, as wired)"]
ASSUMPTIONS = [
    "link layer contract (usb3/link/layer.py:296-310): can_send_skp is asserted only while the link layer drives the "
    "logical-idle word (data 0, ctrl 0); built into the environment (the word is forced to IDL when can_send_skp=1)",
    "the link layer never sends SKP symbols itself (assume_no_skp_from_link)",
    "idle time permits: the link layer offers idle before more than 4 SKP ordered sets are owed (the bound stated in "
    "CTCSkipInserter's own comment, following from the maximum packet length) (assume_idle_permits)",
    "tx_electrical_idle tied to 0 (transmitting); enable_scrambling is a symbolic constant; all PHY status inputs "
    "(phy_status, rx_status, power_present, rx_data, rx_datak, rx_elec_idle) and the other layer controls tied to 0",
    "every cycle transmits 4 symbols; 'transmitted symbols' counts all of them",
    "the receiver model is the repo's Descrambler (C31 proves it against the LFSR definition); SKP = K28.1 literal",
]
BOUNDS = "scaled limit 26: BMC K=32/60 (quick/thorough), link words / can_send_skp free every cycle for the scheduling and " \
         "substitution assertions; the receiver round trip (two LFSRs in step) with everything free to K=18/22 and with " \
         "restricted idle schedules to K=28/60; real limit 354: BMC K=186 with can_send_skp pinned to 0 before cycle 170 and " \
         "free afterwards (first insertion reached), data free"
OUTSIDE = "cycle 0 after reset (tx_ctc's registered sink.ready is still 0; in the device the PHY is in electrical idle then); " \
          "tx_electrical_idle=1; the link layer's arbiter producing can_send_skp (C39/C41 side); more than one insertion " \
          "with the real constant (needs K>360)"

SKP_WORD, IDL = 0x3C3C3C3C, 0


class _ScaledLayer(Elaboratable):
    """elaborates the real USB3PhysicalLayer while `CTCSkipInserter` in its module namespace is a subclass that only
    overrides SKIP_BYTE_LIMIT"""

    def __init__(self, layer, limit):
        self.layer, self.limit = layer, limit

    def elaborate(self, platform):
        import luna.gateware.usb.usb3.physical.layer as L
        orig = L.CTCSkipInserter
        if self.limit is not None:
            L.CTCSkipInserter = type("CTCSkipInserterScaled", (orig,), {"SKIP_BYTE_LIMIT": self.limit})
        try:
            return self.layer.elaborate(platform)
        finally:
            L.CTCSkipInserter = orig


class TxCtcHarness(Harness):
    # the PHY reset controller / LFPS blocks of the layer live in "sync"; both domains tick together in every step
    domains = ("ss", "sync")

    def __init__(self, limit=None):
        super().__init__()
        from luna.gateware.usb.usb3.physical.layer import USB3PhysicalLayer
        from luna.gateware.usb.usb3.physical.ctc import CTCSkipInserter
        from luna.gateware.usb.usb3.physical.scrambling import Descrambler
        from luna.gateware.interface.pipe import PIPEInterface
        self.real_limit = CTCSkipInserter.SKIP_BYTE_LIMIT
        self.limit = limit or 354          # ghost schedule constant: the spec's literal 354 unless explicitly scaled
        self.phy = PIPEInterface(width=4)
        self.layer = USB3PhysicalLayer(phy=self.phy, sync_frequency=50e6)
        self.dut = _ScaledLayer(self.layer, limit)
        self.rx = Descrambler()            # receiver model (shared definition)
        if limit is not None:
            self.stubs.append(f"CTCSkipInserter substituted by a subclass overriding only SKIP_BYTE_LIMIT={self.limit}")
        self.restrictions.append("tx_electrical_idle=0; PHY status inputs tied to 0; LFPS / reset / detection controls tied to 0")
        self.in_data = self.inp("in_data", 32)
        self.in_ctrl = self.inp("in_ctrl", 4)
        self.can = self.inp("can_send_skp", 1)
        self.scr = self.inp("enable_scrambling", 1, const=True)
        self.a_noskp = self.assume("no_skp_from_link")
        self.a_idle = self.assume("idle_permits")
        self.v_intact = self.viol("link_words_intact_after_descrambling")
        self.v_only = self.viol("skp_only_in_place_of_idle")
        self.v_due = self.viol("skp_sent_when_due")
        self.v_early = self.viol("skp_not_ahead_of_schedule")
        self.v_ready = self.viol("link_never_stalled")
        self.v_const = self.viol("skip_limit_is_354")
        self.c_intact = self.cover("scrambled_data_after_skp")
        self.c_only = self.cover("skp_inserted")
        self.c_due = self.cover("skp_deferred_until_idle")
        self.c_early = self.cover("idle_not_replaced_when_nothing_owed")
        self.c_two = self.cover("two_insertions")
        self.c_com = self.cover("com_resets_after_skp")

    def elaborate(self, platform):
        m = Module()
        m.submodules.dut = self.dut
        m.submodules.rx = rx = self.rx
        layer, phy = self.layer, self.phy
        LIMIT = self.limit

        # ---- environment: the link layer's word stream
        word = Signal(32, name="link_data")
        ctrl = Signal(4, name="link_ctrl")
        m.d.comb += [word.eq(Mux(self.can, IDL, self.in_data)), ctrl.eq(Mux(self.can, 0, self.in_ctrl))]
        m.d.comb += [
            layer.sink.data.eq(word), layer.sink.ctrl.eq(ctrl), layer.sink.valid.eq(1),
            layer.sink.first.eq(0), layer.sink.last.eq(0),
            layer.can_send_skp.eq(self.can),
            layer.enable_scrambling.eq(self.scr),
            layer.tx_electrical_idle.eq(0), layer.engage_terminations.eq(0), layer.tx_deemph.eq(0),
            layer.tx_ones_zeros.eq(0), layer.invert_rx_polarity.eq(0), layer.train_equalizer.eq(0),
            layer.perform_rx_detection.eq(0), layer.send_lfps_polling.eq(0),
            layer.source.ready.eq(1),
            phy.phy_status.eq(0), phy.rx_status.eq(0), phy.power_present.eq(0), phy.rx_data.eq(0), phy.rx_datak.eq(0),
            phy.rx_elec_idle.eq(0),
        ]
        skp_in = Signal(4, name="skp_in")
        for i in range(4):
            m.d.comb += skp_in[i].eq((word.word_select(i, 8) == 0x3C) & ctrl[i])
        m.d.comb += self.a_noskp.eq(skp_in == 0)

        accepted = Signal(name="accepted")
        m.d.comb += accepted.eq(layer.sink.ready)         # sink.valid is constantly 1

        # ---- ghost SKP schedule (USB 3.2 6.4.3): remainder carried, pairs sent
        rem = Signal(range(LIMIT + 4), name="g_rem")
        owed = Signal(4, name="g_owed")
        due = Signal(name="g_due")
        m.d.comb += due.eq(self.can & (owed >= 2) & accepted)
        wrap = Signal(name="g_wrap")
        m.d.comb += wrap.eq(rem + 4 >= LIMIT)
        with m.If(accepted):
            m.d.ss += rem.eq(Mux(wrap, rem + 4 - LIMIT, rem + 4))
            m.d.ss += owed.eq(owed + wrap - Mux(due, 2, 0))
        m.d.comb += self.a_idle.eq(owed <= 4)

        # ---- expectations for the next cycle (tx_ctc registers its output)
        e_acc = Signal(name="e_acc")
        e_data = Signal(32, name="e_data")
        e_ctrl = Signal(4, name="e_ctrl")
        e_can = Signal(name="e_can")
        e_due = Signal(name="e_due")
        e_owed = Signal(4, name="e_owed")
        started = Signal(name="started")
        m.d.ss += [e_acc.eq(accepted), e_data.eq(word), e_ctrl.eq(ctrl), e_can.eq(self.can), e_due.eq(due), e_owed.eq(owed),
                   started.eq(1)]

        out_data, out_ctrl = phy.tx_data, phy.tx_datak
        is_skp = Signal(name="out_is_skp")
        m.d.comb += is_skp.eq((out_data == SKP_WORD) & (out_ctrl == 0b1111))

        # ---- receiver model: SKP words are discarded before the descrambler and do not advance it
        m.d.comb += [
            rx.enable.eq(self.scr), rx.clear.eq(0), rx.hold.eq(0),
            rx.sink.data.eq(out_data), rx.sink.ctrl.eq(out_ctrl), rx.sink.valid.eq(e_acc & ~is_skp),
            rx.sink.first.eq(0), rx.sink.last.eq(0), rx.source.ready.eq(1),
        ]
        good = (rx.source.data == e_data) & (rx.source.ctrl == e_ctrl)
        m.d.comb += [
            self.v_intact.eq(e_acc & ~is_skp & ~good),
            self.v_only.eq(e_acc & is_skp & ~e_can),
            self.v_due.eq(e_acc & e_due & ~is_skp),
            self.v_early.eq(e_acc & is_skp & ~e_due),
            self.v_ready.eq(started & ~accepted),
            self.v_const.eq(Const(int(self.real_limit != 354), 1)),
        ]

        # ---- covers
        skps = Signal(2, name="skps")
        with m.If(e_acc & is_skp & (skps != 3)):
            m.d.ss += skps.eq(skps + 1)
        waited = Signal(name="waited")
        with m.If((owed >= 2) & ~self.can):
            m.d.ss += waited.eq(1)
        with m.Elif(due):
            m.d.ss += waited.eq(0)
        e_waited = Signal(name="e_waited")
        m.d.ss += e_waited.eq(waited)
        com_seen = Signal(name="com_seen")
        with m.If((skps != 0) & e_acc & ~is_skp & (e_ctrl[0]) & (e_data[0:8] == 0xBC)):
            m.d.ss += com_seen.eq(1)
        m.d.comb += [
            self.c_intact.eq(e_acc & ~is_skp & good & (skps != 0) & self.scr & (e_ctrl == 0) & (e_data != 0) & (out_data != e_data)),
            self.c_only.eq(e_acc & is_skp & e_can),
            self.c_due.eq(e_acc & is_skp & e_waited),
            self.c_early.eq(e_acc & e_can & ~is_skp & (e_owed < 2) & good),
            self.c_two.eq(e_acc & is_skp & (skps == 1)),
            self.c_com.eq(com_seen & e_acc & ~is_skp & good & self.scr & (e_ctrl == 0) & (e_data != 0)),
        ]
        self.obs("tx_data", out_data)
        self.obs("tx_datak", out_ctrl)
        self.obs("owed", owed)
        self.obs("rem", rem)
        self.obs("sink_ready", layer.sink.ready)
        return m

    def stimulus(self, rng, t, consts):
        d = {"enable_scrambling": consts["enable_scrambling"], "can_send_skp": int(rng.random() < 0.3)}
        r = rng.random()
        if r < 0.1:
            d["in_data"], d["in_ctrl"] = 0xBCBCBCBC, 0xF
        elif r < 0.2:
            d["in_data"], d["in_ctrl"] = 0xF7FBFBFB, 0xF
        else:
            d["in_data"], d["in_ctrl"] = rng.getrandbits(32), 0
        return d


def queries(tier):
    quick = tier == "quick"
    fs = (lambda: TxCtcHarness(limit=26))
    fr = (lambda: TxCtcHarness())
    INTACT = "link_words_intact_after_descrambling"
    others = ["skp_only_in_place_of_idle", "skp_sent_when_due", "skp_not_ahead_of_schedule", "link_never_stalled",
              "skip_limit_is_354"]
    qs = [
        Query("bmc_scaled", fs, 32 if quick else 60, asserts=others, timeout=600,
              desc="real USB3PhysicalLayer, SKIP_BYTE_LIMIT scaled to 26 (remainder 2 mod 4 like 354): link words and "
                   "can_send_skp free every cycle; scheduling / substitution / stall assertions"),
        Query("bmc_intact_free", fs, 18 if quick else 22, asserts=[INTACT], covers=[], timeout=600,
              desc="scaled: receiver-model round trip with everything free (first insertion and the words after it)"),
        Query("bmc_intact_sched3", fs, 28 if quick else 60, asserts=[INTACT], covers=[], timeout=600,
              layer={"can_send_skp": (lambda t: int(t % 3 == 0))},
              desc="scaled; layer: idle offered every third cycle (concrete schedule), link words free: round trip over "
                   "several insertions"),
        Query("bmc_real354", fr, 186, asserts=others, timeout=600, layer={"can_send_skp": (lambda t: 0 if t < (176 if quick else 170) else None)},
              covers=["skp_inserted", "skp_deferred_until_idle"],
              hints={"*": {"can_send_skp": (lambda t: int(t >= 181)), "in_ctrl": 0, "in_data": 0x12345678}},
              desc="real constant 354; layer: can_send_skp pinned to 0 before cycle 176 (quick) / 170 (thorough), free afterwards (first insertion "
                   "when 2*354 symbols were sent = cycle 178); link words free"),
        Query("bmc_real354_intact", fr, 186, asserts=[INTACT], covers=[], timeout=600,
              layer={"can_send_skp": (lambda t: int(t >= 179)), "in_ctrl": 0},
              desc="real constant 354; layer: concrete idle schedule (idle from cycle 179), data words only (no K symbols), "
                   "data free: round trip across the first real insertion"),
        Query("cosim_scaled", fs, 0, kind="cosim", cosim_cycles=300 if quick else 1500),
        Query("cosim_real354", fr, 0, kind="cosim", cosim_cycles=400 if quick else 1500),
    ]
    if not quick:
        qs += [
            Query("bmc_intact_window", fs, 40, asserts=[INTACT], covers=[], timeout=600,
                  layer={"can_send_skp": (lambda t: None if 10 <= t < 18 else int(t % 5 == 0))},
                  desc="scaled; layer: idle free in cycles 10..17, every fifth cycle otherwise"),
            Query("bmc_intact_noscramble", fs, 40, asserts=[INTACT], covers=[], timeout=600, layer={"enable_scrambling": 0},
                  desc="scaled; layer: scrambling disabled, everything else free"),
        ]
    return qs
