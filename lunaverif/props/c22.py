"""C22 -- ULPI receive translation yields exactly the PHY's packet bytes.

DUT: luna.gateware.interface.ulpi.UTMITranslator (real class incl. its ULPIRxEventDecoder, register window, control
and transmit translators), ULPI bus object without `rst`, handle_clocking=False.
Environment: the shared ULPI PHY model (lib/ulpi.py): DIR/NXT/DATA free every cycle within the ULPI 1.1 rules.
Oracle: the PHY-side ghosts of lib/ulpi.py (what the PHY *told* the link: receive-start indications, RxCmds, data
bytes), compared with the UTMI-side outputs.  Nothing is copied from the translator; its one register stage of
latency is allowed for (UTMI outputs are compared with what the PHY sent in the previous cycle; flags may lag one
more cycle).

FINDINGS (genuine defects of the anchored code found by this check on tree 73f89ad; both fixed in /repo by
942f2dd "keep decoding RxCmds while a ULPI register write is pending" and 4f33358 "derive UTMI RxActive from the RxCmd
on the bus, not from the decoder's edge strobes"; the check is green on the fixed tree):
  1. RxCmds were ignored while the register window was busy with a *write* (register_operation_in_progress was wired
     to register_window.busy, which also covers writes and DIR-aborted/retrying writes): an RxCmd colliding with e.g.
     the start-up Function Control write left line_state/VBUS flags/RxActive stale and lost the packet it announced.
     Trace: FS settings, step 1 DIR rises with NXT, step 2 RxCmd 0x03 -> line_state stays 0.
  2. The decoder strobed rx_start/rx_stop relative to the RxActive bit of the *previous RxCmd*, not to the
     translator's rx_active (which DIR falling clears): after a packet ended by DIR falling, the next packet announced
     by RxCmd(RxActive=1) with DIR already high was dropped completely; a DIR+NXT start followed by RxCmd(RxActive=0)
     left rx_active stuck high until DIR fell.
  3. The RxCmd path took two register stages to rx_active, so a data byte directly following the announcing RxCmd was
     dropped (fixed as a side effect of 2: rx_active is now taken from the RxCmd on the bus).
"""
from amaranth import *
from ..harness import Harness
from ..engine import Query
from ..lib.ulpi import ULPIBus, ULPIPhyModel
from ..lib.usb2 import utmi_rx_contract

PROP = "C22"
ENCODED = [
    "luna/gateware/interface/ulpi.py: UTMITranslator.elaborate (rx_active handler, rx_data/rx_valid register stage, "
    "RxEvent status wiring, register_operation_in_progress wiring)",
    "luna/gateware/interface/ulpi.py: ULPIRxEventDecoder.elaborate (RxCmd sampling, rx_start/rx_stop strobes, flag decode)",
    "luna/gateware/interface/ulpi.py: ULPIRegisterWindow / ULPIControlTranslator (only as the source of `busy`)",
]
ASSUMPTIONS = [
    "ULPI PHY contract of lib/ulpi.py: turnaround on DIR edges (NXT=1 in the rising turnaround = receive start), DIR "
    "high >= 2 cycles, DIR=1&NXT=0 after the turnaround is an RxCmd, DIR=1&NXT=1 a data byte; data bytes only inside a "
    "receive the PHY announced (DIR rise with NXT, or RxCmd with RxActive=1) and not after RxCmd with RxActive=0; NXT "
    "with DIR=0 only to accept a presented command byte; no DIR rise inside an accepted transmit command -- except in "
    "layer bmc_txabort, where the PHY may pre-empt an accepted transmission by DIR at any time (3.8.2.3)",
    "the PHY never sends register-read data unasked; the translator never issues RegRead (asserted: no_regread)",
    "UTMI control inputs are symbolic constants of a run (so the start-up register writes are or are not needed); "
    "UTMI transmit side free within the producer contract (valid/data held until tx_ready)",
    "latency: a data byte sent in cycle t is expected on rx_data/rx_valid in cycle t+1; RxActive and the RxCmd flags "
    "are required to agree with the PHY's signalling once that has been stable for two cycles (RxActive) resp. with the "
    "RxCmd register of the previous or the current cycle (flags)",
]
BOUNDS = "BMC from reset; quick K=12 (15 without transmit side), thorough K=20 (26 without transmit side); DIR/NXT/DATA free per cycle (several short packets, RxCmds " \
         "mid-packet, DIR-aborted packets, receive colliding with the start-up register writes and with transmit commands)"
OUTSIDE = "register-read responses on the bus (UTMITranslator cannot issue reads: read_request is tied to 0, so a " \
          "legal PHY never produces one; checked instead: no RegRead command is ever presented, and on " \
          "ULPIRxEventDecoder alone that nothing is sampled while register_operation_in_progress); session_valid " \
          "(not in the statement's observation list); changes of control inputs during a run; K beyond the bounds"


class RxHarness(Harness):
    domains = ("usb",)

    def __init__(self, with_tx=True, tx_abort=False):
        super().__init__()
        from luna.gateware.interface.ulpi import UTMITranslator
        self.bus = ULPIBus()
        self.dut = UTMITranslator(ulpi=self.bus, handle_clocking=False)
        # tx_abort: the PHY may raise DIR at any time, also inside a transmit command it has accepted (ULPI 1.1
        # 3.8.2.3: the PHY aborts the link's transmission; the receive path must keep working regardless)
        self.phy = ULPIPhyModel(self, self.bus, tx_abort=tx_abort)
        self.with_tx = with_tx
        if with_tx:
            self.inp("tx_valid", signal=self.dut.tx_valid)
            self.inp("tx_data", signal=self.dut.tx_data)
            self.a_prod = self.assume("utmi_producer")
        for name, _ in self.dut.CONTROL_SIGNALS:
            self.inp(name, signal=getattr(self.dut, name), const=True)
        self.k = self.inp("k", 3, const=True)
        names = ["stream_valid", "stream_data", "order", "rxactive_follows", "rxactive_dir", "utmi_contract",
                 "line_state", "vbus_flags", "rx_event_flags", "no_regread"]
        self.v = {n: self.viol(n) for n in names}
        cov = ["byte_delivered", "tracked", "rxcmd_midpacket", "dir_start", "rxcmd_start", "dir_abort",
               "rxcmd_stop", "second_packet", "flags_updated", "rx_during_regwrite", "rxcmd_during_regwrite", "rx_preempts_tx"]
        self.c = {n: self.cover(n) for n in cov}

    def elaborate(self, platform):
        m = Module()
        m.submodules.dut = dut = self.dut
        phy, bus = self.phy, self.bus
        phy.build(m)
        d = m.d.usb
        v, c = self.v, self.c
        if self.with_tx:
            p_valid, p_ready, p_data = Signal(name="p_valid"), Signal(name="p_ready"), Signal(8, name="p_data")
            d += [p_valid.eq(dut.tx_valid), p_ready.eq(dut.tx_ready), p_data.eq(dut.tx_data)]
            m.d.comb += self.a_prod.eq(~(p_valid & ~p_ready) | (dut.tx_valid & (dut.tx_data == p_data)))

        # ---- what the PHY sent in the previous cycle
        s_data, s_byte = Signal(name="sent_data"), Signal(8, name="sent_byte")
        d += [s_data.eq(phy.rxdata), s_byte.eq(bus.data.i)]
        # clause: exactly the data bytes, each once (one register stage later); RxCmds never appear as data
        m.d.comb += [
            v["stream_valid"].eq(dut.rx_valid != s_data),
            v["stream_data"].eq(dut.rx_valid & (dut.rx_data != s_byte)),
            c["byte_delivered"].eq(dut.rx_valid & s_data),
        ]
        # clause: in order (tracked element k), never more delivered than sent
        pcnt, ucnt = Signal(4, name="pcnt"), Signal(4, name="ucnt")
        pbyte = Signal(8, name="pbyte")
        with m.If(phy.rxdata & (pcnt != 15)):
            d += pcnt.eq(pcnt + 1)
            with m.If(pcnt == self.k):
                d += pbyte.eq(bus.data.i)
        with m.If(dut.rx_valid & (ucnt != 15)):
            d += ucnt.eq(ucnt + 1)
        kth = dut.rx_valid & (ucnt == self.k)
        m.d.comb += [
            v["order"].eq((kth & ((pcnt <= self.k) | (dut.rx_data != pbyte))) | (ucnt > pcnt)),
            c["tracked"].eq(kth & (self.k >= 2)),
        ]

        # ---- clause: RxActive follows the PHY's RxCmd and DIR
        p_rxa = Signal(name="p_rxa")
        d += p_rxa.eq(phy.rxa)
        m.d.comb += [
            v["rxactive_follows"].eq((phy.rxa == p_rxa) & (dut.rx_active != phy.rxa)),
            v["rxactive_dir"].eq(~phy.prev_dir & dut.rx_active),
            v["utmi_contract"].eq(~utmi_rx_contract(m, "usb", dut.rx_active, dut.rx_valid)),
        ]

        # ---- clause: line state / VBUS flags equal the most recent RxCmd (ULPI 1.1 table 3.8.1.2)
        g0, g1 = phy.last_rxcmd, Signal(8, name="p_last_rxcmd")
        d += g1.eq(g0)

        def differs(sig, fn):
            return (sig != fn(g0)) & (sig != fn(g1))
        m.d.comb += [
            v["line_state"].eq(differs(dut.line_state, lambda g: g[0:2])),
            v["vbus_flags"].eq(differs(dut.vbus_valid, lambda g: g[2:4] == 3) |
                               differs(dut.session_end, lambda g: g[2:4] == 0)),
            v["rx_event_flags"].eq(differs(dut.rx_error, lambda g: g[4:6] == 3) |
                                   differs(dut.host_disconnect, lambda g: g[4:6] == 2) |
                                   differs(dut.id_digital, lambda g: g[6])),
            c["flags_updated"].eq(phy.rxcmd_seen & (g0 == g1) & (g0[0:4] == 0b1110) & (dut.line_state == 2) & dut.vbus_valid),
        ]
        # the translator never asks for a register read (so no read data can legally appear on the bus)
        m.d.comb += v["no_regread"].eq(phy.cmd_rr | phy.cmd_other)

        # ---- covers
        pk_dirstart, pk_cmdstart, in_pk = Signal(name="pk_dirstart"), Signal(name="pk_cmdstart"), Signal(name="in_pk")
        with m.If(~bus.dir.i):
            d += [pk_dirstart.eq(0), pk_cmdstart.eq(0)]
        with m.Elif(phy.rx_start_ind):
            d += pk_dirstart.eq(1)
        with m.Elif(phy.rxcmd & bus.data.i[4] & ~phy.rxa):
            d += pk_cmdstart.eq(1)
        had_byte = Signal(name="had_byte")               # current receive already delivered a byte
        with m.If(~dut.rx_active):
            d += had_byte.eq(0)
        with m.Elif(dut.rx_valid):
            d += had_byte.eq(1)
        npk = Signal(2, name="npk")
        fell = Signal(name="fell")
        d += fell.eq(dut.rx_active)
        with m.If(fell & ~dut.rx_active & had_byte & (npk != 3)):
            d += npk.eq(npk + 1)
        rw_busy = phy.in_state(phy.RW_DATA) | phy.in_state(phy.RW_STP)
        rw_hit = Signal(name="rw_hit")                   # a register write was aborted by DIR and the bus is still the PHY's
        with m.If(phy.rw_abort):
            d += rw_hit.eq(1)
        with m.Elif(~bus.dir.i):
            d += rw_hit.eq(0)
        sent_in_rx, mid_cmd = Signal(name="sent_in_rx"), Signal(name="mid_cmd")
        with m.If(~bus.dir.i):
            d += [sent_in_rx.eq(0), mid_cmd.eq(0)]
        with m.Else():
            with m.If(phy.rxdata):
                d += sent_in_rx.eq(1)
            with m.If(phy.rxcmd & sent_in_rx & bus.data.i[4]):
                d += mid_cmd.eq(1)
        # the PHY pre-empted a transmission it had accepted (DIR rose in its TX state) and the UTMI side still transmits
        tx_cut = Signal(name="tx_cut")
        with m.If(phy.in_state(phy.TX) & bus.dir.i):
            d += tx_cut.eq(1)
        with m.Elif(~dut.tx_valid):
            d += tx_cut.eq(0)
        m.d.comb += c["rx_preempts_tx"].eq(dut.rx_valid & tx_cut & dut.tx_valid & had_byte)
        m.d.comb += [
            c["rxcmd_midpacket"].eq(dut.rx_valid & mid_cmd),
            c["dir_start"].eq(dut.rx_valid & pk_dirstart & ~pk_cmdstart),
            c["rxcmd_start"].eq(dut.rx_valid & pk_cmdstart & ~pk_dirstart),
            c["dir_abort"].eq(fell & ~dut.rx_active & had_byte & ~phy.prev_dir),
            c["rxcmd_stop"].eq(fell & ~dut.rx_active & had_byte & phy.prev_dir & bus.dir.i),
            c["second_packet"].eq(dut.rx_valid & (npk == 1)),
            c["rx_during_regwrite"].eq(dut.rx_valid & rw_hit),
            c["rxcmd_during_regwrite"].eq(phy.rxcmd & (rw_hit | phy.rw_abort)),
        ]
        return m

    def stimulus(self, rng, t, consts):
        st = self.__dict__.setdefault("_st", {})
        out = dict(consts)
        out.update(self.phy.stimulus(rng, st))
        if self.with_tx:
            out["tx_valid"] = int(rng.random() < 0.3)
            out["tx_data"] = rng.getrandbits(8)
        return out


class RxDecoderHarness(Harness):
    """ULPIRxEventDecoder alone: the `register_operation_in_progress` input masks RxCmd sampling (the translator's
    protection against register-read data being taken for an RxCmd); with it low every DIR&DIR@-1&~NXT byte is sampled."""
    domains = ("usb",)

    def __init__(self):
        super().__init__()
        from luna.gateware.interface.ulpi import ULPIRxEventDecoder
        self.bus = ULPIBus()
        self.dut = ULPIRxEventDecoder(ulpi_bus=self.bus)
        self.inp("dir", signal=self.bus.dir.i)
        self.inp("nxt", signal=self.bus.nxt.i)
        self.inp("data_i", signal=self.bus.data.i)
        self.inp("reg_op", signal=self.dut.register_operation_in_progress)
        self.v_masked = self.viol("read_data_not_sampled")
        self.v_sampled = self.viol("rxcmd_sampled")
        self.v_strobes = self.viol("start_stop_strobes")
        self.c_masked = self.cover("masked")
        self.c_sampled = self.cover("sampled")
        self.c_start = self.cover("start_strobe")
        self.c_stop = self.cover("stop_strobe")

    def elaborate(self, platform):
        m = Module()
        m.submodules.dut = dut = self.dut
        d = m.d.usb
        bus = self.bus
        pd = Signal(name="pd")
        d += pd.eq(bus.dir.i)
        is_cmd = bus.dir.i & pd & ~bus.nxt.i
        ghost = Signal(8, name="ghost_rxcmd")
        p_is_cmd, p_masked, p_bit = Signal(name="p_is_cmd"), Signal(name="p_masked"), Signal(name="p_bit")
        p_ghost = Signal(8, name="p_ghost")
        with m.If(is_cmd & ~dut.register_operation_in_progress):
            d += ghost.eq(bus.data.i)
        d += [p_is_cmd.eq(is_cmd & ~dut.register_operation_in_progress), p_ghost.eq(ghost),
              p_masked.eq(is_cmd & dut.register_operation_in_progress), p_bit.eq(bus.data.i[4])]
        m.d.comb += [
            self.v_sampled.eq(dut.last_rx_command != ghost),
            self.v_masked.eq(p_masked & (dut.last_rx_command != p_ghost)),
            # strobes: exactly when an accepted RxCmd changed RxActive
            self.v_strobes.eq((dut.rx_start != (p_is_cmd & p_bit & ~p_ghost[4])) |
                              (dut.rx_stop != (p_is_cmd & ~p_bit & p_ghost[4]))),
            self.c_masked.eq(p_masked & (p_ghost != 0)),
            self.c_sampled.eq(p_is_cmd & (ghost == 0x5A)),
            self.c_start.eq(dut.rx_start),
            self.c_stop.eq(dut.rx_stop),
        ]
        return m


def queries(tier):
    quick = tier == "quick"
    f = RxHarness
    f_notx = lambda: RxHarness(with_tx=False)
    f_abort = lambda: RxHarness(with_tx=True, tx_abort=True)
    defaults = dict(xcvr_select=1, term_select=0, op_mode=0, suspend=0, id_pullup=0, dm_pulldown=1, dp_pulldown=1,
                    chrg_vbus=0, dischrg_vbus=0, use_external_vbus_indicator=0)
    qs = [
        Query("bmc_nowrites", f_notx, 12 if quick else 20, covers=[], layer=defaults, timeout=900,
              desc="layer: control inputs pinned to the PHY's register reset values (the translator never issues a "
                   "register write), transmit side idle: isolates the receive logic from the register window"),
        Query("bmc_free", f, 12 if quick else 20, timeout=900, covers=[n for n in f().c if n != "rx_preempts_tx"],
              desc="UTMITranslator: DIR/NXT/DATA free within the PHY contract, control inputs symbolic constants, "
                   "transmit side free"),
        Query("bmc_rxonly", f_notx, 15 if quick else 26, covers=[], timeout=900,
              desc="layer: UTMI transmit side idle (tx_valid=0), deeper receive histories"),
        Query("bmc_txabort", f_abort, 12 if quick else 18, timeout=900,
              asserts=["stream_valid", "stream_data", "order", "rxactive_follows", "rxactive_dir", "utmi_contract"],
              covers=["rx_preempts_tx"],
              desc="layer: the PHY may raise DIR at any time, also inside a transmit command it already accepted "
                   "(pre-empting the transmission); UTMI producer keeps tx_valid as long as it likes; receive clauses only"),
        Query("bmc_decoder", RxDecoderHarness, 12 if quick else 20,
              desc="ULPIRxEventDecoder alone: RxCmd sampling, masking during register operations, start/stop strobes"),
        Query("cosim", f, 0, kind="cosim", cosim_cycles=300 if quick else 2000),
        Query("cosim_decoder", RxDecoderHarness, 0, kind="cosim", cosim_cycles=300 if quick else 2000),
    ]
    return qs
