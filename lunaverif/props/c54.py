"""C54 -- PHYResetController produces the configured reset / STP pulses and always returns to idle.

DUT: luna.gateware.architecture.car.PHYResetController (real class) for a grid of (reset, stop) cycle counts,
with and without power-on reset.  clock_frequency=1 Hz and lengths given in whole seconds make the class's own
ceil(length / period) equal to the intended cycle count exactly.
Oracle: a ghost timeline taken from the statement, not from the FSM: a sequence starts in the cycle after a trigger
seen while idle (or in cycle 0 for power-on reset); with p = cycles since the start,
     phy_reset == (p < R)          phy_stop == (p < R + S)
and the controller is idle (both low, next trigger accepted) from p == R + S on.  A controller that never finishes
shows up as phy_stop high at p >= R + S.
"""
from amaranth import *
from ..harness import Harness
from ..engine import Query
import z3

# FINDINGS
#   fixed in /repo by "fix:" commit 6b07e4e (counter width): cycles_in_reset was sized for reset_length_cycles only but also
#   times the stop phase; with stop_length_cycles > 2**width the compare never matched, the FSM stayed in
#   DEFERRING_STARTUP and phy_stop stayed asserted forever (e.g. reset 1 / stop 2, reset 2 / stop 3, reset 4 / stop 6).
#   Caught by assertion `stop_pulse` (phy_stop high past reset+stop cycles) and, for the trigger that is then never
#   served, `reset_pulse`; configurations bmc_r1s2, bmc_r2s4, bmc_r3s5, bmc_r4s6 (and thorough: every pair with
#   stop > 2**bits(reset-1)).

PROP = "C54"
ENCODED = ["luna/gateware/architecture/car.py: PHYResetController.__init__ (cycle computation) and elaborate "
           "(cycles_in_reset counter, IDLE/RESETTING/DEFERRING_STARTUP FSM, phy_reset/phy_stop)"]
ASSUMPTIONS = [
    "trigger is free in every cycle; a trigger while a sequence is in progress is ignored (the sequence is neither "
    "restarted nor extended), a trigger in an idle cycle starts a sequence in the following cycle",
    "clock frequency enters only through ceil(length/period); configurations are given directly as cycle counts "
    "(clock_frequency=1, lengths in whole seconds), plus an audit of the cycle computation for real frequencies",
    "cycle computation audit: the class divides floats, which yields one extra cycle for some pairs (e.g. 100 MHz x 5 us "
    "-> 501); the audit accepts exact or exact+1 (a reset/STP time is a minimum) and rejects anything shorter",
]
BOUNDS = "(reset, stop) in {1..6}x{1..6} cycles (quick: 8 pairs incl. stop>reset, stop<reset, equal), power_on_reset on (all pairs) and off (quick: 2 pairs; thorough: the 18 pairs with odd R+S); " \
         "BMC from reset K = 2*(R+S)+6 with trigger free every cycle (two complete sequences)"
OUTSIDE = "zero-length reset or stop (ceil gives 0 cycles; the FSM has no zero-length path); lengths above 6 cycles except the " \
          "default 120/120 configuration in the thorough tier; the separate usb3 PHYResetController in usb3/physical/power.py"


class ResetHarness(Harness):
    domains = ("sync",)

    def __init__(self, R=2, S=2, por=True, real=None):
        super().__init__()
        from luna.gateware.architecture.car import PHYResetController
        if real:
            self.dut = PHYResetController(power_on_reset=por, **real)
            R, S = self.dut.reset_length_cycles, self.dut.stop_length_cycles
        else:
            self.dut = PHYResetController(clock_frequency=1, reset_length=R, stop_length=S, power_on_reset=por)
            assert (self.dut.reset_length_cycles, self.dut.stop_length_cycles) == (R, S)
        self.R, self.S, self.por = R, S, por
        self.trigger = self.inp("trigger", signal=self.dut.trigger)
        self.v = {k: self.viol(k) for k in ("reset_pulse", "stop_pulse", "stop_covers_reset")}
        self.c = {k: self.cover(k) for k in ("reset_ends", "sequence_done", "second_sequence_done",
                                             "trigger_ignored", "retrigger_first_idle_cycle")}
        T = R + S
        self.g_active = Signal(name="g_active", init=1 if por else 0)
        self.g_p = Signal(range(T + 1), name="g_p")
        self.g_done = Signal(2, name="g_done")
        self.g_ign = Signal(name="g_ign")
        self.obs("g_active", self.g_active)
        self.obs("g_p", self.g_p)
        self.obs("phy_reset", self.dut.phy_reset)
        self.obs("phy_stop", self.dut.phy_stop)

    def elaborate(self, platform):
        m = Module()
        m.submodules.dut = dut = self.dut
        R, S = self.R, self.S
        T = R + S
        act, p = self.g_active, self.g_p
        last = Signal(name="g_last")
        m.d.comb += last.eq(act & (p == T - 1))
        with m.If(act):
            with m.If(last):
                m.d.sync += [act.eq(0), p.eq(0)]
            with m.Else():
                m.d.sync += p.eq(p + 1)
        with m.Elif(self.trigger):
            m.d.sync += [act.eq(1), p.eq(0)]
        exp_reset = Signal(name="g_exp_reset")
        exp_stop = Signal(name="g_exp_stop")
        m.d.comb += [exp_reset.eq(act & (p < R)), exp_stop.eq(act)]
        m.d.comb += [
            self.v["reset_pulse"].eq(dut.phy_reset != exp_reset),
            self.v["stop_pulse"].eq(dut.phy_stop != exp_stop),
            self.v["stop_covers_reset"].eq(dut.phy_reset & ~dut.phy_stop),
        ]
        # covers
        with m.If(last):
            m.d.sync += self.g_done.eq(Mux(self.g_done == 3, 3, self.g_done + 1))
        with m.If(act & self.trigger):
            m.d.sync += self.g_ign.eq(1)
        prev_last = Signal(name="g_prev_last")
        m.d.sync += prev_last.eq(last)
        retrig = Signal(name="g_retrig")
        with m.If(prev_last & self.trigger):
            m.d.sync += retrig.eq(1)
        c = self.c
        m.d.comb += [
            c["reset_ends"].eq(act & (p == R) & ~dut.phy_reset & dut.phy_stop),
            c["sequence_done"].eq((self.g_done == 1) & ~act & ~dut.phy_stop & ~dut.phy_reset),
            c["second_sequence_done"].eq((self.g_done == 2) & ~act & ~dut.phy_stop),
            c["trigger_ignored"].eq(self.g_ign & (self.g_done == 1) & ~act & ~dut.phy_stop & ~self.trigger),
            c["retrigger_first_idle_cycle"].eq(retrig & (self.g_done == 2) & ~act & ~dut.phy_stop),
        ]
        return m

    def stimulus(self, rng, t, consts):
        return {"trigger": int(rng.random() < 0.1)}


AUDIT_FREQS = ("12e6", "48e6", "60e6", "100e6", "120e6", "1e6", "33.333e6", "16e6")
AUDIT_LENGTHS = (("2e-6", "2e-6"), ("1e-6", "5e-6"), ("10e-6", "1e-6"), ("2.5e-6", "0.5e-6"), ("100e-9", "3e-6"))


def _audit_cycles():
    """the class's float computation ceil(length / (1/f)) against the exact decimal value ceil(length * f):
    at least the exact value (pulse never shorter than configured) and at most one cycle more"""
    from fractions import Fraction
    from math import ceil
    from luna.gateware.architecture.car import PHYResetController
    bad = []
    for f in AUDIT_FREQS:
        for rl, sl in AUDIT_LENGTHS:
            d = PHYResetController(clock_frequency=float(f), reset_length=float(rl), stop_length=float(sl))
            exp = (ceil(Fraction(rl) * Fraction(f)), ceil(Fraction(sl) * Fraction(f)))
            got = (d.reset_length_cycles, d.stop_length_cycles)
            # never shorter than configured; floating-point rounding of length/period may add one cycle
            if not all(e <= g <= e + 1 for g, e in zip(got, exp)):
                bad.append((f, rl, sl, got, exp))
    return bad


class AuditHarness(Harness):
    """Python-level audit of the cycle computation, wrapped as a (constant) assertion so that it is part of the check."""
    domains = ("sync",)

    def __init__(self):
        super().__init__()
        self.bad = _audit_cycles()
        self.tick = self.inp("tick", 1)
        self.v_cycles = self.viol("cycle_computation")
        self.c_ran = self.cover("audit_ran")

    def elaborate(self, platform):
        m = Module()
        seen = Signal(name="g_seen")
        m.d.sync += seen.eq(seen | self.tick)
        m.d.comb += [self.v_cycles.eq(1 if self.bad else 0), self.c_ran.eq(seen)]
        return m


def queries(tier):
    qs = []
    quick = tier == "quick"
    if quick:
        pairs = [(1, 1), (1, 2), (2, 1), (2, 4), (3, 2), (3, 5), (4, 6), (6, 1)]
    else:
        pairs = [(r, s) for r in range(1, 7) for s in range(1, 7)]
    for R, S in pairs:
        for por in ((True, False) if ((not quick and (R + S) % 2 == 1) or (R, S) in ((1, 2), (3, 2))) else (True,)):
            tag = f"r{R}s{S}" + ("" if por else "_nopor")
            f = (lambda R=R, S=S, por=por: ResetHarness(R, S, por))
            K = 2 * (R + S) + 6
            qs.append(Query(f"bmc_{tag}", f, K, split=False, timeout=600,
                            desc=f"reset {R} cycles, stop {S} cycles, power_on_reset={por}: trigger free every cycle, "
                                 "phy_reset/phy_stop against the statement's timeline"))
    f0 = lambda: ResetHarness(2, 3, True)
    qs.append(Query("cosim_r2s3", f0, 0, kind="cosim", cosim_cycles=100 if quick else 1000))
    if not quick:
        f1 = lambda: ResetHarness(3, 2, False)
        qs.append(Query("cosim_r3s2_nopor", f1, 0, kind="cosim", cosim_cycles=1000))
    qs.append(Query("audit_cycle_computation", AuditHarness, 3, split=False, timeout=60,
                    desc=f"ceil(length*frequency) for {len(AUDIT_FREQS)}x{len(AUDIT_LENGTHS)} real frequency/length pairs equals "
                         "the exact decimal value or one more, never less (the class computes it in floating point)"))
    if not quick:
        fd = lambda: ResetHarness(por=True, real=dict(clock_frequency=60e6, reset_length=2e-6, stop_length=2e-6))
        qs.append(Query("bmc_default_60MHz", fd, 500, split=False, covers=["reset_ends", "sequence_done", "second_sequence_done"],
                        layer={"trigger": (lambda t: None if t < 4 or 238 <= t < 246 else 0)}, timeout=900,
                        desc="default configuration (60 MHz, 2 us / 2 us = 120/120 cycles), power-on sequence and one "
                             "re-trigger; restricted layer: trigger free only in cycles 0-3 and 238-245"))
    return qs
