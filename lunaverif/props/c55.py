"""C55 -- stretch_strobe_signal holds its output for exactly the requested number of cycles.

DUT: luna.gateware.utils.cdc.stretch_strobe_signal (real function), instantiated for a bank of stretch lengths and both
delay modes on one shared, free strobe input.
Oracle: a ghost *age counter* (cycles since the most recent earlier strobe, saturating) -- not a shift register:
  no delay : output == strobe_now or (age <= L-1)      i.e. high in cycles t .. t+L-1 for a strobe in cycle t
  delay    : output == (age <= L)                       i.e. high in cycles t+1 .. t+L
Both clauses of the statement are separate assertions per length/mode: `high_*` (output low inside a window) and
`low_*` (output high outside every window).
"""
from amaranth import *
from ..harness import Harness
from ..engine import Query
import z3

PROP = "C55"
ENCODED = ["luna/gateware/utils/cdc.py: stretch_strobe_signal (pass-through for 1 cycle, shift register of the last "
           "L-1 / L strobes, output/domain parameters)"]
ASSUMPTIONS = [
    "strobe is free in every cycle (back-to-back and overlapping strobes included); overlapping windows merge",
    "to_cycles == 1 with allow_delay: 'delay allowed' is a permission, so either the undelayed or the one-cycle-delayed "
    "window is accepted, but the same one throughout a run (the function passes the strobe through unchanged); for "
    "to_cycles >= 2 with allow_delay the window must start exactly one cycle after the strobe",
]
BOUNDS = "lengths 1..8 (quick) plus 12, 16, 33 (thorough), each with and without allow_delay, strobe free per cycle; " \
         "BMC K = 2*Lmax+2 and IND k=1 (shift register == age counter relation; complete for all strobe patterns); " \
         "one variant with explicit output= signal and domain=m.d.usb"
OUTSIDE = "to_cycles < 1 (documented precondition); lengths other than those listed (the IND argument is uniform in L but is " \
          "run per listed length)"


class StretchHarness(Harness):
    domains = ("sync",)

    def __init__(self, lengths=(1, 2, 3), domain="sync", explicit_output=False):
        super().__init__()
        self.domains = (domain,)
        self.lengths = tuple(lengths)
        self.explicit_output = explicit_output
        self.strobe = self.inp("strobe", 1)
        self.cfgs = [(L, d) for L in self.lengths for d in (False, True)]
        self.tag = lambda L, d: f"{L}{'d' if d else ''}"
        self.v_high, self.v_low, self.c_end, self.c_ext, self.c_dly = {}, {}, {}, {}, {}
        for L, d in self.cfgs:
            t = self.tag(L, d)
            self.v_high[(L, d)] = self.viol(f"high_{t}")
            self.v_low[(L, d)] = self.viol(f"low_{t}")
            self.c_end[(L, d)] = self.cover(f"window_end_{t}")
            self.c_ext[(L, d)] = self.cover(f"extended_{t}")
            if d and L >= 2:
                self.c_dly[(L, d)] = self.cover(f"delayed_start_{t}")
        self.sat = max(self.lengths) + 2
        self.g_age = Signal(range(self.sat + 1), name="g_age", init=self.sat)
        self.obs("g_age", self.g_age)
        self.outs = {}
        self.devs = {}
        self.g_out = {}
        for L, d in self.cfgs:
            self.g_out[(L, d)] = self.obs(f"out_{self.tag(L, d)}", Signal(name=f"g_out_{self.tag(L, d)}"))

    def elaborate(self, platform):
        from luna.gateware.utils.cdc import stretch_strobe_signal
        m = Module()
        dom = m.d[self.domain]
        age, sat = self.g_age, self.sat
        with m.If(self.strobe):
            dom += age.eq(1)
        with m.Elif(age != sat):
            dom += age.eq(age + 1)
        for L, d in self.cfgs:
            t = self.tag(L, d)
            # the real function, each instance in its own sub-module so that its internal register has a unique path
            sub = Module()
            kw = {}
            if self.explicit_output:
                kw["output"] = Signal(name=f"out_given_{t}")
            if self.domain != "sync":
                kw["domain"] = sub.d[self.domain]
            out = stretch_strobe_signal(sub, self.strobe, to_cycles=L, allow_delay=d, **kw)
            m.submodules[f"s{t}"] = sub
            self.outs[(L, d)] = out
            o = self.g_out[(L, d)]
            m.d.comb += o.eq(out)
            in_nd = Signal(name=f"g_in_nd_{t}")     # inside an undelayed window
            in_dl = Signal(name=f"g_in_dl_{t}")     # inside a delayed window
            m.d.comb += [in_nd.eq(self.strobe | (age <= L - 1)), in_dl.eq(age <= L)]
            if d and L == 1:
                # either model, consistently
                dev_nd = Signal(name=f"g_dev_nd_{t}")
                dev_dl = Signal(name=f"g_dev_dl_{t}")
                self.devs[(L, d)] = (dev_nd, dev_dl)
                now_nd, now_dl = (o != in_nd), (o != in_dl)
                dom += [dev_nd.eq(dev_nd | now_nd), dev_dl.eq(dev_dl | now_dl)]
                both = (dev_nd | now_nd) & (dev_dl | now_dl)
                m.d.comb += [self.v_high[(L, d)].eq(both & ~o), self.v_low[(L, d)].eq(both & o)]
                inside = in_nd
            else:
                inside = in_dl if d else in_nd
                m.d.comb += [self.v_high[(L, d)].eq(inside & ~o), self.v_low[(L, d)].eq(~inside & o)]
            # covers
            prev_o = Signal(name=f"g_prev_o_{t}")
            run = Signal(range(2 * L + 4), name=f"g_run_{t}")
            dom += prev_o.eq(o)
            with m.If(o):
                dom += run.eq(Mux(run == 2 * L + 3, run, run + 1))
            with m.Else():
                dom += run.eq(0)
            m.d.comb += [self.c_end[(L, d)].eq(prev_o & ~o & (run == L)),
                         self.c_ext[(L, d)].eq(prev_o & ~o & (run > L))]
            if (L, d) in self.c_dly:
                ps = Signal(name=f"g_prev_strobe_{t}")
                dom += ps.eq(self.strobe & ~o)
                m.d.comb += self.c_dly[(L, d)].eq(ps & o)
        return m

    def stimulus(self, rng, t, consts):
        return {"strobe": int(rng.random() < 0.15)}


def _inv(ts, frame, h):
    """IND strengthening: each instance's shift register agrees with the age counter: register == 0 <=> age > width,
    otherwise age == 1 + index of the lowest set bit."""
    conds, names = [], []
    age = frame.sig(h.g_age)
    A = age.size()
    conds.append(z3.And(z3.UGE(age, 1), z3.ULE(age, h.sat)))
    for L, d in h.cfgs:
        if L == 1:
            continue            # pass-through: no DUT state
        t = h.tag(L, d)
        sig = ts.signal_by_name(f"s{t}.delayed_strobe")
        names.append(f"s{t}.delayed_strobe")
        if sig is None:
            return None, names
        reg = frame.sig(sig)
        W = reg.size()
        assert W == (L if d else L - 1), (W, L, d)
        expect_age = z3.BitVecVal(h.sat, A)
        # lowest set bit -> age
        for i in reversed(range(W)):
            expect_age = z3.If(z3.Extract(i, i, reg) == 1, z3.BitVecVal(i + 1, A), expect_age)
        conds.append(z3.If(reg == 0, z3.UGT(age, W), age == expect_age))
    for (L, d), (dev_nd, dev_dl) in h.devs.items():
        conds.append(frame.sig(dev_nd) == 0)     # the 1-cycle instance follows the undelayed model
    return conds, ["age in 1..sat", "shift register lowest set bit == age-1 (or empty and age > width)"]


def queries(tier):
    qs = []
    quick = tier == "quick"
    banks = [("L1to8", tuple(range(1, 9)), "sync", False), ("usb_out", (1, 3), "usb", True)]
    if not quick:
        banks.append(("L12_16_33", (12, 16, 33), "sync", False))
    for tag, lengths, dom, eo in banks:
        f = (lambda lengths=lengths, dom=dom, eo=eo: StretchHarness(lengths, dom, eo))
        K = 2 * max(lengths) + (2 if quick else 6)
        qs.append(Query(f"bmc_{tag}", f, K, covers=[], split=False, timeout=600,
                        desc=f"lengths {lengths}, both delay modes, domain {dom}{', explicit output signal' if eo else ''}: "
                             "strobe free every cycle, output compared with the age-counter windows"))
        qs.append(Query(f"cover_{tag}", f, 2 * max(lengths) + 6, asserts=[], timeout=600,
                        desc="reachability twins: exact-length window, merged (extended) window, delayed start"))
        qs.append(Query(f"ind_{tag}", f, 1, kind="ind", invariants=_inv, timeout=600,
                        desc="1-step induction from an arbitrary shift-register content tied to the age counter (all strobe patterns)"))
        qs.append(Query(f"cosim_{tag}", f, 0, kind="cosim", cosim_cycles=100 if quick else 1000))
    return qs
