"""C16 -- isochronous OUT endpoints deliver only whole, CRC-valid packets.

DUT: luna.gateware.usb.usb2.endpoints.isochronous_stream_out.USBIsochronousStreamOutEndpoint (real class with its real
boundary detector and TransactionalizedFIFO).
Environment: interface-level host (lib/outhost.py, no handshakes are expected) + free consumer `ready`.

Oracle.  There is no handshake that tells which packets the endpoint kept, so the monitor follows ONE packet (const
index j over all data packets on the bus) through the endpoint (Wolper-style data-independence reduction): the two
low bits of every payload byte on the receive stream carry a tag -- byte i of the tracked packet is tagged i+1, every
other byte 0 -- while the six upper bits stay fully symbolic.  The endpoint never inspects payload bits (they only
pass through the FIFO memory), so the tag identifies the tracked packet's bytes at the output.  Independently of the
tag, the framing of the whole output stream is checked byte by byte with fully symbolic data.
"""
from amaranth import *
from ..harness import Harness
from ..engine import Query
from ..lib.outhost import OutHost, PID_OUT

PROP = "C16"
ENCODED = [
    "luna/gateware/usb/usb2/endpoints/isochronous_stream_out.py: USBIsochronousStreamOutEndpoint.elaborate "
    "(sufficient_space / okay_to_receive, FIFO write, commit on complete_out, discard on invalid_out)",
    "luna/gateware/usb/stream.py: USBOutStreamBoundaryDetector; luna/gateware/memory.py: TransactionalizedFIFO "
    "(as instantiated by the endpoint)",
]
ASSUMPTIONS = OutHost.CONTRACT + [
    "data packets carry 0..max_packet_size payload bytes",
    "payload bits [0:2] are a monitor tag (tracked packet byte index + 1, else 0), bits [2:8] free: sound because "
    "the endpoint is data-independent (payload only passes through the FIFO)",
    "consumer: stream.ready free every cycle",
    "a CRC-valid packet addressed to the endpoint must be kept when at least max_packet_size bytes were free when "
    "its token arrived (the class's documented criterion); otherwise it may be kept or dropped, as a whole",
]
BOUNDS = "BMC from reset; (mps, buffer) = (2,3) quick; thorough adds (2,4) [class default 2*mps] and (3,6); all host / " \
         "consumer schedules up to K cycles (quick 20, thorough 22: 3 packets); tracked packet index j symbolic"
OUTSIDE = "histories longer than K cycles; packets longer than max_packet_size; byte-level framing/CRC (C02)"

# FINDINGS (genuine defect found by this check on the original tree, fixed in /repo):
#   "fix: decide once per packet whether an isochronous OUT packet fits"
#       sufficient_space was re-evaluated for every byte while the packet's own uncommitted writes shrank the space:
#       a packet arriving with exactly buffer-mps bytes occupied was truncated yet committed.
#       Caught by: truncated, lost (and, depending on the schedule, order / framing / interleaved); configurations
#       (2,4) and (2,3), K <= 16.  The mutation `packet_fits = sufficient_space` re-introduces it.

EP = 1


class IsoOutHarness(Harness):
    domains = ("usb",)

    def __init__(self, mps=2, buf=4, pkt_gap=3):
        super().__init__()
        from luna.gateware.usb.usb2.endpoints.isochronous_stream_out import USBIsochronousStreamOutEndpoint
        assert mps <= 3
        self.mps, self.buf = mps, buf
        self.dut = USBIsochronousStreamOutEndpoint(endpoint_number=EP, max_packet_size=mps, buffer_size=buf)
        self.host = OutHost(self, self.dut.interface, mps, pkt_gap, custom_payload=True)
        self.ready = self.inp("ready", signal=self.dut.stream.ready)
        self.j = self.inp("j", 3, const=True)
        V = ("framing", "foreign", "order", "data", "first_mark", "last_mark", "interleaved", "truncated", "lost",
             "handshake")
        self.v = {n: self.viol(n) for n in V}
        C = ("whole_full", "whole_short", "dropped_whole", "invalid_nothing", "other_ep_nothing", "kept_partly_full",
             "second_frame", "kept_after_drop")
        self.c = {n: self.cover(n) for n in C}

    def stimulus(self, rng, t, consts):
        d = self.host.stimulus(rng, t, consts, EP, pids=(PID_OUT, PID_OUT, PID_OUT, 0x9, 0))
        d["ready"] = int(rng.random() < 0.3)
        d["j"] = consts["j"]
        return d

    def elaborate(self, platform):
        m = Module()
        m.submodules.dut = dut = self.dut
        host, mps, buf = self.host, self.mps, self.buf
        host.elaborate(m)
        st = dut.stream
        hs = dut.interface.handshakes_out
        v, c = self.v, self.c
        W = 5

        for_us = Signal(name="g_for_us")
        m.d.comb += for_us.eq((host.pid == PID_OUT) & (host.ep == EP))

        # ---- tracked packet and payload tagging
        pkt_idx = Signal(4, name="g_pkt_idx")            # data packets started so far
        tracked = Signal(name="g_tracked")               # the packet now on the bus is the tracked one
        tracked_r = Signal(name="g_tracked_r")
        with m.If(host.ev_start):
            m.d.usb += [pkt_idx.eq(pkt_idx + 1), tracked_r.eq(pkt_idx == self.j)]
        m.d.comb += tracked.eq(Mux(host.ev_start, pkt_idx == self.j, tracked_r & (host.ph != 0)))
        tag_in = Signal(2, name="g_tag_in")
        m.d.comb += [
            tag_in.eq(Mux(tracked, (host.plen_cur + 1)[:2], 0)),
            host.payload.eq(Cat(tag_in, host.pkt_data[2:8])),
        ]
        T_len = Signal(range(mps + 2), name="g_T_len")
        T_bytes = [Signal(8, name=f"g_T_b{i}") for i in range(mps)]
        T_done = Signal(name="g_T_done")                 # the tracked packet has ended (complete or invalid)
        T_elig = Signal(name="g_T_elig")                 # ... CRC-valid and addressed to the endpoint
        T_must = Signal(name="g_T_must")                 # ... and max_packet_size bytes were free at its token
        T_age = Signal(2, name="g_T_age")                # cycles since it ended (saturating)
        with m.If(host.ev_byte & tracked):
            for i in range(mps):
                with m.If(host.plen_cur == i):
                    m.d.usb += T_bytes[i].eq(host.payload)
        # ghost upper bound of the buffer occupancy: every CRC-valid byte addressed to us minus delivered bytes
        occ_ub = Signal(W, name="g_occ_ub")
        occ_tok = Signal(W, name="g_occ_tok")
        xfer = Signal(name="g_xfer_ev")
        m.d.comb += xfer.eq(st.valid & st.ready)
        good = host.ev_complete & for_us
        m.d.usb += occ_ub.eq(occ_ub + Mux(good, host.plen_r, 0) - (xfer & (occ_ub != 0)))
        with m.If(host.ev_token):
            m.d.usb += occ_tok.eq(occ_ub)
        with m.If((host.ev_complete | host.ev_invalid) & tracked):
            m.d.usb += [T_done.eq(1), T_len.eq(host.plen_r), T_elig.eq(good), T_age.eq(0),
                        T_must.eq(good & (occ_tok + mps <= buf))]
        with m.Elif(T_done & (T_age != 3)):
            m.d.usb += T_age.eq(T_age + 1)

        # ---- output side
        tag = Signal(2, name="g_tag_out")
        m.d.comb += tag.eq(st.p.data[0:2])
        exp_i = Signal(range(mps + 2), name="g_exp_i")   # next byte index of the tracked packet expected at the output
        prev_last = Signal(init=1, name="g_prev_last")   # the previously delivered byte was marked last (or none yet)
        frames = Signal(2, name="g_frames")              # delivered frames (saturating)
        others_before = Signal(name="g_others_before")   # an untagged frame was delivered before the tracked one
        T_byte_sel = Signal(8, name="g_T_byte_sel")
        for i in range(mps):
            with m.If(tag == i + 1):
                m.d.comb += T_byte_sel.eq(T_bytes[i])
        partial = Signal(name="g_partial")
        m.d.comb += partial.eq((exp_i != 0) & (exp_i < T_len))
        with m.If(xfer):
            m.d.usb += prev_last.eq(st.p.last)
            with m.If(st.p.last & (frames != 3)):
                m.d.usb += frames.eq(frames + 1)
            with m.If(tag != 0):
                m.d.usb += exp_i.eq(exp_i + 1)
            with m.Elif(exp_i == 0):
                m.d.usb += others_before.eq(1)
        m.d.comb += [
            # the stream is a sequence of frames: first exactly on the byte after a last (or the very first byte)
            v["framing"].eq(xfer & (st.p.first != prev_last)),
            # bytes of a corrupted / not-addressed / not yet CRC-checked packet never appear
            v["foreign"].eq(xfer & (tag != 0) & ~(T_done & T_elig)),
            # the tracked packet's bytes appear in order, each once, starting with byte 0
            v["order"].eq(xfer & (tag != 0) & ((tag - 1) != exp_i)),
            v["data"].eq(xfer & (tag != 0) & T_done & (st.p.data != T_byte_sel)),
            v["first_mark"].eq(xfer & (tag != 0) & (st.p.first != (tag == 1))),
            v["last_mark"].eq(xfer & (tag != 0) & T_done & (st.p.last != (tag == T_len))),
            # whole or nothing: once its first byte is out, the rest follows immediately
            v["interleaved"].eq(xfer & (tag == 0) & partial),
            v["truncated"].eq(partial & ~st.valid),
            # a packet that had to be kept is offered on the stream (commit latency 2 cycles)
            v["lost"].eq(T_must & T_done & (T_len != 0) & (exp_i < T_len) & ~st.valid & (T_age >= 3)),
            # isochronous endpoints never handshake
            v["handshake"].eq(hs.ack | hs.nak | hs.stall),
        ]
        whole = xfer & (tag != 0) & (tag == T_len) & ((tag - 1) == exp_i) & T_done & T_elig
        quiet = T_done & (T_age == 3) & ~st.valid & (exp_i == 0) & (T_len != 0)
        m.d.comb += [
            c["whole_full"].eq(whole & (T_len == mps)),
            c["whole_short"].eq(whole & (T_len != mps)),
            c["dropped_whole"].eq(quiet & T_elig & ~T_must),
            c["invalid_nothing"].eq(quiet & ~T_elig & for_us),
            c["other_ep_nothing"].eq(quiet & ~T_elig & ~for_us & (host.pid == PID_OUT)),
            c["kept_partly_full"].eq(whole & T_must & (occ_tok != 0)),
            c["second_frame"].eq(whole & others_before),
            c["kept_after_drop"].eq(whole & ~T_must),
        ]
        for n, s in (("st_valid", st.valid), ("st_data", st.p.data), ("st_first", st.p.first), ("st_last", st.p.last),
                     ("ev_token", host.ev_token), ("pid", host.pid), ("ep", host.ep), ("rx_valid", host.in_pkt),
                     ("rx_next", host.ev_byte), ("rx_payload", host.payload), ("complete", host.ev_complete),
                     ("invalid", host.ev_invalid), ("tracked", tracked), ("T_len", T_len), ("T_done", T_done),
                     ("T_elig", T_elig), ("T_must", T_must), ("exp_i", exp_i), ("occ_ub", occ_ub),
                     ("occ_tok", occ_tok), ("prev_last", prev_last)):
            if not isinstance(s, Signal):
                w = Signal(len(s), name="o_" + n)
                m.d.comb += w.eq(s)
                s = w
            self.obs(n, s)
        return m


# assertion families (one solver process each in the quick tier)
FAM_WHOLE = ["framing", "foreign", "order", "interleaved", "truncated", "lost", "handshake"]
FAM_CONTENT = ["data", "first_mark", "last_mark"]


def queries(tier):
    qs = []
    quick = tier == "quick"
    # quick: the small-buffer configuration, where a whole-packet drop (cover dropped_whole) is reachable within K
    cfgs = [("m2b3", 2, 3)] if quick else [("m2b3", 2, 3), ("m2b4", 2, 4), ("m3b6", 3, 6)]
    for tag, mps, buf in cfgs:
        f = (lambda mps=mps, buf=buf: IsoOutHarness(mps, buf))
        K = 20 if quick else 22
        # a whole-packet drop needs a full buffer: within K only reachable with the small buffer (m2b3)
        covers = None if buf < 2 * mps else [c for c in IsoOutHarness(mps, buf)._covers if c != "dropped_whole"]
        d = f"mps={mps} buffer={buf}: host schedule, data (upper 6 bits), consumer ready all free"
        if quick:
            qs.append(Query(f"bmc_whole_{tag}", f, K, timeout=600, asserts=FAM_WHOLE, covers=covers, split=False,
                            desc=d + " -- whole-or-nothing / framing family + all covers"))
            qs.append(Query(f"bmc_content_{tag}", f, K, timeout=600, asserts=FAM_CONTENT, covers=[], split=False,
                            desc=d + " -- payload and first/last marks of the tracked packet"))
        else:
            qs.append(Query(f"bmc_{tag}", f, K, timeout=900, covers=covers, desc=d))
        qs.append(Query(f"cosim_{tag}", f, 0, kind="cosim", cosim_cycles=100 if quick else 600))
    return qs
