"""C07 -- control transfers follow the setup/data/status stage protocol.

DUT: the real USBDevice(bus=UTMIInterface()) (full speed, 12 MHz UTMI timing) with a USBControlEndpoint
(max_packet_size=8) carrying the real StandardRequestHandler -- i.e. the real composition: token detector, receiver,
CRC, timers, endpoint multiplexer, setup decoder, request multiplexer, packet generators, transmit multiplexer,
reset sequencer.

Environment: slotted symbolic host (lib/host.py): every slot is one symbolic transaction (SETUP with 8 symbolic bytes,
IN with/without host ACK, OUT + DATA0/1, PING, SOF, nothing), symbolic endpoint and address.

Oracles
  * self-composition ("fresh transfer"): device A sees the whole script; device B sees nothing before slot j (a
    symbolic index of a valid SETUP to endpoint 0) and none of the slots addressed to other endpoints.  From slot j
    on, A and B must transmit exactly the same bytes in the same cycles: whatever happened before the SETUP
    (abandoned data stage, missing status stage, repeated SETUPs, foreign traffic) must not matter, and traffic to
    other endpoints interleaved later must not matter either.
  * direction rules, judged per slot from what device A put on the wire: an IN token is never answered with an ACK
    handshake, an OUT data packet never with a data packet; a valid SETUP is answered with exactly ACK; non-empty
    IN data only in the data stage of a device-to-host request with wLength > 0; ACK to a status OUT only when the
    transfer has a data stage; silence on tokens for other endpoints / other addresses.
"""
from amaranth import *
from ..harness import Harness
from ..engine import Query
from ..lib.host import SlottedHost, TxSpy, slot_cubes, KIND_NONE, KIND_SETUP, KIND_IN, KIND_OUT, KIND_SOF, KIND_HSK, KIND_PING

PROP = "C07"
ENCODED = ["luna/gateware/usb/usb2/control.py: USBControlEndpoint (stage FSM, _handle_setup_reset)",
           "luna/gateware/usb/request/standard.py: StandardRequestHandler FSM", "luna/gateware/usb/request/control.py",
           "luna/gateware/usb/usb2/request.py: USBSetupDecoder, USBRequestHandlerMultiplexer, StallOnlyRequestHandler",
           "luna/gateware/usb/usb2/device.py: USBDevice.elaborate (whole composition), endpoint.py: USBEndpointMultiplexer",
           "luna/gateware/usb/usb2/packet.py: token detector, receiver, generators, CRC, timers",
           "luna/gateware/usb/usb2/descriptor.py: GetDescriptorHandlerBlock"]
ASSUMPTIONS = [
    "full speed over UTMI (USBDevice with a plain UTMI bus: 12 MHz timing constants), tx_ready = 1, VBUS present, line idle (J), connect = 1",
    "slotted host: one transaction per 32-cycle slot with fixed packet timing; the host ACKs a device data packet at a fixed "
    "offset and only if the device sent one; OUT data packets are zero-length (DATA0 or DATA1); no lone handshakes",
    "self-composition only: the prefix before the fresh SETUP contains no SET_ADDRESS / SET_CONFIGURATION request "
    "(these legitimately change device state)",
    "descriptor collection: one device descriptor (18 bytes) + one configuration/interface (18 bytes); EP0 max packet size 8",
    "the host never sends a SETUP token to a non-control endpoint and no SET_ADDRESS request (device stays at address 0; C08)",
    "the per-slot (kind, CRC-corruption / host-ACK flag) choices are enumerated as separate solver queries (cubes)",
]
BOUNDS = "BMC from reset over N = 3 (quick) / 4 (thorough) symbolic transactions (K = 32 N + 2 cycles): all sequences of " \
         "SETUP / IN / OUT / SOF / idle slots, all 64 SETUP bits, endpoints 0..3, all 7-bit addresses"
OUTSIDE = "sequences longer than N transactions; byte-gap / tx_ready stall timing (unit level: C03, C04, C06); high speed; PING"


def make_device():
    from luna.gateware.interface.utmi import UTMIInterface
    from luna.gateware.usb.usb2.device import USBDevice
    from luna.gateware.usb.usb2.control import USBControlEndpoint
    from usb_protocol.emitters import DeviceDescriptorCollection
    utmi = UTMIInterface()
    dev = USBDevice(bus=utmi, handle_clocking=False)
    d = DeviceDescriptorCollection()
    with d.DeviceDescriptor() as dd:
        dd.idVendor = 0x16d0
        dd.idProduct = 0x0f3b
        dd.iManufacturer = "L"
        dd.bNumConfigurations = 1
    with d.ConfigurationDescriptor() as c:
        with c.InterfaceDescriptor() as i:
            i.bInterfaceNumber = 0
    ep = USBControlEndpoint(utmi=utmi, max_packet_size=8)
    ep.add_standard_request_handlers(d)
    dev.add_endpoint(ep)
    return utmi, dev


def tie_device(m, utmi, dev, host):
    m.d.comb += [
        dev.connect.eq(1), dev.full_speed_only.eq(1),
        utmi.line_state.eq(0b01), utmi.session_end.eq(0), utmi.vbus_valid.eq(1), utmi.tx_ready.eq(1),
        utmi.rx_active.eq(host.rx_active), utmi.rx_valid.eq(host.rx_valid), utmi.rx_data.eq(host.rx_data),
    ]


class CtrlHarness(Harness):
    def __init__(self, nslots, compose=True):
        super().__init__()
        self.nslots, self.compose = nslots, compose
        self.utmiA, self.devA = make_device()
        self.hostA = SlottedHost(self, nslots, prefix="s")
        if compose:
            self.utmiB, self.devB = make_device()
            self.hostB = SlottedHost(self, nslots, prefix="sb", share=self.hostA)
            self.j = self.inp("j", range(nslots).stop.bit_length(), const=True)
        names = ["in_gets_ack", "out_gets_data", "setup_ack", "corrupt_setup_silent", "data_stage_only",
                 "zlp_stage", "status_out_ack", "other_ep_silent", "single_response", "fresh_first_response"]
        if compose:
            names.append("fresh")
        self.v = {n: self.viol(n) for n in names}
        cov = ["data_in", "status_zlp", "status_ack", "stall", "setup_ack", "fresh_after_abandoned_data",
               "fresh_after_abandoned_status"]
        if compose:
            cov += ["fresh_after_abandoned", "fresh_data"]
        self.c = {n: self.cover(n) for n in cov}
        self.a = {n: self.assume(n) for n in ["legal", "no_hsk", "no_set_address", "no_setup_other_ep", "fresh_setup",
                                              "prefix_no_state_change"]}

    def elaborate(self, platform):
        m = Module()
        hA, uA, dA = self.hostA, self.utmiA, self.devA
        m.submodules.devA = dA
        hA.build(m, "usb")
        spyA = TxSpy(m, "usb", hA, uA.tx_valid, uA.tx_data, nbytes=11, name="txA")
        hA.add_in_ack(m, "usb", spyA.is_data & ~uA.tx_valid)
        tie_device(m, uA, dA, hA)
        n = self.nslots
        nohsk, noaddr, nosetup_ep = Const(1), Const(1), Const(1)
        for i in range(n):
            nohsk = nohsk & (hA.kind[i] != KIND_HSK)
            noaddr = noaddr & ~((hA.kind[i] == KIND_SETUP) & (hA.data[i][5:7] == 0) & (hA.data[i][8:16] == 5))
            nosetup_ep = nosetup_ep & ~((hA.kind[i] == KIND_SETUP) & (hA.ep[i] != 0))
        m.d.comb += [self.a["legal"].eq(hA.legal), self.a["no_hsk"].eq(nohsk), self.a["no_set_address"].eq(noaddr),
                     self.a["no_setup_other_ep"].eq(nosetup_ep)]

        # ---- ghost: control-transfer stage derived from the script alone
        sd = hA.cur_data
        to_us = (hA.cur_addr == 0)
        ep0 = (hA.cur_ep == 0)
        valid_setup = (hA.cur_kind == KIND_SETUP) & to_us & ep0 & ~hA.cur_flag
        have_setup = Signal()          # a valid SETUP was seen
        g_is_in = Signal()             # its direction bit
        g_len_nz = Signal()            # wLength != 0
        g_out_seen = Signal()          # an OUT token to ep0 since that SETUP
        g_in_seen = Signal()           # an IN token to ep0 since that SETUP
        with m.If(hA.slot_end & ~hA.done):
            with m.If(valid_setup):
                m.d.usb += [have_setup.eq(1), g_is_in.eq(sd[7]), g_len_nz.eq(sd[48:64] != 0),
                            g_out_seen.eq(0), g_in_seen.eq(0)]
            with m.Elif((hA.cur_kind == KIND_SETUP) & to_us & ep0):
                pass
            with m.Elif(((hA.cur_kind == KIND_OUT) | (hA.cur_kind == KIND_PING)) & to_us & ep0):
                m.d.usb += g_out_seen.eq(1)          # an OUT or PING token on endpoint 0 ends an IN data stage [USB 2.0 8.5.3]
            with m.Elif((hA.cur_kind == KIND_IN) & to_us & ep0):
                m.d.usb += g_in_seen.eq(1)
        # ---- per-slot judgement of what device A transmitted (evaluated in the last cycle of the slot)
        judge = hA.slot_end & ~hA.done
        sent = spyA.count != 0
        sent_ack = sent & (spyA.pid == 0xD2)
        sent_stall = sent & (spyA.pid == 0x1E)
        sent_data = spyA.is_data
        payload_len = Signal(5)
        m.d.comb += payload_len.eq(Mux(spyA.count >= 3, spyA.count - 3, 0))
        in_slot = (hA.cur_kind == KIND_IN) & to_us & ep0
        out_slot = (hA.cur_kind == KIND_OUT) & to_us & ep0
        data_stage_in = have_setup & g_is_in & g_len_nz & ~g_out_seen
        m.d.comb += [
            self.v["in_gets_ack"].eq(judge & in_slot & sent_ack),
            self.v["out_gets_data"].eq(judge & out_slot & sent_data),
            self.v["setup_ack"].eq(judge & valid_setup & ~(sent_ack & (spyA.count == 1))),
            self.v["corrupt_setup_silent"].eq(judge & (hA.cur_kind == KIND_SETUP) & hA.cur_flag & sent),
            self.v["data_stage_only"].eq(judge & in_slot & sent_data & (payload_len != 0) & ~data_stage_in),
            # a zero-length IN answer is either the status stage of a no-data / host-to-device transfer or the
            # terminating packet of an IN data stage
            self.v["zlp_stage"].eq(judge & in_slot & sent_data & (payload_len == 0) &
                                   ~(have_setup & (~g_len_nz | ~g_is_in | data_stage_in))),
            # ACK of a (status) OUT transaction only when the transfer has a data stage
            self.v["status_out_ack"].eq(judge & out_slot & sent_ack & ~(have_setup & g_len_nz)),
            self.v["other_ep_silent"].eq(judge & (~to_us | ~ep0) & sent),
            self.v["single_response"].eq(judge & (spyA.packets > 1)),
        ]
        # ---- "every new SETUP starts a fresh transfer": the first IN transaction directly after a valid SETUP gets the
        # answer a freshly reset device gives to that request, whatever came before.  Expected answers for well-formed
        # requests, from USB 2.0 chapter 9 and the descriptor set given to the device (not from the handler's code):
        prev_valid_setup = Signal()
        g = Signal(64)                  # the 8 SETUP bytes of the previous slot
        prior_setups = Signal(2)        # valid SETUPs seen so far, including the previous slot (saturating)
        prior_in_data = Signal()        # some earlier transfer got IN data (its data stage was entered)
        # (prev_valid_setup: a valid SETUP was received and no token for endpoint 0 of this device has been seen since --
        #  traffic for other endpoints / addresses, SOFs and idle slots in between must not matter)
        with m.If(judge):
            with m.If(valid_setup):
                m.d.usb += [prev_valid_setup.eq(1), g.eq(sd)]
            with m.Elif((hA.cur_kind != KIND_NONE) & (hA.cur_kind != KIND_SOF) & to_us & ep0):
                m.d.usb += prev_valid_setup.eq(0)
            with m.If(valid_setup & (prior_setups != 3)):
                m.d.usb += prior_setups.eq(prior_setups + 1)
            with m.If(in_slot & sent_data & (payload_len != 0)):
                m.d.usb += prior_in_data.eq(1)
        rt, req, wv, wl = g[0:8], g[8:16], g[16:32], g[48:64]
        g_std, g_in = (g[5:7] == 0), g[7]
        exp_kind = Signal(3)            # 0 unconstrained, 1 data (8 bytes), 2 data (2 bytes 00 00), 3 ZLP, 4 STALL
        exp8 = Signal(64)
        DEV8 = int.from_bytes(bytes.fromhex("1201000200000040"), "little")
        CFG8 = int.from_bytes(bytes.fromhex("0902120001010080"), "little")
        known_req = (req == 0) | (req == 1) | (req == 5) | (req == 6) | (req == 8) | (req == 9)
        with m.If(~g_std):
            m.d.comb += exp_kind.eq(4)                                   # nobody claims it: stalled
        with m.Elif(~known_req):
            m.d.comb += exp_kind.eq(4)                                   # unsupported standard request
        with m.Elif((req == 0) & (rt == 0x80) & (wl == 2)):
            m.d.comb += exp_kind.eq(2)                                   # GET_STATUS(device): 00 00
        with m.Elif((req == 6) & (rt == 0x80) & (wv == 0x0100) & (wl >= 8)):
            m.d.comb += [exp_kind.eq(1), exp8.eq(DEV8)]                  # GET_DESCRIPTOR(device), first packet
        with m.Elif((req == 6) & (rt == 0x80) & (wv == 0x0200) & (wl >= 8)):
            m.d.comb += [exp_kind.eq(1), exp8.eq(CFG8)]                  # GET_DESCRIPTOR(configuration), first packet
        with m.Elif((req == 6) & (rt == 0x80) & (wv[8:16] > 3) & (wl != 0)):
            m.d.comb += exp_kind.eq(4)                                   # descriptor type that does not exist
        with m.Elif((req == 9) & (rt == 0x00) & (wl == 0)):
            m.d.comb += exp_kind.eq(3)                                   # SET_CONFIGURATION: status ZLP
        with m.Elif((req == 1) & (rt == 0x02) & (wv == 0) & (wl == 0)):
            m.d.comb += exp_kind.eq(3)                                   # CLEAR_FEATURE(ENDPOINT_HALT): status ZLP
        got8 = Cat(*spyA.bytes[0:8])
        is_data1 = (spyA.pid == 0x4B)
        fresh_bad = Signal()
        with m.Switch(exp_kind):
            with m.Case(1):
                m.d.comb += fresh_bad.eq(~(is_data1 & (spyA.count == 11) & (got8 == exp8)))
            with m.Case(2):
                m.d.comb += fresh_bad.eq(~(is_data1 & (spyA.count == 5) & (got8[0:16] == 0)))
            with m.Case(3):
                m.d.comb += fresh_bad.eq(~(is_data1 & (spyA.count == 3)))
            with m.Case(4):
                m.d.comb += fresh_bad.eq(~sent_stall)
        m.d.comb += self.v["fresh_first_response"].eq(judge & in_slot & prev_valid_setup & fresh_bad)
        m.d.comb += [
            self.c["fresh_after_abandoned_data"].eq(judge & in_slot & prev_valid_setup & (exp_kind == 3) &
                                                    (prior_setups >= 2) & prior_in_data & ~fresh_bad),
            self.c["fresh_after_abandoned_status"].eq(judge & in_slot & prev_valid_setup & (exp_kind == 1) &
                                                      (prior_setups >= 2) & ~fresh_bad),
            self.c["data_in"].eq(judge & in_slot & sent_data & (payload_len == 8)),
            self.c["status_zlp"].eq(judge & in_slot & sent_data & (payload_len == 0) & ~g_len_nz),
            self.c["status_ack"].eq(judge & out_slot & sent_ack & g_in_seen),
            self.c["stall"].eq(judge & sent_stall),
            self.c["setup_ack"].eq(judge & valid_setup & sent_ack),
        ]
        if not self.compose:
            m.d.comb += [self.a["fresh_setup"].eq(1), self.a["prefix_no_state_change"].eq(1)]
            return m

        # ---- self-composition with a fresh device
        hB, uB, dB = self.hostB, self.utmiB, self.devB
        m.submodules.devB = dB
        mute = (hB.slot < self.j) | (hB.cur_ep != 0)
        hB.build(m, "usb", mute=mute)
        spyB = TxSpy(m, "usb", hB, uB.tx_valid, uB.tx_data, nbytes=1, name="txB")
        with m.If(~mute):
            hB.add_in_ack(m, "usb", spyB.is_data & ~uB.tx_valid)
        tie_device(m, uB, dB, hB)
        fresh_ok = Const(0)
        prefix_ok = Const(1)
        for i in range(n):
            d = hA.data[i]
            is_std_state_change = (hA.kind[i] == KIND_SETUP) & (d[5:7] == 0) & ((d[8:16] == 5) | (d[8:16] == 9))
            fresh_ok = fresh_ok | ((self.j == i) & (hA.kind[i] == KIND_SETUP) & (hA.addr[i] == 0) &
                                   (hA.ep[i] == 0) & ~hA.flag[i])
            prefix_ok = prefix_ok & ~((i < self.j) & is_std_state_change)
        m.d.comb += [self.a["fresh_setup"].eq(fresh_ok), self.a["prefix_no_state_change"].eq(prefix_ok)]
        after = (hA.slot >= self.j) & ~hA.done
        m.d.comb += self.v["fresh"].eq(after & ((uA.tx_valid != uB.tx_valid) |
                                                  (uA.tx_valid & (uA.tx_data != uB.tx_data))))
        abandoned = Signal()       # prefix left a transfer unfinished: a valid SETUP whose status stage never came
        with m.If(hA.slot_end & (hA.slot < self.j)):
            with m.If(valid_setup):
                m.d.usb += abandoned.eq(1)
        m.d.comb += [
            self.c["fresh_after_abandoned"].eq(judge & after & abandoned & (hA.slot > self.j) & in_slot & sent_data),
            self.c["fresh_data"].eq(judge & after & (hA.slot > self.j) & in_slot & sent_data & (payload_len == 8)),
        ]
        return m

    # co-simulation stimulus: random but meaningful scripts
    def const_stimulus(self, rng):
        out = {}
        std = [0x0012000001000680, 0x0000000000000500 | (0x15 << 16), 0x0000000000010900, 0x0002000000000080,
               0x0001000000000880, 0x0008000002000680]
        for name, (sig, const) in self._inputs.items():
            if not const:
                continue
            if name.endswith("_kind"):
                out[name] = rng.choice([KIND_SETUP, KIND_IN, KIND_IN, KIND_OUT, KIND_SOF, KIND_NONE])
            elif name.endswith("_ep"):
                out[name] = 0 if rng.random() < 0.8 else rng.randrange(4)
            elif name.endswith("_addr"):
                out[name] = 0 if rng.random() < 0.9 else rng.randrange(128)
            elif name.endswith("_data"):
                out[name] = rng.choice(std) if rng.random() < 0.8 else rng.getrandbits(64)
            elif name.endswith("_olen"):
                out[name] = rng.randrange(3)
            elif name == "j":
                out[name] = rng.randrange(self.nslots)
            else:
                out[name] = rng.getrandbits(len(sig))
        return out


GET_DESC_DEV = 0x0012000001000680      # 80 06 00 01 00 00 12 00
SET_CONFIG_1 = 0x0000000000010900      # 00 09 01 00 00 00 00 00
GET_STATUS = 0x0002000000000080        # 80 00 00 00 00 00 02 00


def queries(tier):
    qs = []
    f3 = lambda: CtrlHarness(3, compose=False)
    f4 = lambda: CtrlHarness(4, compose=False)
    fc = lambda: CtrlHarness(3, compose=True)
    hints = {
        "data_in": {"s0_kind": KIND_SETUP, "s0_data": GET_DESC_DEV, "s1_kind": KIND_IN},
        "status_zlp": {"s0_kind": KIND_SETUP, "s0_data": SET_CONFIG_1, "s1_kind": KIND_IN},
        "status_ack": {"s0_kind": KIND_SETUP, "s0_data": GET_STATUS, "s1_kind": KIND_IN, "s2_kind": KIND_OUT},
        "stall": {"s0_kind": KIND_SETUP, "s1_kind": KIND_IN},
        "setup_ack": {"s0_kind": KIND_SETUP},
        "fresh_after_abandoned_data": {"s0_kind": KIND_SETUP, "s0_data": GET_DESC_DEV, "s1_kind": KIND_IN, "s1_flag": 1,
                                       "s2_kind": KIND_SETUP, "s2_data": SET_CONFIG_1, "s3_kind": KIND_IN},
        "fresh_after_abandoned_status": {"s0_kind": KIND_SETUP, "s0_data": SET_CONFIG_1, "s1_kind": KIND_SETUP,
                                         "s1_data": GET_DESC_DEV, "s2_kind": KIND_IN},
        "fresh_after_abandoned": {"s0_kind": KIND_SETUP, "s0_data": GET_STATUS, "s1_kind": KIND_SETUP,
                                  "s1_data": GET_DESC_DEV, "s2_kind": KIND_IN, "j": 1},
        "fresh_data": {"s0_kind": KIND_NONE, "s1_kind": KIND_SETUP, "s1_data": GET_DESC_DEV, "s2_kind": KIND_IN, "j": 1},
    }
    hints["stall"]["s0_data"] = 0x00000000000001C0          # a vendor request nobody claims
    hints["setup_ack"]["s0_data"] = GET_STATUS
    for hd in hints.values():            # witnesses use uncorrupted packets to endpoint 0 of address 0; unused slots idle
        for i in range(4):
            hd.setdefault(f"s{i}_kind", KIND_NONE)
            hd.setdefault(f"s{i}_olen", 0)
            hd.setdefault(f"s{i}_flag", 1 if hd.get(f"s{i}_kind") == KIND_IN else 0)
            hd.setdefault(f"s{i}_addr", 0)
            hd.setdefault(f"s{i}_ep", 0)
    # reachability twins (guided witnesses; kinds are pinned by the hints)
    qs.append(Query("covers_3slots", f3, 32 * 3 + 2, asserts=[], hints=hints, timeout=900, split=False,
                    covers=["data_in", "status_zlp", "status_ack", "stall", "setup_ack", "fresh_after_abandoned_status"],
                    desc="witnesses for the interesting events (3 transactions)"))
    # the assertions, one solver process per cube of per-slot (kind, flag) choices; everything else symbolic
    zl3 = {f"s{i}_olen": 0 for i in range(3)}      # OUT data packets are zero-length (status stage) in this check
    zl4 = {f"s{i}_olen": 0 for i in range(4)}
    if tier == "quick":
        cubes = list(slot_cubes(3, "SIiPG", first="S", extra=zl3)) + \
            [c for c in slot_cubes(3, "SI", first="IPN", extra=zl3) if c[0][1] == "S"]
    else:
        # (thorough: 4 x 9 x 9 = 324 cubes; the first transaction is a SETUP (valid / corrupted), an IN or nothing -- an OUT,
        #  PING or SOF before the first SETUP changes nothing the later slots do not also exercise)
        cubes = list(slot_cubes(3, "SsIiPQoNG", first="SsIN", extra=zl3))
    ALL = ["in_gets_ack", "out_gets_data", "setup_ack", "corrupt_setup_silent", "data_stage_only", "zlp_stage",
           "status_out_ack", "other_ep_silent", "single_response", "fresh_first_response"]
    for name, layer in cubes:
        # "a valid SETUP is ACKed" for a SETUP in the third slot does not finish (>900 s); it is decided for SETUPs in
        # the first and second slot here and after every single prior transaction by the 2-slot cubes below
        asserts = [a for a in ALL if not (a == "setup_ack" and name[-1] in "Ss")]
        # the cubes with a status OUT after an IN are the expensive ones: give every assertion its own process there
        heavy = ("IP" in name) or ("iP" in name)
        qs.append(Query(f"bmc_3slots_{name}", f3, 32 * 3 + 2, layer=layer, asserts=asserts, covers=[], timeout=900, split=heavy, tactic="portfolio",
                        desc=f"3 transactions {name}: direction rules and fresh-transfer answers; address, endpoint, data symbolic"))
    f2 = lambda: CtrlHarness(2, compose=False)
    zl2 = {f"s{i}_olen": 0 for i in range(2)}
    for name, layer in slot_cubes(2, "S", first="SIiPN" if tier == "quick" else "SsIiPQoNF", extra=zl2):
        qs.append(Query(f"bmc_2slots_{name}", f2, 32 * 2 + 2, layer=layer, asserts=["setup_ack", "single_response"], covers=[],
                        timeout=900, split=False, desc=f"2 transactions {name}: a valid SETUP after any one transaction is ACKed"))
    if tier == "thorough":
        qs.append(Query("covers_4slots", f4, 32 * 4 + 2, asserts=[], hints=hints, timeout=900, split=False,
                        covers=["fresh_after_abandoned_data"], desc="witness: fresh transfer after an abandoned data stage"))
        for name, layer in slot_cubes(4, "SIP", first="S", extra=zl4):
            qs.append(Query(f"bmc_4slots_{name}", f4, 32 * 4 + 2, layer=layer, covers=[], timeout=900, split=False,
                            desc=f"4 transactions {name}"))
        for name, layer in slot_cubes(3, "SIP", first="S", extra=zl3):
            layer = dict(layer)
            qs.append(Query(f"bmc_selfcomposition_{name}", fc, 32 * 3 + 2, layer=layer, timeout=1200, required=False,
                            asserts=["fresh"], covers=[], split=False,
                            desc="best effort: device A (whole script) vs fresh device B (last transfer only, endpoint 0 only)"))
    qs.append(Query("cosim", f3, 0, kind="cosim", cosim_cycles=100 if tier == "quick" else 400))
    return qs
