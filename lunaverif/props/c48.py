"""C48 -- SuperSpeed control requests are decoded and answered exactly.

Harness 1: real SuperSpeedSetupDecoder.  The environment is the data-packet receiver's contract on `sink`: a packet
is a run of words (all four lanes valid, except possibly fewer low lanes on the final word), `first` on the first
word, `last` on the final word, idle gaps allowed, followed by exactly one rx_good / rx_bad verdict; a packet may
also be aborted by rx_bad before `last`.  header_in.setup is a per-packet flag.  A ghost counts the BYTES of the
packet and keeps the first eight; the decoder must pulse `received` (one cycle after the verdict) iff the verdict
is good, the flag is set and the byte count is exactly 8, with fields equal to the bytes.

Harness 2: real usb3 GetDescriptorHandler.  value / length / start timing / tx.ready free; the answer must be the
first min(wLength, L) bytes (little-endian lanes, low-lane valid mask on the final word, first/last), tx_length must
equal min(wLength, L) whenever the stream is valid, unknown descriptors stall without data.
"""
from amaranth import *
from ..harness import Harness
from ..engine import Query
from ..lib.descriptors import make_collection

# FINDINGS (genuine defects found by this check on the original tree, fixed in /repo)
#   c64b9f1 "fix: SuperSpeedSetupDecoder only accepts a single eight-byte setup packet"
#       a setup-flagged packet of 4..7 bytes left the decoder in PARSE_SECOND: two 4-byte packets were reported as one
#       request, and the next correct setup packet was missed.
#       Caught by: bmc_setup_decoder assert:report_spurious and assert:report_missing.

PROP = "C48"
ENCODED = [
    "luna/gateware/usb/usb3/application/request.py: SuperSpeedSetupDecoder (FSM WAIT_FOR_FIRST/PARSE_SECOND/"
    "WAIT_FOR_VALID, field packing)",
    "luna/gateware/usb/usb3/application/descriptor.py: GetDescriptorHandler (generator selection, output register "
    "stage, tx_length, stall) + ConstantStreamGenerator (32 bit, max_length)",
]
ASSUMPTIONS = [
    "sink follows the receiver contract: non-final words carry 4 valid lanes, the final word 1..4 low lanes; first/last "
    "mark the first/final word; gaps (valid=0) allowed; exactly one verdict strobe after `last` (>= 1 cycle later), or "
    "rx_bad alone aborting the packet; no new packet before the verdict; header_in.setup constant during a packet",
    "descriptor handler: value/length held while a response is pending, wLength > 0, no start while a response is "
    "pending; descriptor collections enumerated (sparse / dense of lib.descriptors, 1..27 bytes)",
    "tx.ready free every cycle",
]
BOUNDS = "decoder: BMC K=14 quick / 22 thorough (two to three packets of 1..4 words); descriptor handler: K=14 quick / " \
         "24 thorough"
OUTSIDE = "the SuperSpeed request handler above the descriptor handler (sequence numbers, ACK/retry), descriptors " \
          "longer than 27 bytes, wLength == 0"


class SetupDecoderHarness(Harness):
    domains = ("ss",)

    def __init__(self):
        super().__init__()
        from luna.gateware.usb.usb3.application.request import SuperSpeedSetupDecoder
        self.dut = SuperSpeedSetupDecoder()
        self.data = self.inp("data", 32)
        self.word = self.inp("word", 1)           # present a word in this cycle
        self.is_last = self.inp("is_last", 1)
        self.lanes = self.inp("lanes", 2)         # final word: lanes+1 valid bytes
        self.good = self.inp("good", 1)
        self.bad = self.inp("bad", 1)
        self.setup_flag = self.inp("setup_flag", 1)
        self.v = {n: self.viol(n) for n in ("report_missing", "report_spurious", "fields")}
        self.c = {n: self.cover(n) for n in ("reported", "short_setup_ignored", "long_setup_ignored", "bad_ignored",
                                             "non_setup_ignored", "second_report", "seven_bytes_good", "aborted")}

    def elaborate(self, platform):
        m = Module()
        m.submodules.dut = dut = self.dut
        IDLE, BODY, VERDICT = 0, 1, 2
        st = Signal(2, name="env_state")
        flag = Signal(name="pkt_setup_flag")
        nbytes = Signal(6, name="pkt_bytes")
        cap = Signal(64, name="pkt_first8")
        reports = Signal(2, name="reports")
        self.obs("env_state", st); self.obs("pkt_bytes", nbytes)
        word = Signal(name="word_now")
        first = Signal(name="first_now")
        last = Signal(name="last_now")
        good = Signal(name="good_now")
        bad = Signal(name="bad_now")
        nb = Signal(3, name="word_bytes")
        m.d.comb += [
            word.eq(self.word & (st != VERDICT)),
            first.eq(word & (st == IDLE)),
            last.eq(word & self.is_last),
            nb.eq(Mux(last, self.lanes + 1, 4)),
            good.eq((st == VERDICT) & self.good),
            bad.eq(((st == VERDICT) & self.bad & ~self.good) | ((st == BODY) & self.bad & ~word)),
            dut.sink.valid.eq(Mux(word, Mux(last, (Const(1, 5) << (self.lanes + 1)) - 1, 0b1111), 0)),
            dut.sink.first.eq(first), dut.sink.last.eq(last), dut.sink.payload.eq(self.data),
            dut.rx_good.eq(good), dut.rx_bad.eq(bad),
            dut.header_in.setup.eq(Mux(st == IDLE, self.setup_flag, flag)),
        ]
        cur_flag = Mux(st == IDLE, self.setup_flag, flag)
        with m.If(word):
            # byte capture, little-endian lanes
            base = Mux(first, 0, nbytes)
            for i in range(4):
                with m.If((i < nb) & ((base + i) < 8)):
                    m.d.ss += cap.word_select((base + i)[:3], 8).eq(self.data[8 * i:8 * i + 8])
            m.d.ss += nbytes.eq(Mux(base + nb > 40, 40, base + nb))
            with m.If(first):
                m.d.ss += flag.eq(self.setup_flag)
            m.d.ss += st.eq(Mux(last, VERDICT, BODY))
        with m.Elif(good | bad):
            m.d.ss += st.eq(IDLE)
        expect = Signal(name="expect_report")
        m.d.ss += expect.eq(good & flag & (nbytes == 8))
        rec = dut.packet.received
        fields = Cat(dut.packet.recipient, dut.packet.type, dut.packet.is_in_request, dut.packet.request,
                     dut.packet.value, dut.packet.index, dut.packet.length)
        cap_d = Signal(64, name="cap_at_verdict")
        m.d.ss += cap_d.eq(cap)
        v, c = self.v, self.c
        with m.If(rec):
            m.d.ss += reports.eq(Mux(reports == 3, 3, reports + 1))
        ign = Signal(name="ignored_kind")
        m.d.comb += [
            v["report_missing"].eq(expect & ~rec),
            v["report_spurious"].eq(rec & ~expect),
            v["fields"].eq(rec & expect & (fields != cap_d)),
            c["reported"].eq(rec & expect),
            c["second_report"].eq(rec & expect & (reports == 1)),
            c["short_setup_ignored"].eq(good & flag & (nbytes < 8)),
            c["seven_bytes_good"].eq(good & flag & (nbytes == 7)),
            c["long_setup_ignored"].eq(good & flag & (nbytes > 8)),
            c["bad_ignored"].eq((st == VERDICT) & bad & flag & (nbytes == 8)),
            c["non_setup_ignored"].eq(good & ~flag & (nbytes == 8)),
            c["aborted"].eq((st == BODY) & bad),
        ]
        return m

    def stimulus(self, rng, t, consts):
        d = super().stimulus(rng, t, consts)
        d["word"] = int(rng.random() < 0.7)
        d["is_last"] = int(rng.random() < 0.5)
        d["lanes"] = 3 if rng.random() < 0.7 else rng.randrange(4)
        d["setup_flag"] = int(rng.random() < 0.8)
        d["good"] = int(rng.random() < 0.7)
        d["bad"] = int(rng.random() < 0.15)
        return d


class SSDescriptorHarness(Harness):
    domains = ("ss",)

    def __init__(self, kind="sparse"):
        super().__init__()
        from luna.gateware.usb.usb3.application.descriptor import GetDescriptorHandler
        coll, self.descs = make_collection(kind, 8)
        self.dut = GetDescriptorHandler(coll)
        self.value = self.inp("value", 16, const=True)
        self.length = self.inp("length", 16, const=True)
        self.start = self.inp("start", 1)
        self.ready = self.inp("ready", 1)
        self.a_len = self.assume("wlength_nonzero")
        self.v = {n: self.viol(n) for n in ("payload", "first", "last", "valid_mask", "tx_length", "stall_exists",
                                            "data_nonexistent", "no_response", "spurious")}
        self.c = {n: self.cover(n) for n in ("whole_descriptor", "cut_by_wlength", "partial_final_word", "stall",
                                             "backpressure", "second_request", "multiword")}

    def elaborate(self, platform):
        m = Module()
        m.submodules.dut = dut = self.dut
        descs = self.descs
        nd = len(descs)
        maxl = max(len(b) for _, b in descs)
        LAT = 5
        IDLE, WAIT, DATA = 0, 1, 2
        st = Signal(2, name="g_state")
        left = Signal(range(maxl + 1), name="g_left")
        idx = Signal(range(maxl // 4 + 2), name="g_word")
        wait = Signal(range(LAT + 2), name="g_wait")
        served = Signal(name="g_served")
        self.obs("g_state", st); self.obs("g_left", left)
        sel = Signal(range(nd + 1), name="g_sel")
        ex = Signal(name="g_exists")
        with m.Switch(self.value):
            for i, (val, b) in enumerate(descs):
                with m.Case(val):
                    m.d.comb += [sel.eq(i), ex.eq(1)]
        L = Signal(16, name="g_len")
        m.d.comb += L.eq(Array([Const(len(b), 16) for _, b in descs] + [Const(0, 16)])[sel])
        n = Signal(16, name="g_n")
        m.d.comb += n.eq(Mux(self.length < L, self.length, L))
        start = Signal(name="start_eff")
        m.d.comb += [start.eq(self.start & (st == IDLE)), dut.start.eq(start), dut.value.eq(self.value),
                     dut.length.eq(self.length), dut.tx.ready.eq(self.ready), self.a_len.eq(self.length != 0)]

        def words(b):
            return [int.from_bytes(b[i:i + 4].ljust(4, b"\0"), "little") for i in range(0, len(b), 4)]
        exp_word = Signal(32, name="g_exp_word")
        with m.Switch(sel):
            for i, (_, b) in enumerate(descs):
                with m.Case(i):
                    m.d.comb += exp_word.eq(Array([Const(w, 32) for w in words(b)] + [Const(0, 32)])[idx])
        nbytes = Signal(3, name="g_word_bytes")
        m.d.comb += nbytes.eq(Mux(left < 4, left, 4))
        exp_mask = Signal(4, name="g_exp_mask")
        with m.Switch(nbytes):
            for i in range(1, 5):
                with m.Case(i):
                    m.d.comb += exp_mask.eq((1 << i) - 1)
        tx = dut.tx
        anyv = tx.valid.any()
        lane_bad = Signal(4, name="lane_bad")
        for i in range(4):
            m.d.comb += lane_bad[i].eq(exp_mask[i] & (tx.payload[8 * i:8 * i + 8] != exp_word[8 * i:8 * i + 8]))
        v, c = self.v, self.c
        chk = Signal(name="g_check")
        m.d.comb += chk.eq(anyv & ex & ((st == WAIT) | (st == DATA)) & ~dut.stall)
        exp_last = left <= 4
        m.d.comb += [
            v["payload"].eq(chk & lane_bad.any()),
            v["first"].eq(chk & (tx.first != (idx == 0))),
            v["last"].eq(chk & (tx.last != exp_last)),
            v["valid_mask"].eq(chk & (tx.valid != exp_mask)),
            v["tx_length"].eq(chk & (dut.tx_length != n)),
        ]
        done = Signal(name="g_done")
        with m.Switch(st):
            with m.Case(IDLE):
                m.d.comb += v["spurious"].eq(anyv | (dut.stall & ~start))
                with m.If(start):
                    m.d.comb += c["second_request"].eq(served)
                    with m.If(dut.stall):
                        m.d.comb += [v["stall_exists"].eq(ex), c["stall"].eq(~ex)]
                        m.d.ss += served.eq(1)
                    with m.Else():
                        m.d.ss += [st.eq(WAIT), left.eq(n[:len(left)]), idx.eq(0), wait.eq(0)]
            with m.Case(WAIT, DATA):
                with m.If(dut.stall):
                    m.d.comb += v["stall_exists"].eq(1)
                with m.If(anyv):
                    with m.If(~ex):
                        m.d.comb += v["data_nonexistent"].eq(1)
                        m.d.ss += st.eq(IDLE)
                    with m.Else():
                        m.d.ss += st.eq(DATA)
                        with m.If(self.ready):
                            with m.If(exp_last):
                                m.d.comb += done.eq(1)
                                m.d.ss += [st.eq(IDLE), served.eq(1)]
                            with m.Else():
                                m.d.ss += [left.eq(left - 4), idx.eq(idx + 1)]
                with m.Elif(st == WAIT):
                    m.d.ss += wait.eq(wait + 1)
                    with m.If(wait == LAT - 1):
                        m.d.comb += v["no_response"].eq(1)
                        m.d.ss += st.eq(IDLE)
        m.d.comb += [
            c["whole_descriptor"].eq(done & (n == L)),
            c["cut_by_wlength"].eq(done & (n != L)),
            c["partial_final_word"].eq(done & (nbytes != 4)),
            c["backpressure"].eq((st == DATA) & anyv & ~self.ready),
            c["multiword"].eq(done & (idx >= 2)),
        ]
        return m

    def const_stimulus(self, rng):
        val, b = rng.choice(self.descs)
        return dict(value=val if rng.random() < 0.85 else val ^ 0x100, length=rng.choice([len(b), 255, 5, 8, 1]))

    def stimulus(self, rng, t, consts):
        d = super().stimulus(rng, t, consts)
        d["start"] = int(rng.random() < 0.2)
        d["ready"] = int(rng.random() < 0.7)
        return d


def queries(tier):
    quick = tier == "quick"
    qs = [Query("bmc_setup_decoder", SetupDecoderHarness, 14 if quick else 22, timeout=600,
                desc="setup decoder: word stream, lanes, flags and verdicts free within the receiver contract"),
          Query("cosim_setup_decoder", SetupDecoderHarness, 0, kind="cosim", cosim_cycles=300 if quick else 1500)]
    for kind in (("sparse",) if quick else ("sparse", "dense")):
        f = (lambda k=kind: SSDescriptorHarness(k))
        qs.append(Query(f"bmc_descriptor_{kind}", f, 14 if quick else 24, timeout=600,
                        desc=f"usb3 GetDescriptorHandler ({kind} collection): value/length symbolic constants, start "
                             "timing and tx.ready free"))
        qs.append(Query(f"cosim_descriptor_{kind}", f, 0, kind="cosim", cosim_cycles=300 if quick else 1000))
    return qs
