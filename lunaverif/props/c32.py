"""C32 -- receive CTC removes exactly the SKP symbols and nothing else.

DUT: luna.gateware.usb.usb3.physical.ctc.CTCSkipRemover (real class), `source.ready` tied to 1 as
USB3PhysicalLayer wires it (the RxWordAligner behind it is always ready).

Oracle (independent of the DUT's buffer): the input is seen as a sequence of 9-bit symbols
(ctrl, data), symbol 0 of a word = bits [7:0] = first in time.  A ghost counter numbers the non-SKP
symbols of accepted words, a second one numbers the symbols of output words.  A symbolic constant k
selects one index ("tracked element"): the k-th non-SKP input symbol is captured and must be exactly
the k-th output symbol; the k-th output symbol must not appear before the k-th input symbol was
accepted.  Since k is universally quantified, this is "same sequence, same order, no loss, no
duplication".  The grouping clause is `source.valid <=> at least 4 undelivered non-SKP symbols`.
"""
from amaranth import *
from ..harness import Harness
from ..engine import Query

PROP = "C32"
ENCODED = ["luna/gateware/usb/usb3/physical/ctc.py: CTCSkipRemover.elaborate (SKP location, valid_data compaction, "
           "elastic byte buffer, output word selection)",
           "luna/gateware/usb/usb3/physical/coding.py: stream_word_matches_symbol / SKP constant (as used by the remover)"]
ASSUMPTIONS = [
    "source.ready is tied to 1 (the property's premise; USB3PhysicalLayer connects the always-ready RxWordAligner)",
    "sink.valid, sink.data (32 bit) and sink.ctrl (4 bit) are free in every cycle (the physical layer ties valid=1; "
    "a layer with valid=1 is checked as well); sink.first/last are tied to 0 (unused by the DUT)",
    "SKP symbol = K28.1 = data 0x3C with its ctrl bit set (USB 3.2 table 6-1), written here as a literal",
    "prompt regrouping: an output word is expected in every cycle in which >= 4 accepted non-SKP symbols are undelivered",
]
BOUNDS = "BMC from reset, K cycles (quick 10, thorough 16), every word/ctrl/valid free per cycle, tracked index k symbolic " \
         "(6 bit constant); additional layer with sink.valid=1 (as wired) to K 12/20"
OUTSIDE = "source.ready=0 stalls (excluded by the statement); sequences longer than K words (the DUT state is a <=7-symbol " \
          "buffer, every occupancy 0..7 is reached within 3 cycles); the PHY's own elastic buffer"

SKP_DATA, SKP_CTRL = 0x3C, 1


class RemoverHarness(Harness):
    domains = ("ss",)

    def __init__(self):
        super().__init__()
        from luna.gateware.usb.usb3.physical.ctc import CTCSkipRemover
        self.dut = CTCSkipRemover()
        self.in_valid = self.inp("in_valid", 1)
        self.in_data = self.inp("in_data", 32)
        self.in_ctrl = self.inp("in_ctrl", 4)
        self.k = self.inp("k", 6, const=True)
        self.restrictions.append("source.ready tied to 1; sink.first/last tied to 0")

        self.v_value = self.viol("tracked_value")      # k-th output symbol == k-th non-SKP input symbol
        self.v_early = self.viol("not_before_input")   # k-th output symbol never precedes k-th input symbol (no invention/duplication)
        self.v_skp = self.viol("no_skp_out")           # no SKP symbol in an output word
        self.v_group = self.viol("regroup_prompt")     # valid <=> >=4 symbols pending  (no loss, 4-symbol words)
        self.v_ready = self.viol("sink_always_ready")  # the PHY cannot be stalled: sink.ready stays 1
        self.v_strobe = self.viol("skip_removed_strobe")  # documented strobe: accepted word contains a SKP

        self.c_value = self.cover("tracked_delivered")
        self.c_value_mid = self.cover("tracked_delivered_offset")   # tracked symbol delivered at a word position != input position
        self.c_skp = self.cover("skp_word_removed")     # a complete SKP word accepted
        self.c_skp2 = self.cover("two_skp_words")       # two consecutive all-SKP words
        self.c_partial = self.cover("partial_skp")      # word with 1..3 SKPs accepted
        self.c_group = self.cover("output_after_gap")   # output word assembled from three input words
        self.c_full = self.cover("pending7")            # 7 symbols pending (max occupancy)
        self.c_strobe = self.cover("skip_removed")

    def elaborate(self, platform):
        m = Module()
        m.submodules.dut = dut = self.dut
        sink, source = dut.sink, dut.source
        m.d.comb += [
            sink.valid.eq(self.in_valid), sink.data.eq(self.in_data), sink.ctrl.eq(self.in_ctrl),
            sink.first.eq(0), sink.last.eq(0),
            source.ready.eq(1),
        ]
        accept = Signal(name="accept")
        m.d.comb += accept.eq(sink.valid & sink.ready)

        # ---- input side: number the non-SKP symbols
        W = 8
        in_count = Signal(W, name="in_count")     # non-SKP symbols accepted before this cycle
        out_count = Signal(W, name="out_count")   # symbols delivered before this cycle
        is_skp = [Signal(name=f"is_skp{i}") for i in range(4)]
        for i in range(4):
            m.d.comb += is_skp[i].eq((self.in_data.word_select(i, 8) == SKP_DATA) & (self.in_ctrl[i] == SKP_CTRL))
        idx = [Signal(W, name=f"idx{i}") for i in range(5)]
        m.d.comb += idx[0].eq(in_count)
        for i in range(4):
            m.d.comb += idx[i + 1].eq(idx[i] + ~is_skp[i])
        nskp = Signal(3, name="nskp")
        m.d.comb += nskp.eq(sum(is_skp))

        tracked = Signal(9, name="tracked")
        tracked_pos = Signal(2, name="tracked_pos")
        captured = Signal(name="captured")
        with m.If(accept):
            m.d.ss += in_count.eq(idx[4])
            for i in range(4):
                with m.If(~is_skp[i] & (idx[i] == self.k)):
                    m.d.ss += [tracked.eq(Cat(self.in_data.word_select(i, 8), self.in_ctrl[i])),
                               tracked_pos.eq(i), captured.eq(1)]

        # ---- output side
        deliver = Signal(name="deliver")
        m.d.comb += deliver.eq(source.valid)      # ready == 1
        with m.If(deliver):
            m.d.ss += out_count.eq(out_count + 4)
        k8 = Signal(W, name="k8")
        m.d.comb += k8.eq(self.k)
        hit = Signal(name="hit")
        pos = Signal(2, name="pos")
        m.d.comb += [hit.eq(deliver & (k8 >= out_count) & (k8 < out_count + 4)), pos.eq((k8 - out_count)[:2])]
        out_sym = Signal(9, name="out_sym")
        m.d.comb += out_sym.eq(Cat(source.data.word_select(pos, 8), source.ctrl.bit_select(pos, 1)))

        m.d.comb += [
            self.v_value.eq(hit & captured & (out_sym != tracked)),
            self.v_early.eq(hit & ~captured),
            self.c_value.eq(hit & captured & (out_sym == tracked)),
            self.c_value_mid.eq(hit & captured & (out_sym == tracked) & (pos != tracked_pos) & (self.k > 8)),
        ]
        out_skp = Signal(4, name="out_skp")
        for i in range(4):
            m.d.comb += out_skp[i].eq((source.data.word_select(i, 8) == SKP_DATA) & (source.ctrl[i] == SKP_CTRL))
        m.d.comb += self.v_skp.eq(deliver & (out_skp != 0))

        pending = Signal(W, name="pending")
        m.d.comb += pending.eq(in_count - out_count)
        m.d.comb += [
            self.v_group.eq(source.valid != (pending >= 4)),
            self.v_ready.eq(~sink.ready),
            self.v_strobe.eq(dut.skip_removed != (accept & (nskp != 0))),
            self.c_strobe.eq(dut.skip_removed),
            self.c_full.eq(pending == 7),
        ]

        # ---- covers on the input pattern
        prev_allskp = Signal(name="prev_allskp")
        m.d.ss += prev_allskp.eq(accept & (nskp == 4))
        m.d.comb += [
            self.c_skp.eq(accept & (nskp == 4)),
            self.c_skp2.eq(accept & (nskp == 4) & prev_allskp),
            self.c_partial.eq(accept & (nskp != 0) & (nskp != 4)),
        ]
        # output word made from three different input words: 1 symbol, then 2, then >=1
        hist1 = Signal(3, name="hist1")
        hist2 = Signal(3, name="hist2")
        with m.If(accept):
            m.d.ss += [hist1.eq(4 - nskp), hist2.eq(hist1)]
        was_empty = Signal(name="was_empty")
        with m.If(accept):
            m.d.ss += was_empty.eq((pending == 0) | ((pending == 4) & deliver))
        three = Signal(name="three")
        with m.If(accept):
            m.d.ss += three.eq(was_empty & (hist1 == 1) & (nskp == 2))
        m.d.comb += self.c_group.eq(accept & three & (pending == 3) & (nskp != 4))

        self.obs("in_count", in_count)
        self.obs("out_count", out_count)
        self.obs("src_valid", source.valid)
        self.obs("src_data", source.data)
        self.obs("src_ctrl", source.ctrl)
        self.obs("bytes_in_buffer", dut.bytes_in_buffer)
        return m

    def stimulus(self, rng, t, consts):
        d = {"k": consts["k"], "in_valid": int(rng.random() < 0.85)}
        data = 0
        ctrl = 0
        for i in range(4):
            r = rng.random()
            if r < 0.35:
                b, c = SKP_DATA, 1
            elif r < 0.45:
                b, c = SKP_DATA, 0
            elif r < 0.55:
                b, c = rng.getrandbits(8), 1
            else:
                b, c = rng.getrandbits(8), 0
            data |= b << (8 * i)
            ctrl |= c << i
        d["in_data"], d["in_ctrl"] = data, ctrl
        return d


def queries(tier):
    f = RemoverHarness
    quick = tier == "quick"
    return [
        Query("bmc_free", f, 10 if quick else 16, timeout=600,
              desc="words, ctrl flags and sink.valid free every cycle; tracked index k symbolic"),
        Query("bmc_valid1", f, 12 if quick else 20, layer={"in_valid": 1}, covers=[], timeout=600,
              desc="layer: sink.valid=1 in every cycle, as USB3PhysicalLayer wires it; deeper"),
        Query("cosim", f, 0, kind="cosim", cosim_cycles=300 if quick else 2000),
    ]
