"""C32 -- receive CTC removes exactly the SKP symbols and nothing else.

DUT: luna.gateware.usb.usb3.physical.ctc.CTCSkipRemover (real class), `source.ready` tied to 1 as
USB3PhysicalLayer wires it (the RxWordAligner behind it is always ready).

Oracle (independent of the DUT's buffer): the input is seen as a sequence of 9-bit symbols
(ctrl, data), symbol 0 of a word = bits [7:0] = first in time.  A ghost counter numbers the non-SKP
symbols.  A ghost counter `pending` counts accepted non-SKP symbols not yet delivered (4 leave per output
word).  The environment marks one non-SKP input symbol of its choice ("tracked element"); the monitor
records how many undelivered symbols are in front of it and demands that exactly that output position
carries exactly that symbol.  Since the choice is universally quantified, this is "same sequence, same
order, no loss, no duplication".  The grouping clause is `source.valid <=> pending >= 4`.
"""
from amaranth import *
from ..harness import Harness
from ..engine import Query

PROP = "C32"
ENCODED = ["luna/gateware/usb/usb3/physical/ctc.py: CTCSkipRemover.elaborate (SKP location, valid_data compaction, "
           "elastic byte buffer, output word selection)",
           "luna/gateware/usb/usb3/physical/coding.py: stream_word_matches_symbol / SKP constant (as used by the remover)"]
ASSUMPTIONS = [
    "source.ready is tied to 1 (the property's premise; USB3PhysicalLayer connects the always-ready RxWordAligner)",
    "sink.valid, sink.data (32 bit) and sink.ctrl (4 bit) are free in every cycle (the physical layer ties valid=1; "
    "a layer with valid=1 is checked as well); sink.first/last are tied to 0 (unused by the DUT)",
    "SKP symbol = K28.1 = data 0x3C with its ctrl bit set (USB 3.2 table 6-1), written here as a literal",
    "prompt regrouping: an output word is expected in every cycle in which >= 4 accepted non-SKP symbols are undelivered",
]
BOUNDS = "BMC from reset, K cycles (quick 9, thorough 13; fully free tracked choice 6/8; tracked-symbol case split runs 6 cycles past the mark), every word/ctrl/valid free per cycle, tracked symbol chosen by the " \
         "solver (case split over the marking cycle); plus a 1-step induction from an arbitrary buffer state (unbounded)"
OUTSIDE = "source.ready=0 stalls (excluded by the statement); sequences longer than K words (the DUT state is a <=7-symbol " \
          "buffer, every occupancy 0..7 is reached within 3 cycles); the PHY's own elastic buffer"

SKP_DATA, SKP_CTRL = 0x3C, 1


class RemoverHarness(Harness):
    domains = ("ss",)

    def __init__(self):
        super().__init__()
        from luna.gateware.usb.usb3.physical.ctc import CTCSkipRemover
        self.dut = CTCSkipRemover()
        self.in_valid = self.inp("in_valid", 1)
        self.in_data = self.inp("in_data", 32)
        self.in_ctrl = self.inp("in_ctrl", 4)
        self.mark = self.inp("mark", 1)           # environment's choice of the tracked symbol (first legal mark counts)
        self.mark_pos = self.inp("mark_pos", 2)
        self.late = Signal(name="late")
        self.restrictions.append("source.ready tied to 1; sink.first/last tied to 0")

        self.v_value = self.viol("tracked_value")      # k-th output symbol == k-th non-SKP input symbol
        self.v_early = self.viol("not_before_input")   # k-th output symbol never precedes k-th input symbol (output only what was accepted: delivered <= accepted)
        self.v_skp = self.viol("no_skp_out")           # no SKP symbol in an output word
        self.v_group = self.viol("regroup_prompt")     # valid <=> >=4 symbols pending  (no loss, 4-symbol words)
        self.v_ready = self.viol("sink_always_ready")  # the PHY cannot be stalled: sink.ready stays 1
        self.v_strobe = self.viol("skip_removed_strobe")  # documented strobe: accepted word contains a SKP

        self.c_value = self.cover("tracked_delivered")
        self.c_value_mid = self.cover("tracked_delivered_offset")   # tracked symbol delivered at a word position != input position
        self.c_skp = self.cover("skp_word_removed")     # a complete SKP word accepted
        self.c_skp2 = self.cover("two_skp_words")       # two consecutive all-SKP words
        self.c_partial = self.cover("partial_skp")      # word with 1..3 SKPs accepted
        self.c_group = self.cover("output_after_gap")   # output word assembled from three input words
        self.c_full = self.cover("pending7")            # 7 symbols pending (max occupancy)
        self.c_strobe = self.cover("skip_removed")

    def elaborate(self, platform):
        m = Module()
        m.submodules.dut = dut = self.dut
        sink, source = dut.sink, dut.source
        m.d.comb += [
            sink.valid.eq(self.in_valid), sink.data.eq(self.in_data), sink.ctrl.eq(self.in_ctrl),
            sink.first.eq(0), sink.last.eq(0),
            source.ready.eq(1),
        ]
        accept = Signal(name="accept")
        m.d.comb += accept.eq(sink.valid & sink.ready)

        # ---- ghost bookkeeping: number of accepted non-SKP symbols not yet delivered
        is_skp = [Signal(name=f"is_skp{i}") for i in range(4)]
        for i in range(4):
            m.d.comb += is_skp[i].eq((self.in_data.word_select(i, 8) == SKP_DATA) & (self.in_ctrl[i] == SKP_CTRL))
        nskp = Signal(3, name="nskp")
        m.d.comb += nskp.eq(sum(is_skp))
        below = [Signal(3, name=f"below{i}") for i in range(4)]   # non-SKP symbols of this word before position i
        for i in range(4):
            m.d.comb += below[i].eq(sum((~is_skp[j] for j in range(i)), Const(0, 3)))

        deliver = Signal(name="deliver")
        m.d.comb += deliver.eq(source.valid)      # ready == 1
        pending = Signal(6, name="pending")       # >= 6 bits: a DUT that stops delivering is flagged by regroup_prompt first
        after_out = Signal(6, name="after_out")
        m.d.comb += after_out.eq(pending - Mux(deliver, 4, 0))
        m.d.ss += pending.eq(after_out + Mux(accept, 4 - nskp, 0))

        # ---- tracked symbol: the environment marks (at most once) one non-SKP symbol of an accepted word
        tracked = Signal(9, name="tracked")
        tracked_pos = Signal(2, name="tracked_pos")
        captured = Signal(name="captured")
        done = Signal(name="done")
        ahead = Signal(6, name="ahead")           # undelivered symbols in front of the tracked one
        take = Signal(name="take")
        m.d.comb += take.eq(accept & self.mark & ~captured & ~Array(is_skp)[self.mark_pos])
        hit = Signal(name="hit")
        m.d.comb += hit.eq(deliver & captured & ~done & (ahead < 4))
        with m.If(take):
            m.d.ss += [tracked.eq(Cat(self.in_data.word_select(self.mark_pos, 8), self.in_ctrl.bit_select(self.mark_pos, 1))),
                       tracked_pos.eq(self.mark_pos), captured.eq(1),
                       ahead.eq(after_out + Array(below)[self.mark_pos])]
        with m.Elif(captured & ~done & deliver):
            with m.If(ahead < 4):
                m.d.ss += done.eq(1)
            with m.Else():
                m.d.ss += ahead.eq(ahead - 4)
        pos = Signal(2, name="pos")
        m.d.comb += pos.eq(ahead[:2])
        out_sym = Signal(9, name="out_sym")
        m.d.comb += out_sym.eq(Cat(source.data.word_select(pos, 8), source.ctrl.bit_select(pos, 1)))

        m.d.comb += [
            self.v_value.eq(hit & (out_sym != tracked)),
            self.v_early.eq(deliver & (pending < 4)),
            self.c_value.eq(hit & (out_sym == tracked)),
            self.c_value_mid.eq(hit & (out_sym == tracked) & (pos != tracked_pos) & self.late),
        ]
        late = Signal(4, name="latecnt")
        with m.If(late != 15):
            m.d.ss += late.eq(late + 1)
        m.d.comb += self.late.eq(late >= 5)
        out_skp = Signal(4, name="out_skp")
        for i in range(4):
            m.d.comb += out_skp[i].eq((source.data.word_select(i, 8) == SKP_DATA) & (source.ctrl[i] == SKP_CTRL))
        m.d.comb += self.v_skp.eq(deliver & (out_skp != 0))

        m.d.comb += [
            self.v_group.eq(source.valid != (pending >= 4)),
            self.v_ready.eq(~sink.ready),
            self.v_strobe.eq(dut.skip_removed != (accept & (nskp != 0))),
            self.c_strobe.eq(dut.skip_removed),
            self.c_full.eq(pending == 7),
        ]

        # ---- covers on the input pattern
        prev_allskp = Signal(name="prev_allskp")
        m.d.ss += prev_allskp.eq(accept & (nskp == 4))
        m.d.comb += [
            self.c_skp.eq(accept & (nskp == 4)),
            self.c_skp2.eq(accept & (nskp == 4) & prev_allskp),
            self.c_partial.eq(accept & (nskp != 0) & (nskp != 4)),
        ]
        # output word made from three different input words: 1 symbol, then 2, then >=1
        hist1 = Signal(3, name="hist1")
        hist2 = Signal(3, name="hist2")
        with m.If(accept):
            m.d.ss += [hist1.eq(4 - nskp), hist2.eq(hist1)]
        was_empty = Signal(name="was_empty")
        with m.If(accept):
            m.d.ss += was_empty.eq((pending == 0) | ((pending == 4) & deliver))
        three = Signal(name="three")
        with m.If(accept):
            m.d.ss += three.eq(was_empty & (hist1 == 1) & (nskp == 2))
        m.d.comb += self.c_group.eq(accept & three & (pending == 3) & (nskp != 4))

        self.obs("pending", pending)
        self.obs("ahead", ahead)
        self.obs("src_valid", source.valid)
        self.obs("src_data", source.data)
        self.obs("src_ctrl", source.ctrl)
        self.obs("bytes_in_buffer", dut.bytes_in_buffer)
        return m

    def stimulus(self, rng, t, consts):
        d = {"mark": int(rng.random() < 0.1), "mark_pos": rng.getrandbits(2), "in_valid": int(rng.random() < 0.85)}
        data = 0
        ctrl = 0
        for i in range(4):
            r = rng.random()
            if r < 0.35:
                b, c = SKP_DATA, 1
            elif r < 0.45:
                b, c = SKP_DATA, 0
            elif r < 0.55:
                b, c = rng.getrandbits(8), 1
            else:
                b, c = rng.getrandbits(8), 0
            data |= b << (8 * i)
            ctrl |= c << i
        d["in_data"], d["in_ctrl"] = data, ctrl
        return d


def _inv(ts, frame, h):
    """IND strengthening (uses DUT internals only as an invariant, never as the oracle):
    ghost pending == DUT fill level <= 7; the valid top bytes of the shift register hold no SKP; an undelivered
    tracked symbol sits `ahead` places behind the oldest valid byte."""
    import z3
    names = ["dut.bytes_in_buffer", "dut.data_buffer", "dut.ctrl_buffer", "pending", "captured", "done", "ahead", "tracked"]
    sigs = {n: ts.signal_by_name(n) for n in names}
    if any(v is None for v in sigs.values()):
        return None, names
    v = {n: frame.sig(s) for n, s in sigs.items()}
    b, data, ctrl = v["dut.bytes_in_buffer"], v["dut.data_buffer"], v["dut.ctrl_buffer"]
    pend, capt, done, ahead, tracked = v["pending"], v["captured"], v["done"], v["ahead"], v["tracked"]
    b6 = z3.ZeroExt(2, b)
    conds = [z3.ULE(b, 7), pend == b6, z3.Implies(done == 1, capt == 1)]
    sym = [z3.Concat(z3.Extract(j, j, ctrl), z3.Extract(8 * j + 7, 8 * j, data)) for j in range(8)]
    for j in range(1, 8):        # byte j is valid iff j >= 8 - b
        conds.append(z3.Implies(z3.UGE(b6, 8 - j), sym[j] != ((SKP_CTRL << 8) | SKP_DATA)))
    live = z3.And(capt == 1, done == 0)
    conds.append(z3.Implies(live, z3.ULT(ahead, b6)))
    for j in range(1, 8):        # tracked symbol at index 8 - b + ahead
        conds.append(z3.Implies(z3.And(live, (8 - b6 + ahead) == j), sym[j] == tracked))
    return conds, ["pending==fill<=7", "valid buffer bytes are not SKP", "tracked symbol at buffer[8-fill+ahead]"]


def queries(tier):
    f = RemoverHarness
    quick = tier == "quick"
    K = 9 if quick else 13
    others = ["not_before_input", "no_skp_out", "regroup_prompt", "sink_always_ready", "skip_removed_strobe"]
    qs = [
        Query("bmc_free", f, 6 if quick else 8, timeout=600,
              desc="words, ctrl flags, sink.valid and the choice of the tracked symbol free every cycle"),
        Query("bmc_deep", f, K, asserts=others, covers=[], timeout=600,
              desc="same free environment, deeper, assertions that do not involve the tracked symbol"),
    ]
    for t0 in range(K - 2):
        qs.append(Query(f"bmc_mark{t0}", f, min(K, t0 + 7), asserts=["tracked_value"], covers=[], timeout=600,
                        layer={"mark": (lambda t, t0=t0: int(t == t0))},
                        desc=f"case split of the tracked-symbol choice: the symbol is marked in cycle {t0} (any position); "
                             "the union over all cycles equals the free choice; everything else free; runs 6 cycles past the mark "
                             "(longer waits caused by invalid or all-SKP words are closed by the induction query)"))
    qs += [
        Query("ind", f, 1, kind="ind", invariants=_inv, timeout=600,
              desc="1-step induction from an arbitrary buffer state (all histories, unbounded length); invariant: ghost "
                   "pending == fill level, valid bytes hold no SKP, tracked symbol at its buffer place"),
        Query("cosim", f, 0, kind="cosim", cosim_cycles=300 if quick else 2000),
    ]
    return qs
