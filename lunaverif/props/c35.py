"""C35 -- link commands round-trip and corrupted commands are rejected.

DUTs (real classes): luna.gateware.usb.usb3.link.command.LinkCommandGenerator and LinkCommandDetector,
each alone and as a loop Generator -> (symbolic corruption, stalls) -> Detector.

Oracle: wire format from USB 3.2 section 7.2.2 -- LCSTART = SLC SLC SLC EPF (K symbols 0xFE 0xFE 0xFE 0xF7,
little endian, ctrl 1111), then one data word holding the 16-bit link command word twice; link command word =
subtype[3:0], reserved[6:4]=0, class/type[10:7], CRC-5[15:11].  The CRC-5 is the *bit-serial* definition
(x^5+x^2+1, init 11111, complemented, MSb in bit 11) from lunaverif/lib/usb2.py, not the repo's XOR equations.
Symbol values are literals here, not imported from luna.
"""
from amaranth import *
from ..harness import Harness
from ..engine import Query
from ..lib.usb2 import crc5_serial
from ..lib import bitwise_assign

# LinkCommandGenerator's `link_command` signal feeds its own upper bits (CRC of its lower bits): one NIR cell that is
# cyclic at cell level; the translator is patched locally to evaluate such cells bit by bit (see lib/bitwise_assign.py)
bitwise_assign.install()

PROP = "C35"
ENCODED = ["luna/gateware/usb/usb3/link/command.py: LinkCommandGenerator.elaborate (IDLE/TRANSMIT_HEADER/TRANSMIT_COMMAND, "
           "latched command/subtype, done)",
           "luna/gateware/usb/usb3/link/command.py: LinkCommandDetector.elaborate (WAIT_FOR_LCSTART/PARSE_COMMAND, "
           "only-data / redundancy / CRC5 checks, field extraction)",
           "luna/gateware/usb/usb3/link/crc.py: compute_usb_crc5 (as used by both; compared against a bit-serial CRC-5)"]
ASSUMPTIONS = [
    "generator: `generate`, `command`, `subtype` and `source.ready` are free in every cycle (command/subtype may change "
    "mid-transmission; the values present in the cycle `generate` is taken must be sent); a `generate` while a command is "
    "in flight (including the `done` cycle) is ignored, per the `done` documentation",
    "detector: sink.valid/data/ctrl are free in every cycle; cycles with valid=0 carry no word and may occur anywhere, "
    "also between the start word and the command word",
    "framing convention: the first valid word after a start word is the command word whatever its content (a start word "
    "in command position is a rejected command, not a new start)",
    "loop: the word in transit is the generator's word XOR a free 36-bit mask (data+ctrl) in command-word cycles; a word is "
    "transferred when the generator's valid meets the free `ready`",
]
BOUNDS = "BMC from reset: generator alone K=12/18, detector alone K=8/12, loop K=12/18 (quick/thorough); all inputs free per cycle; " \
         "plus 2-step induction from an arbitrary state for each harness (unbounded length)"
OUTSIDE = "the link layer's use of the strobes (C37/C38/C39); corruption of the start word in the loop harness beyond the " \
          "detector-alone harness (where every word is free); sequences longer than K"

LCSTART_DATA, LCSTART_CTRL = 0xF7FEFEFE, 0b1111


def _lcw_ok(m, data, ctrl, name):
    """spec acceptance predicate of a command word: returns (only_data, copies_equal, crc_ok) as named signals"""
    lo = Signal(16, name=f"{name}_lo")
    hi = Signal(16, name=f"{name}_hi")
    m.d.comb += [lo.eq(data[0:16]), hi.eq(data[16:32])]
    crc = crc5_serial(m, lo[0:11], name=f"{name}_crc5")
    only_data = Signal(name=f"{name}_only_data")
    same = Signal(name=f"{name}_same")
    crc_ok = Signal(name=f"{name}_crc_ok")
    m.d.comb += [only_data.eq(ctrl == 0), same.eq(lo == hi), crc_ok.eq(lo[11:16] == crc)]
    return only_data, same, crc_ok


class _GenSpec:
    """Ghost of the documented generator protocol: idle -> header (until accepted) -> command word (until accepted)."""

    def __init__(self, m, gen, generate, command, subtype):
        IDLE, HDR, CMD = 0, 1, 2
        self.phase = phase = Signal(2, name="g_phase")
        self.cmd = Signal(4, name="g_cmd")
        self.sub = Signal(4, name="g_sub")
        self.in_idle, self.in_hdr, self.in_cmd = phase == IDLE, phase == HDR, phase == CMD
        ready = gen.source.ready
        with m.If((phase == IDLE) & generate):
            m.d.ss += [phase.eq(HDR), self.cmd.eq(command), self.sub.eq(subtype)]
        with m.Elif((phase == HDR) & ready):
            m.d.ss += phase.eq(CMD)
        with m.Elif((phase == CMD) & ready):
            m.d.ss += phase.eq(IDLE)
        # expected command word (bit-serial CRC)
        info = Signal(11, name="g_info")
        m.d.comb += info.eq(Cat(self.sub, Const(0, 3), self.cmd))
        crc = crc5_serial(m, info, name="g_crc5")
        self.half = Signal(16, name="g_half")
        m.d.comb += self.half.eq(Cat(info, crc))


class GeneratorHarness(Harness):
    domains = ("ss",)

    def __init__(self):
        super().__init__()
        from luna.gateware.usb.usb3.link.command import LinkCommandGenerator
        self.dut = LinkCommandGenerator()
        self.inp("generate", signal=self.dut.generate)
        self.inp("command", signal=self.dut.command)
        self.inp("subtype", signal=self.dut.subtype)
        self.inp("ready", signal=self.dut.source.ready)
        self.v_header = self.viol("header_word")          # SLC SLC SLC EPF, valid until accepted
        self.v_copies = self.viol("two_identical_copies")  # data word = command word twice, ctrl 0
        self.v_fields = self.viol("command_fields")        # subtype / reserved=0 / command as given at generate time
        self.v_crc = self.viol("valid_crc5")               # bit-serial CRC-5 over bits 10..0
        self.v_idle = self.viol("silent_when_idle")        # nothing on the wire outside a command
        self.v_done = self.viol("done_strobe")             # done exactly in the cycle the command word is accepted
        self.c_header = self.cover("header_stalled_then_accepted")
        self.c_copies = self.cover("command_word_sent")
        self.c_fields = self.cover("command_changed_midway")
        self.c_crc = self.cover("crc_nonzero_command")
        self.c_idle = self.cover("idle_after_command")
        self.c_done = self.cover("back_to_back")

    def elaborate(self, platform):
        m = Module()
        m.submodules.dut = dut = self.dut
        src = dut.source
        g = _GenSpec(m, dut, dut.generate, dut.command, dut.subtype)
        lo, hi = src.data[0:16], src.data[16:32]
        crc = crc5_serial(m, lo[0:11], name="w_crc5")
        m.d.comb += [
            self.v_header.eq(g.in_hdr & ~(src.valid & (src.data == LCSTART_DATA) & (src.ctrl == LCSTART_CTRL))),
            self.v_copies.eq(g.in_cmd & ~(src.valid & (lo == hi) & (src.ctrl == 0))),
            self.v_fields.eq(g.in_cmd & ~((lo[0:4] == g.sub) & (lo[4:7] == 0) & (lo[7:11] == g.cmd))),
            self.v_crc.eq(g.in_cmd & (lo[11:16] != crc)),
            self.v_idle.eq(g.in_idle & src.valid),
            self.v_done.eq(dut.done != (g.in_cmd & src.ready)),
        ]
        # covers
        stalled = Signal(name="hdr_stalled")
        with m.If(g.in_hdr & ~src.ready):
            m.d.ss += stalled.eq(1)
        with m.Elif(g.in_idle):
            m.d.ss += stalled.eq(0)
        changed = Signal(name="inputs_changed")
        with m.If(g.in_idle):
            m.d.ss += changed.eq(0)
        with m.Elif((dut.command != g.cmd) | (dut.subtype != g.sub)):
            m.d.ss += changed.eq(1)
        sent = Signal(2, name="sent")
        with m.If(dut.done & (sent != 3)):
            m.d.ss += sent.eq(sent + 1)
        prev_done = Signal(name="prev_done")
        m.d.ss += prev_done.eq(dut.done)
        m.d.comb += [
            self.c_header.eq(g.in_hdr & stalled & src.ready),
            self.c_copies.eq(g.in_cmd & src.valid & src.ready & (lo == hi)),
            self.c_fields.eq(g.in_cmd & src.ready & changed & (lo[0:4] == g.sub) & (lo[7:11] == g.cmd) & (g.cmd != 0)),
            self.c_crc.eq(g.in_cmd & src.ready & (g.cmd == 0b1011) & (g.sub == 0b0101) & (lo[11:16] == crc)),
            self.c_idle.eq(g.in_idle & (sent != 0) & ~src.valid),
            self.c_done.eq(prev_done & dut.generate & (sent == 1)),
        ]
        self.obs("phase", g.phase)
        self.obs("src_valid", src.valid)
        self.obs("src_data", src.data)
        self.obs("src_ctrl", src.ctrl)
        self.obs("done", dut.done)
        return m


class DetectorHarness(Harness):
    domains = ("ss",)

    def __init__(self):
        super().__init__()
        from luna.gateware.usb.usb3.link.command import LinkCommandDetector
        self.dut = LinkCommandDetector()
        self.inp("valid", signal=self.dut.sink.valid)
        self.inp("data", signal=self.dut.sink.data)
        self.inp("ctrl", signal=self.dut.sink.ctrl)
        self.v_accept = self.viol("good_command_reported")
        self.v_fields = self.viol("reported_fields")
        self.v_mismatch = self.viol("reject_copies_differ")
        self.v_crc = self.viol("reject_bad_crc")
        self.v_ctrl = self.viol("reject_control_symbols")
        self.v_spurious = self.viol("no_report_without_command")
        self.v_stable = self.viol("outputs_change_only_with_report")
        self.c_accept = self.cover("good_command_reported")
        self.c_fields = self.cover("reported_fields_nontrivial")
        self.c_mismatch = self.cover("reject_copies_differ")
        self.c_crc = self.cover("reject_bad_crc")
        self.c_ctrl = self.cover("reject_control_symbols")
        self.c_spurious = self.cover("good_word_without_start_ignored")
        self.c_gap = self.cover("accepted_after_gap")
        self.c_second = self.cover("second_command_changes_outputs")

    def elaborate(self, platform):
        m = Module()
        m.submodules.dut = dut = self.dut
        sink = dut.sink
        m.d.comb += [sink.first.eq(0), sink.last.eq(0), sink.ready.eq(1)]
        is_start = Signal(name="is_start")
        m.d.comb += is_start.eq(sink.valid & (sink.data == LCSTART_DATA) & (sink.ctrl == LCSTART_CTRL))
        armed = Signal(name="armed")            # a start word has been seen; next valid word is the command word
        gap_seen = Signal(name="gap_seen")
        with m.If(armed):
            with m.If(sink.valid):
                m.d.ss += [armed.eq(0), gap_seen.eq(0)]
            with m.Else():
                m.d.ss += gap_seen.eq(1)
        with m.Elif(is_start):
            m.d.ss += armed.eq(1)
        only_data, same, crc_ok = _lcw_ok(m, sink.data, sink.ctrl, "w")
        is_cmd = Signal(name="is_cmd")
        m.d.comb += is_cmd.eq(armed & sink.valid)
        # expectations for the next cycle (the detector's outputs are registered)
        exp_report = Signal(name="exp_report")
        exp_none = Signal(name="exp_none")
        why = Signal(3, name="why")             # bit0 copies differ, bit1 crc wrong, bit2 ctrl present
        exp_cmd = Signal(4, name="exp_cmd")
        exp_sub = Signal(4, name="exp_sub")
        exp_gap = Signal(name="exp_gap")
        good = is_cmd & only_data & same & crc_ok
        m.d.ss += [
            exp_report.eq(good),
            exp_none.eq(~good),
            why.eq(Mux(is_cmd, Cat(~same, ~crc_ok, ~only_data), 0)),
            exp_gap.eq(good & gap_seen),
        ]
        with m.If(good):
            m.d.ss += [exp_cmd.eq(sink.data[7:11]), exp_sub.eq(sink.data[0:4])]
        good_unarmed = Signal(name="good_unarmed")
        m.d.ss += good_unarmed.eq(~armed & sink.valid & only_data & same & crc_ok)

        prev_command = Signal(4, name="prev_command")
        prev_subtype = Signal(4, name="prev_subtype")
        m.d.ss += [prev_command.eq(dut.command), prev_subtype.eq(dut.subtype)]
        reports = Signal(2, name="reports")
        with m.If(dut.new_command & (reports != 3)):
            m.d.ss += reports.eq(reports + 1)
        fields_ok = (dut.command == exp_cmd) & (dut.subtype == exp_sub) & \
                    (dut.command_class == exp_cmd[2:4]) & (dut.command_type == exp_cmd[0:2])
        m.d.comb += [
            self.v_accept.eq(exp_report & ~dut.new_command),
            self.v_fields.eq(dut.new_command & exp_report & ~fields_ok),
            self.v_mismatch.eq(why[0] & dut.new_command),
            self.v_crc.eq(why[1] & dut.new_command),
            self.v_ctrl.eq(why[2] & dut.new_command),
            self.v_spurious.eq(exp_none & (why == 0) & dut.new_command),
            self.v_stable.eq(~dut.new_command & ((dut.command != prev_command) | (dut.subtype != prev_subtype))),
            self.c_accept.eq(exp_report & dut.new_command),
            self.c_fields.eq(exp_report & dut.new_command & fields_ok & (exp_cmd == 0b1001) & (exp_sub == 0b0110)),
            self.c_mismatch.eq((why == 0b001) & ~dut.new_command),
            self.c_crc.eq((why == 0b010) & ~dut.new_command),
            self.c_ctrl.eq((why == 0b100) & ~dut.new_command),
            self.c_spurious.eq(good_unarmed & ~dut.new_command),
            self.c_gap.eq(exp_gap & dut.new_command),
            self.c_second.eq(dut.new_command & (reports == 1) & (dut.command != prev_command)),
        ]
        self.obs("armed", armed)
        self.obs("new_command", dut.new_command)
        self.obs("command", dut.command)
        self.obs("subtype", dut.subtype)
        return m

    def stimulus(self, rng, t, consts):
        r = rng.random()
        d = {"valid": int(rng.random() < 0.8)}
        if r < 0.35:
            d["data"], d["ctrl"] = LCSTART_DATA, LCSTART_CTRL
        elif r < 0.8:
            info = rng.getrandbits(11)
            half = info | (_py_crc5(info) << 11)
            word = half | (half << 16)
            if rng.random() < 0.3:
                word ^= 1 << rng.getrandbits(5)
            d["data"], d["ctrl"] = word, (0 if rng.random() < 0.85 else rng.getrandbits(4))
        else:
            d["data"], d["ctrl"] = rng.getrandbits(32), rng.getrandbits(4)
        return d


def _py_crc5(info):
    reg = 0x1F
    for i in range(11):
        fb = ((info >> i) & 1) ^ ((reg >> 4) & 1)
        reg = ((reg << 1) & 0x1F)
        if fb:
            reg ^= 0b00101
    out = 0
    for i in range(5):          # complemented, MSb first into bit 0 of the field
        out |= (((reg >> (4 - i)) & 1) ^ 1) << i
    return out


class LoopHarness(Harness):
    """Generator -> corruption/stall channel -> Detector"""
    domains = ("ss",)

    def __init__(self):
        super().__init__()
        from luna.gateware.usb.usb3.link.command import LinkCommandGenerator, LinkCommandDetector
        self.gen = LinkCommandGenerator()
        self.det = LinkCommandDetector()
        self.inp("generate", signal=self.gen.generate)
        self.inp("command", signal=self.gen.command)
        self.inp("subtype", signal=self.gen.subtype)
        self.inp("ready", signal=self.gen.source.ready)
        self.mask = self.inp("mask", 36)
        self.v_round = self.viol("roundtrip_exact")
        self.v_reject = self.viol("corrupted_rejected")
        self.v_alias = self.viol("aliased_reported_as_received")
        self.v_spurious = self.viol("report_only_after_command_word")
        self.c_round = self.cover("roundtrip_exact")
        self.c_round2 = self.cover("two_roundtrips_different")
        self.c_reject = self.cover("corrupted_rejected")
        self.c_alias = self.cover("aliased_reported_as_received")
        self.c_stall = self.cover("roundtrip_with_stalls")

    def elaborate(self, platform):
        m = Module()
        m.submodules.gen = gen = self.gen
        m.submodules.det = det = self.det
        src, sink = gen.source, det.sink
        g = _GenSpec(m, gen, gen.generate, gen.command, gen.subtype)
        use_mask = Signal(36, name="use_mask")
        m.d.comb += use_mask.eq(Mux(g.in_cmd, self.mask, 0))
        m.d.comb += [
            sink.valid.eq(src.valid & src.ready),
            sink.data.eq(src.data ^ use_mask[0:32]),
            sink.ctrl.eq(src.ctrl ^ use_mask[32:36]),
            sink.first.eq(0), sink.last.eq(0), sink.ready.eq(1),
        ]
        only_data, same, crc_ok = _lcw_ok(m, sink.data, sink.ctrl, "rx")
        xfer_cmd = Signal(name="xfer_cmd")
        m.d.comb += xfer_cmd.eq(g.in_cmd & src.valid & src.ready)
        clean = Signal(name="clean")
        m.d.comb += clean.eq(use_mask == 0)
        rx_good = only_data & same & crc_ok
        e_round = Signal(name="e_round")
        e_reject = Signal(name="e_reject")
        e_alias = Signal(name="e_alias")
        e_any = Signal(name="e_any")
        e_cmd = Signal(4, name="e_cmd")
        e_sub = Signal(4, name="e_sub")
        e_stalled = Signal(name="e_stalled")
        stalled = Signal(2, name="stalled")
        with m.If(g.in_idle):
            m.d.ss += stalled.eq(0)
        with m.Elif(g.in_hdr & ~src.ready):
            m.d.ss += stalled.eq(stalled | 1)
        with m.Elif(g.in_cmd & ~src.ready):
            m.d.ss += stalled.eq(stalled | 2)
        m.d.ss += [
            e_round.eq(xfer_cmd & clean),
            e_reject.eq(xfer_cmd & ~rx_good),
            e_alias.eq(xfer_cmd & ~clean & rx_good),
            e_any.eq(xfer_cmd),
            e_stalled.eq(stalled == 3),
        ]
        with m.If(xfer_cmd):
            m.d.ss += [e_cmd.eq(Mux(clean, g.cmd, sink.data[7:11])), e_sub.eq(Mux(clean, g.sub, sink.data[0:4]))]
        fields_ok = (det.command == e_cmd) & (det.subtype == e_sub) & \
                    (det.command_class == e_cmd[2:4]) & (det.command_type == e_cmd[0:2])
        rounds = Signal(2, name="rounds")
        first_cmd = Signal(4, name="first_cmd")
        with m.If(e_round & det.new_command & (rounds != 3)):
            m.d.ss += rounds.eq(rounds + 1)
            with m.If(rounds == 0):
                m.d.ss += first_cmd.eq(det.command)
        m.d.comb += [
            self.v_round.eq(e_round & ~(det.new_command & fields_ok)),
            self.v_reject.eq(e_reject & det.new_command),
            self.v_alias.eq(e_alias & ~(det.new_command & fields_ok)),
            self.v_spurious.eq(~e_any & det.new_command),
            self.c_round.eq(e_round & det.new_command & fields_ok),
            self.c_round2.eq(e_round & det.new_command & fields_ok & (rounds == 1) & (det.command != first_cmd)),
            self.c_reject.eq(e_reject & ~det.new_command),
            self.c_alias.eq(e_alias & det.new_command & fields_ok),
            self.c_stall.eq(e_round & det.new_command & e_stalled),
        ]
        self.obs("phase", g.phase)
        self.obs("new_command", det.new_command)
        self.obs("command", det.command)
        self.obs("subtype", det.subtype)
        self.obs("wire_data", sink.data)
        self.obs("wire_ctrl", sink.ctrl)
        self.obs("wire_valid", sink.valid)
        return m

    def stimulus(self, rng, t, consts):
        d = super().stimulus(rng, t, consts)
        d["generate"] = int(rng.random() < 0.5)
        d["ready"] = int(rng.random() < 0.7)
        r = rng.random()
        d["mask"] = 0 if r < 0.6 else (1 << rng.randrange(36)) if r < 0.9 else rng.getrandbits(36)
        return d


def _inv(kind):
    """IND strengthening: ghost protocol phase == DUT FSM state (looked up by name; layer skipped if absent)"""
    def inv(ts, frame, h):
        import z3
        conds, names = [], []

        def get(*ns):
            sigs = [ts.signal_by_name(n) for n in ns]
            names.extend(ns)
            return None if any(x is None for x in sigs) else [frame.sig(x) for x in sigs]
        if kind in ("gen", "loop"):
            pre = "dut" if kind == "gen" else "gen"
            v = get("g_phase", f"{pre}.fsm_state", "g_cmd", "g_sub", f"{pre}.latched_command", f"{pre}.latched_subtype")
            if v is None:
                return None, names
            ph, st, gc, gs, lc, ls = v
            conds += [ph == st, z3.ULE(ph, 2), z3.Implies(ph != 0, z3.And(gc == lc, gs == ls))]
        if kind == "det":
            v = get("armed", "dut.fsm_state")
            if v is None:
                return None, names
            conds.append(v[0] == v[1])
        if kind == "loop":
            v = get("g_phase", "det.fsm_state")
            if v is None:
                return None, names
            conds.append((v[1] == 1) == (v[0] == 2))
        return conds, ["ghost phase == FSM state", "ghost latched fields == DUT latched fields"]
    return inv


def queries(tier):
    quick = tier == "quick"
    ind = [Query(f"ind_{n}", f, 2, kind="ind", invariants=_inv(k), timeout=600,
                 desc="2-step induction from an arbitrary state (unbounded length); invariant: ghost protocol phase == FSM state")
           for n, f, k in (("generator", GeneratorHarness, "gen"), ("detector", DetectorHarness, "det"), ("loop", LoopHarness, "loop"))]
    return ind + [
        Query("bmc_generator", GeneratorHarness, 12 if quick else 18, timeout=600,
              desc="generator alone: generate/command/subtype/ready free every cycle; wire format, CRC-5, done"),
        Query("bmc_detector", DetectorHarness, 8 if quick else 12, timeout=600,
              desc="detector alone: every word (valid, data, ctrl) free every cycle; accept iff start word + clean command word"),
        Query("bmc_loop", LoopHarness, 12 if quick else 18, timeout=600,
              desc="generator -> detector with free stalls and a free 36-bit corruption mask on the command word"),
        Query("cosim_generator", GeneratorHarness, 0, kind="cosim", cosim_cycles=300 if quick else 1500),
        Query("cosim_detector", DetectorHarness, 0, kind="cosim", cosim_cycles=300 if quick else 1500),
        Query("cosim_loop", LoopHarness, 0, kind="cosim", cosim_cycles=300 if quick else 1500),
    ]
