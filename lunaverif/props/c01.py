"""C01 -- USB2 tokens are reported iff well-formed and addressed to the device.

DUT: luna.gateware.usb.usb2.packet.USBTokenDetector (real class, with its internal USBInterpacketTimer).
The monitor records the bytes of every UTMI receive packet and decides, from the USB 2.0 definition alone
(PID check nibble, token-class PID, bit-serial CRC5, address match), what the detector must report in the
cycle after the packet ends.
"""
from amaranth import *
from ..harness import Harness
from ..engine import Query
from ..lib.usb2 import PacketSpy, crc5_serial, utmi_rx_contract, PID_SOF, PID_IN, PID_OUT, PID_SETUP, PID_PING

PROP = "C01"
ENCODED = ["luna/gateware/usb/usb2/packet.py: USBTokenDetector.elaborate (FSM, address filter), "
           "USBTokenDetector._generate_crc_for_token, USBInterpacketTimer (ready_for_response)"]
ASSUMPTIONS = [
    "UTMI receive contract: rx_valid only while rx_active and not in the first rx_active cycle",
    "speed is constant and one of HIGH/FULL/LOW (FULL in the fs_only configuration); device address constant",
]
BOUNDS = "BMC from reset, K=14 (quick) / K=20 (thorough) cycles, rx_data/rx_active/rx_valid free every cycle, " \
         "7-bit address symbolic; configurations (60 MHz, HS/FS/LS) and (12 MHz, fs_only)"
OUTSIDE = "histories longer than K cycles (the FSM returns to IDLE at every packet end, so longer histories are " \
          "concatenations of covered packet shapes, but this is not proved); response-timer values larger than K"


class TokenHarness(Harness):
    def __init__(self, domain_clock=60e6, fs_only=False):
        super().__init__()
        from luna.gateware.interface.utmi import UTMIInterface
        from luna.gateware.usb.usb2.packet import USBTokenDetector
        self.utmi = UTMIInterface()
        self.dut = USBTokenDetector(utmi=self.utmi, domain_clock=domain_clock, fs_only=fs_only)
        self.fs_only = fs_only
        self.domain_clock = domain_clock
        self.inp("rx_data", signal=self.utmi.rx_data)
        self.inp("rx_active", signal=self.utmi.rx_active)
        self.inp("rx_valid", signal=self.utmi.rx_valid)
        self.inp("address", signal=self.dut.address, const=True)
        self.inp("speed", signal=self.dut.speed, const=True)
        names = ["new_token", "token_fields", "new_frame", "frame", "is_flags", "foreign_clears_pid",
                 "ready_for_response", "fields_stable"]
        self.v = {n: self.viol(n) for n in names}
        self.c = {n: self.cover(n) for n in ["token", "sof", "ping", "foreign", "badcrc", "long", "short", "rfr",
                                             "two_tokens"]}
        self.a_utmi = self.assume("utmi_rx")
        self.a_speed = self.assume("speed")

    def elaborate(self, platform):
        m = Module()
        m.submodules.dut = self.dut
        u, itf = self.utmi, self.dut.interface
        m.d.comb += self.a_utmi.eq(utmi_rx_contract(m, "usb", u.rx_active, u.rx_valid))
        if self.fs_only:
            m.d.comb += self.a_speed.eq(self.dut.speed == 1)
        else:
            m.d.comb += self.a_speed.eq(self.dut.speed != 3)

        spy = PacketSpy(m, "usb", u.rx_data, u.rx_active, u.rx_valid, 3)
        b0, b1, b2 = spy.bytes
        pid = b0[0:4]
        nibble_ok = (b0[0:4] == ~b0[4:8])
        field11 = Signal(11)
        m.d.comb += field11.eq(Cat(b1, b2[0:3]))
        crc = crc5_serial(m, field11)
        crc_ok = (b2[3:8] == crc)
        is_tok_pid = (pid == PID_IN) | (pid == PID_OUT) | (pid == PID_SETUP) | (pid == PID_PING)
        wellformed = Signal()
        m.d.comb += wellformed.eq(spy.end & (spy.count == 3) & nibble_ok & crc_ok)
        for_us = (field11[0:7] == self.dut.address)
        want_token = Signal()
        want_frame = Signal()
        want_foreign = Signal()
        m.d.comb += [
            want_token.eq(wellformed & is_tok_pid & for_us),
            want_frame.eq(wellformed & (pid == PID_SOF)),
            want_foreign.eq(wellformed & is_tok_pid & ~for_us),
        ]
        # expectations for the next cycle
        e_token, e_frame, e_foreign = Signal(), Signal(), Signal()
        e_pid, e_f11 = Signal(4), Signal(11)
        m.d.usb += [e_token.eq(want_token), e_frame.eq(want_frame), e_foreign.eq(want_foreign),
                    e_pid.eq(pid), e_f11.eq(field11)]
        m.d.comb += [
            self.v["new_token"].eq(itf.new_token != e_token),
            self.v["token_fields"].eq(e_token & ((itf.pid != e_pid) | (itf.address != e_f11[0:7]) |
                                                 (itf.endpoint != e_f11[7:11]))),
            self.v["new_frame"].eq(itf.new_frame != e_frame),
            self.v["frame"].eq(e_frame & (itf.frame != e_f11)),
            self.v["is_flags"].eq((itf.is_in != (itf.pid == PID_IN)) | (itf.is_out != (itf.pid == PID_OUT)) |
                                  (itf.is_setup != (itf.pid == PID_SETUP)) | (itf.is_ping != (itf.pid == PID_PING))),
            # a well-formed token for another device must leave no stale token state behind
            self.v["foreign_clears_pid"].eq(e_foreign & (itf.is_in | itf.is_out | itf.is_setup | itf.is_ping)),
        ]
        # reported fields only change together with an event (or are cleared by a foreign token)
        p_pid, p_addr, p_ep, p_frame = Signal(4), Signal(7), Signal(4), Signal(11)
        started = Signal()
        m.d.usb += [p_pid.eq(itf.pid), p_addr.eq(itf.address), p_ep.eq(itf.endpoint), p_frame.eq(itf.frame),
                    started.eq(1)]
        m.d.comb += self.v["fields_stable"].eq(started & (
            (~e_token & ~e_foreign & (itf.pid != p_pid)) |
            (~e_token & ((itf.address != p_addr) | (itf.endpoint != p_ep))) |
            (~e_frame & (itf.frame != p_frame))))
        # ready_for_response: exactly `min gap` cycles after the cycle in which the token is reported
        from ..props.c05 import spec_cycles
        exp = spec_cycles(self.domain_clock)
        since = Signal(11)       # cycles since the last accepted token was reported (or since reset)
        with m.If(want_token):
            m.d.usb += since.eq(0)
        with m.Elif(since != 0x7ff):
            m.d.usb += since.eq(since + 1)
        for sp in ([1] if self.fs_only else [0, 1, 2]):
            with m.If(self.dut.speed == sp):
                m.d.comb += self.v["ready_for_response"].eq(itf.ready_for_response != (since == min(exp[sp][0])))
        # covers
        ntok = Signal(2)
        with m.If(itf.new_token & (ntok != 3)):
            m.d.usb += ntok.eq(ntok + 1)
        m.d.comb += [
            self.c["token"].eq(itf.new_token & ~itf.is_ping),
            self.c["ping"].eq(itf.new_token & itf.is_ping),
            self.c["sof"].eq(itf.new_frame),
            self.c["foreign"].eq(e_foreign),
            self.c["badcrc"].eq(spy.end & (spy.count == 3) & nibble_ok & ~crc_ok & is_tok_pid),
            self.c["long"].eq(spy.end & (spy.count == 4)),
            self.c["short"].eq(spy.end & (spy.count == 2)),
            self.c["rfr"].eq(itf.ready_for_response & (ntok != 0)),
            self.c["two_tokens"].eq(ntok == 2),
        ]
        return m

    def stimulus(self, rng, t, consts):
        # protocol-aware random stimulus for co-simulation: mostly legal packets, many of them valid tokens
        if not hasattr(self, "_script"):
            self._script = []
        if not self._script:
            addr = consts["address"]
            kind = rng.random()
            pid = rng.choice([PID_IN, PID_OUT, PID_SETUP, PID_PING, PID_SOF, rng.randrange(16)])
            b0 = ((~pid & 0xf) << 4) | pid
            f11 = (addr if rng.random() < 0.6 else rng.randrange(128)) | (rng.randrange(16) << 7)
            reg = 0x1f
            for i in range(11):
                fb = ((f11 >> i) & 1) ^ (reg >> 4)
                reg = ((reg << 1) & 0x1f) ^ (5 if fb else 0)
            crc = 0
            for k in range(5):
                crc |= ((~(reg >> (4 - k))) & 1) << k
            if kind < 0.15:
                crc ^= 1 << rng.randrange(5)
            data = [b0, f11 & 0xff, (f11 >> 8) | (crc << 3)]
            if kind > 0.9:
                data = data[:rng.randrange(1, 3)]
            elif kind > 0.8:
                data.append(rng.randrange(256))
            seq = [(0, 1, 0)]
            for d in data:
                while rng.random() < 0.3:
                    seq.append((rng.randrange(256), 1, 0))
                seq.append((d, 1, 1))
            seq += [(0, 0, 0)] * rng.randrange(1, 4)
            self._script = seq
        d, a, v = self._script.pop(0)
        return dict(rx_data=d, rx_active=a, rx_valid=v, address=consts["address"], speed=consts["speed"])

    def const_stimulus(self, rng):
        return dict(address=rng.randrange(128), speed=1 if self.fs_only else rng.randrange(3))


def queries(tier):
    qs = []
    for tag, clk, fso in (("60M", 60e6, False), ("12M_fsonly", 12e6, True)):
        f = (lambda clk=clk, fso=fso: TokenHarness(clk, fso))
        K = 14 if tier == "quick" else 20
        qs.append(Query(f"bmc_{tag}", f, K, timeout=900, covers=[] if fso else None,
                        desc=f"{tag}: all UTMI receive histories of {K} cycles, symbolic address and speed"))
        if tier == "thorough":
            qs.append(Query(f"bmc_deep_{tag}", f, 26, timeout=900, covers=[], required=False,
                            layer={},
                            desc=f"{tag}: best-effort deeper run K=26"))
        qs.append(Query(f"cosim_{tag}", f, 0, kind="cosim", cosim_cycles=300 if tier == "quick" else 3000))
    return qs
