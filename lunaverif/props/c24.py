"""C24 -- ULPI control registers always converge to the requested UTMI settings.

DUT: luna.gateware.interface.ulpi.UTMITranslator (real ULPIControlTranslator + ULPIRegisterWindow + transmit
translator + their bus_idle cross-gating), ULPI bus object without `rst`, handle_clocking=False.
Environment: shared ULPI PHY model (lib/ulpi.py) with its ghost register file; UTMI control inputs free every cycle;
UTMI transmit producer.  Oracle: the PHY's ghost Function Control / OTG Control registers (updated only by RegWrite
commands the PHY-side decoder saw complete) against the composites computed here from the ULPI 1.1 register layouts.
Liveness is checked as bounded response under a fairness assumption on the PHY (a presented byte is accepted within
two cycles).

FINDINGS (genuine defects of the anchored code found by this check; repaired in /repo by findings/C24_regwrite_latch.patch
and findings/C24_tx_arbitration.patch; the scenario predicates kf_* that used to mask them are gone, every assertion is
checked in every history; the check is green on the repaired tree):
  A. tx_and_regwrite_same_cycle_deadlock -- a transmission that is waiting to start (tx_valid, DIR low) in the cycle in
     which the control translator requests a write: ulpi_out_req was latched, control_translator.busy (registered) then
     removed bus_idle from the transmitter, the data mux gave the silent transmitter priority over the register
     window: neither the TXCMD nor the RegWrite ever reached the bus (viol tx_progress).  Reached from reset with the
     ordinary full-speed setting (xcvr_select=1, term_select=1) and tx_valid from step 0.
  B. regwrite_requested_during_txcmd -- a control input changes while the TXCMD byte is on the bus (the transmitter
     only counted as busy after NXT): the register window performed its write "under" the transmission, took the
     transmission's NXT for its own and reported done (shadow register updated, PHY register not: viol converge) or let
     its data/STP out when the transmission ended (viol link_framing/write_addr/write_value).
     Repair of A and B: ULPITransmitTranslator.busy also covers the cycles in which a TXCMD is presented, and
     ulpi_out_req is released whenever no command can be presented.
  C. control_input_changed_while_write_in_flight -- ULPIRegisterWindow used the live, re-multiplexed address /
     write_data (its current_address/current_write latches were unused) and ULPIControlTranslator credited `done` to the
     live priority winner with the live write_value: RegWrite to address 0x00 when the inputs changed back
     (viol write_addr), Function Control's value written to the OTG Control address (viol write_value), shadow
     register updated to a value the PHY never received so the PHY register stayed wrong for ever (viol converge).
     Repair: the window uses its latches; the translator marks the register whose write the window accepted
     (write_pending), holds the value handed over and credits `done` to that register with that value.
"""
from amaranth import *
from ..harness import Harness
from ..engine import Query
from ..lib.ulpi import ULPIBus, ULPIPhyModel, FUNC_CTRL, OTG_CTRL

PROP = "C24"
ENCODED = [
    "luna/gateware/interface/ulpi.py: ULPIControlTranslator.add_composite_register/populate_ulpi_registers/elaborate "
    "(shadow registers, write_value/write_pending tracking, priority mux onto the register window)",
    "luna/gateware/interface/ulpi.py: ULPIRegisterWindow.elaborate (write FSM, current_address/current_write latches, DIR aborts)",
    "luna/gateware/interface/ulpi.py: UTMITranslator.elaborate (bus_idle cross-gating, data/stp mux)",
    "luna/gateware/interface/ulpi.py: ULPITransmitTranslator.elaborate (busy, ulpi_out_req while waiting for the bus)",
]
ASSUMPTIONS = [
    "ULPI PHY contract of lib/ulpi.py (turnaround, NXT only to accept presented command bytes, DIR may abort a register "
    "write in any phase and a transmit command before its TXCMD byte was accepted, not afterwards)",
    "fairness (for the bounded-response assertions only, exported as assume_phy_fair): a command/data byte the link "
    "presents with DIR low is accepted by the PHY at the latest in the second cycle it is on the bus",
    "UTMI producer: tx_valid/tx_data held until tx_ready; tx_valid falls only after an accepted byte",
    "requested composites: Function Control = {0, ~suspend, 0, op_mode, term_select, xcvr_select}, OTG Control = "
    "{use_external_vbus_indicator, 0, 0, chrg_vbus, dischrg_vbus, dm_pulldown, dp_pulldown, id_pullup} (ULPI 1.1 "
    "section 4.2.x); PHY register reset values 0x41 / 0x06",
    "bounded response: registers equal the request once inputs were stable, DIR low and no transmission for "
    "CONVERGE cycles; a transmit command is accepted within TX_BOUND cycles of tx_valid with DIR low",
]
CONVERGE = 24
TX_BOUND = 24
BOUNDS = "BMC from reset; control inputs free every cycle (layers: constant / free), DIR/NXT free within contract + " \
         "fairness; quick K=28 (26 fully free, 32-34 convergence-only / progress-only), thorough K=40 (38 fully free, 44-46 " \
         "convergence-only / progress-only)"
OUTSIDE = "unbounded liveness (only the stated cycle bounds); extra registers (add_extra_register); PHYs slower than " \
          "the fairness bound; register reads; K beyond the bounds"


class CtrlHarness(Harness):
    domains = ("usb",)

    def __init__(self, const_ctrl=False, with_tx=True):
        super().__init__()
        from luna.gateware.interface.ulpi import UTMITranslator
        self.bus = ULPIBus()
        self.dut = UTMITranslator(ulpi=self.bus, handle_clocking=False)
        self.phy = ULPIPhyModel(self, self.bus)
        self.with_tx = with_tx
        if with_tx:
            self.inp("tx_valid", signal=self.dut.tx_valid)
            self.inp("tx_data", signal=self.dut.tx_data)
            self.a_prod = self.assume("utmi_producer")
        for name, _ in self.dut.CONTROL_SIGNALS:
            self.inp(name, signal=getattr(self.dut, name), const=const_ctrl)
        self.w = self.inp("w", 8, const=True)            # tracked write value
        self.a_fair = self.assume("phy_fair")
        names = ["write_addr", "write_value", "converge", "tx_progress", "link_framing", "cmd_held"]
        self.v = {n: self.viol(n) for n in names}
        cov = ["fc_written", "otg_written", "both_written", "aborted_then_written", "converged_after_write",
               "change_in_flight", "tx_after_write", "write_after_tx", "tx_and_write_same_cycle", "change_during_txcmd"]
        self.c = {n: self.cover(n) for n in cov}

    def elaborate(self, platform):
        m = Module()
        m.submodules.dut = dut = self.dut
        phy, bus = self.phy, self.bus
        phy.build(m)
        d = m.d.usb
        v, c = self.v, self.c
        dir_, nxt, do, stp = bus.dir.i, bus.nxt.i, bus.data.o, bus.stp.o
        tx_valid = dut.tx_valid if self.with_tx else Const(0)
        if self.with_tx:
            p_valid, p_ready, p_data = Signal(name="p_valid"), Signal(name="p_ready"), Signal(8, name="p_data")
            d += [p_valid.eq(dut.tx_valid), p_ready.eq(dut.tx_ready), p_data.eq(dut.tx_data)]
            m.d.comb += self.a_prod.eq(~(p_valid & ~p_ready) | (dut.tx_valid & (dut.tx_data == p_data)))

        # ---- requested register contents (from the ULPI register layouts)
        req_fc, req_otg = Signal(8, name="req_fc"), Signal(8, name="req_otg")
        m.d.comb += [
            req_fc.eq(Cat(dut.xcvr_select, dut.term_select, dut.op_mode, Const(0, 1), ~dut.suspend, Const(0, 1))),
            req_otg.eq(Cat(dut.id_pullup, dut.dp_pulldown, dut.dm_pulldown, dut.dischrg_vbus, dut.chrg_vbus,
                           Const(0, 2), dut.use_external_vbus_indicator)),
        ]
        self.obs("req_fc", req_fc)
        self.obs("req_otg", req_otg)
        p_fc, p_otg = Signal(8, name="p_req_fc", init=0xFF), Signal(8, name="p_req_otg", init=0xFF)
        d += [p_fc.eq(req_fc), p_otg.eq(req_otg)]
        changed = Signal(name="ctrl_changed")
        m.d.comb += changed.eq((p_fc != req_fc) | (p_otg != req_otg))

        # ---- fairness: a waiting byte is accepted in its second cycle at the latest
        waiting = Signal(name="byte_waiting")
        m.d.comb += waiting.eq(~dir_ & ~nxt & ~stp & (phy.cmd_present | phy.in_state(phy.TX) | phy.in_state(phy.RW_DATA)))
        p_waiting = Signal(name="p_byte_waiting")
        d += p_waiting.eq(waiting)
        m.d.comb += self.a_fair.eq(~(p_waiting & waiting))

        # ---- clause: each write carries the value for the register it addresses
        # tracked value w: was w requested for FC / OTG since that register's previous completed write?
        fc_seen, otg_seen = Signal(name="fc_seen_w"), Signal(name="otg_seen_w")
        commit_fc = phy.rw_commit & (phy.rw_addr == FUNC_CTRL)
        commit_otg = phy.rw_commit & (phy.rw_addr == OTG_CTRL)
        with m.If(commit_fc):
            d += fc_seen.eq(req_fc == self.w)
        with m.Elif(req_fc == self.w):
            d += fc_seen.eq(1)
        with m.If(commit_otg):
            d += otg_seen.eq(req_otg == self.w)
        with m.Elif(req_otg == self.w):
            d += otg_seen.eq(1)
        is_w = phy.rw_data == self.w
        m.d.comb += [
            v["write_addr"].eq(phy.rw_commit & ~commit_fc & ~commit_otg),
            v["write_value"].eq((commit_fc & is_w & ~(fc_seen | (req_fc == self.w))) |
                                (commit_otg & is_w & ~(otg_seen | (req_otg == self.w)))),
            v["link_framing"].eq(phy.link_err),
        ]
        # a presented register-write command byte / data byte stays unchanged until accepted or aborted by DIR
        p_hold, p_do = Signal(name="p_hold"), Signal(8, name="p_do")
        d += [p_hold.eq((phy.cmd_rw | phy.in_state(phy.RW_DATA)) & ~nxt & ~dir_), p_do.eq(do)]
        m.d.comb += v["cmd_held"].eq(p_hold & ~dir_ & (do != p_do))

        # ---- clause: once no change is pending and the bus is idle, the PHY's registers equal the request
        quiet = Signal(range(CONVERGE + 1), name="quiet")
        busy_bus = dir_ | tx_valid | phy.in_state(phy.TX)
        with m.If(changed | busy_bus):
            d += quiet.eq(0)
        with m.Elif(quiet != CONVERGE):
            d += quiet.eq(quiet + 1)
        regs_ok = (phy.reg_fc == req_fc) & (phy.reg_otg == req_otg)
        m.d.comb += v["converge"].eq((quiet == CONVERGE) & ~changed & ~busy_bus & ~regs_ok)

        # ---- clause: writes and transmissions never block each other indefinitely (bounded)
        txw = Signal(range(TX_BOUND + 1), name="tx_wait")
        with m.If(~tx_valid | dir_ | phy.in_state(phy.TX) | phy.txcmd_acc):
            d += txw.eq(0)
        with m.Elif(txw != TX_BOUND):
            d += txw.eq(txw + 1)
        m.d.comb += v["tx_progress"].eq(txw == TX_BOUND)

        # ---- covers
        fc_w, otg_w, ab, wr_any, tx_done = (Signal(name=n) for n in ("fc_w", "otg_w", "ab", "wr_any", "tx_done"))
        with m.If(commit_fc):
            d += fc_w.eq(1)
        with m.If(commit_otg):
            d += otg_w.eq(1)
        with m.If(phy.rw_abort):
            d += ab.eq(1)
        with m.If(phy.rw_commit):
            d += wr_any.eq(1)
        with m.If(phy.tx_stp):
            d += tx_done.eq(1)
        inflight = phy.cmd_rw | phy.in_state(phy.RW_DATA) | phy.in_state(phy.RW_STP)
        chg_fl = Signal(name="chg_in_flight")
        with m.If(changed & inflight):
            d += chg_fl.eq(1)
        # the coincidences of the repaired findings A and B (formerly kf scenarios) are reached and resolved:
        # A: a transmission waits to start (TXCMD not yet on the bus) in a cycle in which a register write is wanted or
        #    running -- afterwards both the transmission and a register write complete;
        # B: a register write becomes wanted while the TXCMD byte is on the bus -- the transmission completes and
        #    afterwards the write.
        write_wanted = (req_fc != phy.reg_fc) | (req_otg != phy.reg_otg)
        tx_pending = tx_valid & ~phy.in_state(phy.TX)
        race_a, race_a_tx, race_a_wr = Signal(name="race_a"), Signal(name="race_a_tx"), Signal(name="race_a_wr")
        race_b, race_b_tx = Signal(name="race_b"), Signal(name="race_b_tx")
        with m.If(tx_pending & ~phy.cmd_tx & ~dir_ & (write_wanted | inflight)):
            d += race_a.eq(1)
        with m.If(race_a & phy.tx_stp):
            d += race_a_tx.eq(1)
        with m.If(race_a & phy.rw_commit):
            d += race_a_wr.eq(1)
        with m.If(phy.cmd_tx & write_wanted & ~inflight):
            d += race_b.eq(1)
        with m.If(race_b & phy.tx_stp):
            d += race_b_tx.eq(1)
        m.d.comb += [
            c["tx_and_write_same_cycle"].eq((race_a_tx & phy.rw_commit) | (race_a_wr & phy.tx_stp)),
            c["change_during_txcmd"].eq(race_b_tx & ((commit_fc & (phy.rw_data == req_fc)) |
                                                        (commit_otg & (phy.rw_data == req_otg)))),
            c["fc_written"].eq(commit_fc & (phy.rw_data == req_fc) & (req_fc != 0x41)),
            c["otg_written"].eq(commit_otg & (phy.rw_data == req_otg)),
            c["both_written"].eq((commit_otg & fc_w) | (commit_fc & otg_w)),
            c["aborted_then_written"].eq(phy.rw_commit & ab),
            c["converged_after_write"].eq((quiet == CONVERGE) & regs_ok & wr_any),
            c["change_in_flight"].eq(phy.rw_commit & chg_fl),
            c["tx_after_write"].eq(phy.tx_stp & wr_any),
            c["write_after_tx"].eq(phy.rw_commit & tx_done),
        ]
        return m

    def stimulus(self, rng, t, consts):
        st = self.__dict__.setdefault("_st", {})
        out = dict(consts)
        out.update(self.phy.stimulus(rng, st))
        for name, (sig, const) in self._inputs.items():
            if name in out:
                continue
            if name in ("tx_valid", "tx_data"):
                out[name] = rng.getrandbits(len(sig)) if name == "tx_data" else int(rng.random() < 0.2)
            else:
                # control inputs: change rarely
                prev = st.setdefault("ctrl", {})
                if name not in prev or rng.random() < 0.05:
                    prev[name] = rng.getrandbits(len(sig))
                out[name] = prev[name]
        return out


def queries(tier):
    quick = tier == "quick"
    K = 28 if quick else 40
    f_const_notx = lambda: CtrlHarness(const_ctrl=True, with_tx=False)
    f_const = lambda: CtrlHarness(const_ctrl=True, with_tx=True)
    f_free_notx = lambda: CtrlHarness(const_ctrl=False, with_tx=False)
    f_free = lambda: CtrlHarness(const_ctrl=False, with_tx=True)
    nochange_cov = ["fc_written", "otg_written", "both_written", "aborted_then_written", "converged_after_write"]
    qs = [
        Query("bmc_startup", f_const_notx, K, covers=nochange_cov, timeout=900,
              desc="layer: control inputs constant (symbolic) from reset, no transmission: the start-up writes"),
        Query("bmc_startup_converge", f_const_notx, K + 6, asserts=["converge"], covers=[], timeout=900,
              desc="layer: as bmc_startup, deeper, convergence assertion only (a start-up write aborted by DIR in its "
                   "STP cycle plus the 24-cycle convergence bound needs 32 steps)"),
        Query("bmc_startup_tx", f_const, K, covers=["tx_after_write"], timeout=900,
              desc="layer: control inputs constant (symbolic), transmit side free: start-up writes against transmissions"),
        Query("bmc_changes", f_free_notx, K, covers=["change_in_flight"], timeout=900,
              desc="layer: control inputs free every cycle, no transmission"),
        Query("bmc_changes_converge", f_free_notx, K + 4, asserts=["converge"], covers=[], timeout=900,
              desc="layer: as bmc_changes, deeper, convergence assertion only (a change in flight at step >= 4 plus the "
                   "24-cycle convergence bound)"),
        Query("bmc_free", f_free, K - 2, covers=["write_after_tx", "tx_and_write_same_cycle", "change_during_txcmd"],
              timeout=900,
              desc="control inputs free every cycle, transmit side free, DIR/NXT free within contract and fairness"),
        Query("bmc_free_tx_progress", f_free, K + 4, asserts=["tx_progress"], covers=[], timeout=900,
              desc="as bmc_free, deeper, transmit-progress assertion only (a TXCMD aborted by DIR, a register write "
                   "requested under DIR, plus the 24-cycle progress bound needs about 30 steps)"),
        Query("cosim", f_free, 0, kind="cosim", cosim_cycles=300 if quick else 2000),
    ]
    return qs
