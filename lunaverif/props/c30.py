"""C30 -- every CRC implementation equals its standard (bit-serial) definition.

Oracle: one generic bit-serial CRC (`serial_crc`) written from the specification text: shift register with the
highest power in the top bit, feedback = data bit XOR top bit, data bits in transmission order (LSB of byte 0
first), initial value all ones, result complemented and sent highest power first.  The same Python function
runs on ints (validated at import against zlib.crc32 and the packet vectors embedded in the repo's tests /
usb.org crcdes.pdf) and on Amaranth bits (the monitor).

Two kinds of harness per CRC:
  * the repo's *step function* called on a free state and free data (COMB = BMC K=1: all states x all inputs);
  * the repo's *wrapper class* next to a ghost register that follows the specification; BMC from reset and a
    2-induction from an arbitrary register value (all 2^k states of the real register, all inputs, all
    control combinations the users can produce).
"""
import struct
import zlib

from amaranth import *
from ..harness import Harness
from ..engine import Query
import z3

PROP = "C30"
ENCODED = [
    "luna/gateware/usb/usb2/packet.py: USBTokenDetector._generate_crc_for_token (token CRC5 equations)",
    "luna/gateware/usb/usb2/packet.py: USBDataPacketCRC._generate_next_crc + elaborate (CRC16 step, clear/rx/tx, output mapping)",
    "luna/gateware/usb/usb3/link/crc.py: compute_usb_crc5 (link command / link control word CRC5)",
    "luna/gateware/usb/usb3/link/crc.py: HeaderPacketCRC._generate_next_crc + elaborate (CRC16, 32 bits per step)",
    "luna/gateware/usb/usb3/link/crc.py: DataPacketPayloadCRC._generate_next_{full,3B,2B,1B}_crc + elaborate (CRC32)",
]
ASSUMPTIONS = [
    "USBDataPacketCRC: rx_valid and tx_valid are never high together (UTMI is half duplex); `start` has priority "
    "over data (the receiver asserts start together with the PID byte, which is not part of the CRC)",
    "DataPacketPayloadCRC: at most one of advance_word/3B/2B/1B per cycle (all users decode them from one "
    "`valid` mask); `clear` has priority over advance (both wrappers)",
    "partial-word variants take the low 1/2/3 bytes of data_input (the bytes transmitted first), as the class documents",
]
BOUNDS = "COMB (K=1) over all register states and all data for every step function; wrappers: BMC from reset " \
         "(USB2 CRC16 K=6 quick / K=10 thorough, everything free; USB3 CRC16/CRC32: K=5 with free controls and fixed " \
         "data words in quick, plus K=1..2 with free data in thorough -- deeper free unrollings of the 32-bit " \
         "XOR networks do not finish), plus the induction step from an arbitrary register value (all states, unbounded histories)"
OUTSIDE = "the comparison sites that accept/reject packets (token detector, data receiver, link command / header " \
          "packet receivers) are checked by C01/C02/C35/C36; initial_value constructor arguments other than the USB default"

# polynomial taps below the top power
CRC5_TAPS = (0, 2)                                   # x^5 + x^2 + 1
CRC16_USB2_TAPS = (0, 2, 15)                         # x^16 + x^15 + x^2 + 1
CRC16_USB3_TAPS = (0, 1, 3, 12)                      # x^16 + x^12 + x^3 + x + 1   (0x100B)
CRC32_TAPS = (0, 1, 2, 4, 5, 7, 8, 10, 11, 12, 16, 22, 23, 26)   # 0x04C11DB7


def serial_crc(reg, bits, taps, stage=None, every=1):
    """reg: list of bits (index = power of x); bits: data bits in transmission order.
    Works on python ints and on 1-bit Amaranth values.  `stage(list)->list` names intermediate results."""
    n = len(reg)
    reg = list(reg)
    for k, d in enumerate(bits):
        fb = d ^ reg[n - 1]
        reg = [fb] + [(reg[i - 1] ^ fb) if i in taps else reg[i - 1] for i in range(1, n)]
        if stage is not None and (k + 1) % every == 0:
            reg = stage(reg)
    if stage is not None and len(bits) % every:
        reg = stage(reg)
    return reg


def wire(reg):
    """check field as transmitted: complemented, highest power first -> bit 0 of the result is first on the wire"""
    n = len(reg)
    return [1 ^ reg[n - 1 - i] if isinstance(reg[0], int) else ~reg[n - 1 - i] for i in range(n)]


def _ibits(v, n):
    return [(v >> i) & 1 for i in range(n)]


def _ival(bits):
    return sum((b & 1) << i for i, b in enumerate(bits))


def _py_crc(data_bits, taps, n):
    return _ival(wire(serial_crc([1] * n, data_bits, taps)))


def _bytes_bits(bs):
    return [b for x in bs for b in _ibits(x, 8)]


def validate_reference():
    """the reference against independent vectors; raises if the reference itself is wrong"""
    # CRC32 against zlib on assorted lengths (incl. the repo test's capture)
    for bs in (b"", b"\x00", b"\x12\x01\x00\x02", struct.pack("<4I", 0x03000112, 0x09000000, 0x520013FE, 0x02010100) + b"\x03\x01",
               bytes(range(1, 12))):
        assert _py_crc(_bytes_bits(bs), CRC32_TAPS, 32) == zlib.crc32(bs), bs
    assert _py_crc(_bytes_bits(struct.pack("<4I", 0x03000112, 0x09000000, 0x520013FE, 0x02010100) + b"\x03\x01"),
                   CRC32_TAPS, 32) == 0x540aa487                     # tests/test_usb3_crc.py
    # USB2 CRC16: tests/test_usb2_packet.py  C3 | 00 05 08 00 00 00 00 00 | EB BC ; ZLP -> 00 00
    assert _py_crc(_bytes_bits([0, 5, 8, 0, 0, 0, 0, 0]), CRC16_USB2_TAPS, 16) == 0xBCEB
    assert _py_crc([], CRC16_USB2_TAPS, 16) == 0x0000
    # USB2 CRC5: crcdes.pdf OUT addr 0x3a ep 0xa -> E1 3A 3D ; SETUP addr 0 ep 0 -> 2D 00 10
    assert _py_crc(_ibits(0x3a | (0xa << 7), 11), CRC5_TAPS, 5) == 0x3D >> 3
    assert _py_crc(_ibits(0, 11), CRC5_TAPS, 5) == 0x10 >> 3
    # USB3 header packets captured in tests/test_usb3_receiver.py / test_usb3_data.py
    for w0, w1, w2, w3 in ((0x00000280, 0x00010004, 0x00000000, 0x10001845),
                           (0x32000008, 0x00010000, 0x08000000, 0xE801A822),
                           (0x34000008, 0x00020000, 0x08000000, 0xD005A242)):
        assert _py_crc(_ibits(w0, 32) + _ibits(w1, 32) + _ibits(w2, 32), CRC16_USB3_TAPS, 16) == (w3 & 0xFFFF)
        lcw = w3 >> 16
        assert _py_crc(_ibits(lcw & 0x7FF, 11), CRC5_TAPS, 5) == lcw >> 11


def _stager(m, prefix, width):
    cnt = [0]

    def stage(bits):
        s = Signal(width, name=f"{prefix}_s{cnt[0]}")
        cnt[0] += 1
        m.d.comb += s.eq(Cat(*bits))
        return [s[i] for i in range(width)]
    return stage


def ref_step(m, prefix, reg_sig, data_sig, nbits, taps):
    """Amaranth: nbits serial steps from reg_sig with data_sig[0] first; returns a named Signal"""
    n = len(reg_sig)
    out = serial_crc([reg_sig[i] for i in range(n)], [data_sig[i] for i in range(nbits)], taps,
                     stage=_stager(m, prefix, n))
    res = Signal(n, name=f"{prefix}_out")
    m.d.comb += res.eq(Cat(*out))
    return res


def ref_wire(m, name, reg_sig):
    out = Signal(len(reg_sig), name=name)
    m.d.comb += out.eq(Cat(*wire([reg_sig[i] for i in range(len(reg_sig))])))
    return out


# ---------------------------------------------------------------------------------------------------------------

class Crc5Harness(Harness):
    """both 11-bit CRC5 functions, pure combinational; a toggling flop keeps the clock domain alive"""
    domains = ("usb",)

    def __init__(self):
        super().__init__()
        self.tok = self.inp("tok", 11)
        self.v_usb2 = self.viol("usb2_token_crc5")
        self.v_usb3 = self.viol("usb3_link_crc5")
        self.v_vec = self.viol("crc5_reference_vectors")
        self.c_usb2 = self.cover("usb2_token_crc5")
        self.c_usb3 = self.cover("usb3_link_crc5")
        self.c_vec = self.cover("crc5_reference_vectors")

    def elaborate(self, platform):
        from luna.gateware.usb.usb2.packet import USBTokenDetector
        from luna.gateware.usb.usb3.link.crc import compute_usb_crc5
        m = Module()
        alive = Signal(name="alive")
        m.d.usb += alive.eq(~alive)
        tok = self.tok
        init = Signal(5, name="crc5_init")
        m.d.comb += init.eq(0x1F)
        ref = ref_wire(m, "crc5_ref", ref_step(m, "crc5", init, tok, 11, CRC5_TAPS))
        usb2 = Signal(5, name="usb2_crc5")
        usb3 = Signal(5, name="usb3_crc5")
        m.d.comb += [usb2.eq(USBTokenDetector._generate_crc_for_token(tok)), usb3.eq(compute_usb_crc5(tok))]
        self.obs("ref", ref), self.obs("usb2", usb2), self.obs("usb3", usb3)
        m.d.comb += [
            self.v_usb2.eq(usb2 != ref),
            self.v_usb3.eq(usb3 != ref),
            # non-degenerate agreement points (reachability twins)
            self.c_usb2.eq((usb2 == ref) & (tok == 0x53a) & (ref == 0x3D >> 3)),
            self.c_usb3.eq((usb3 == ref) & (tok == 0x005) & (ref == 0xD005 >> 11)),
        ]
        # the reference itself on published vectors (tok is free, so each vector is one of the cases)
        vec = {0x000: 0x10 >> 3, 0x53a: 0x3D >> 3, 0x001: 0xE801 >> 11, 0x005: 0xD005 >> 11}
        for t, c in vec.items():
            with m.If(tok == t):
                m.d.comb += [self.v_vec.eq(ref != c), self.c_vec.eq(1)]
        return m


class FnHarness(Harness):
    """COMB: the repo's step functions called on a free register state `st` and free data `fd`, compared with
    bit-serial steps; a toggling flop keeps the clock domain alive"""
    CFG = {   # tag -> (domain, width, taps, [(assert name, method name, data bits)])
        "usb2_crc16": ("usb", 16, CRC16_USB2_TAPS, [("usb2_crc16_step", "_generate_next_crc", 8)]),
        "usb3_crc16": ("ss", 16, CRC16_USB3_TAPS, [("usb3_crc16_step", "_generate_next_crc", 32)]),
        "usb3_crc32": ("ss", 32, CRC32_TAPS, [("crc32_step_full", "_generate_next_full_crc", 32),
                                              ("crc32_step_3B", "_generate_next_3B_crc", 24),
                                              ("crc32_step_2B", "_generate_next_2B_crc", 16),
                                              ("crc32_step_1B", "_generate_next_1B_crc", 8)]),
    }

    def __init__(self, tag):
        super().__init__()
        self.tag = tag
        dom, self.width, self.taps, self.parts = self.CFG[tag]
        self.domains = (dom,)
        if tag == "usb2_crc16":
            from luna.gateware.usb.usb2.packet import USBDataPacketCRC
            self.obj = USBDataPacketCRC()
        elif tag == "usb3_crc16":
            from luna.gateware.usb.usb3.link.crc import HeaderPacketCRC
            self.obj = HeaderPacketCRC()
        else:
            from luna.gateware.usb.usb3.link.crc import DataPacketPayloadCRC
            self.obj = DataPacketPayloadCRC()
        self.st = self.inp("st", self.width)
        self.fd = self.inp("fd", max(n for _, _, n in self.parts))
        self.v_fn = {a: self.viol(a) for a, _, _ in self.parts}
        self.c_fn = {a: self.cover(a) for a, _, _ in self.parts}

    def elaborate(self, platform):
        m = Module()
        alive = Signal(name="alive")
        m.d[self.domains[0]] += alive.eq(~alive)
        for a, meth, nbits in self.parts:
            ref = ref_step(m, f"ref_{a}", self.st, self.fd, nbits, self.taps)
            got = Signal(self.width, name=f"got_{a}")
            m.d.comb += got.eq(getattr(self.obj, meth)(self.st, self.fd[0:nbits]))
            self.obs(f"got_{a}", got), self.obs(f"ref_{a}", ref)
            m.d.comb += [self.v_fn[a].eq(got != ref),
                         self.c_fn[a].eq((self.st != 0) & (self.fd[0:nbits] != 0) & (got != self.st) & (got != 0))]
        return m


class Crc16Usb2Harness(Harness):
    domains = ("usb",)

    def __init__(self):
        super().__init__()
        from luna.gateware.usb.usb2.packet import USBDataPacketCRC, DataCRCInterface
        self.dut = USBDataPacketCRC()
        self.itf = DataCRCInterface()
        self.dut.add_interface(self.itf)
        self.inp("start", signal=self.itf.start)
        self.inp("rx_data", signal=self.dut.rx_data)
        self.inp("rx_valid", signal=self.dut.rx_valid)
        self.inp("tx_data", signal=self.dut.tx_data)
        self.inp("tx_valid", signal=self.dut.tx_valid)
        self.v_out = self.viol("usb2_crc16_output")
        self.c_out = self.cover("usb2_crc16_output")
        self.c_clear = self.cover("usb2_crc16_restart")
        self.a_half = self.assume("half_duplex")
        self.restrictions.append("dut.clear is an unused attribute of USBDataPacketCRC (never read by elaborate)")

    def elaborate(self, platform):
        m = Module()
        m.submodules.dut = dut = self.dut
        ghost = self.ghost = Signal(16, init=0xFFFF, name="ghost")
        count = Signal(3, name="ghost_count")
        self.obs("ghost", ghost)
        data = Signal(8, name="ghost_data")
        m.d.comb += data.eq(Mux(dut.rx_valid, dut.rx_data, dut.tx_data))
        nxt = ref_step(m, "ghost_next", ghost, data, 8, CRC16_USB2_TAPS)
        with m.If(self.itf.start):
            m.d.usb += [ghost.eq(0xFFFF), count.eq(0)]
        with m.Elif(dut.rx_valid | dut.tx_valid):
            m.d.usb += ghost.eq(nxt)
            with m.If(count != 7):
                m.d.usb += count.eq(count + 1)
        expected = ref_wire(m, "expected_crc", ghost)
        seen2 = Signal(name="seen2")
        with m.If(count >= 2):
            m.d.usb += seen2.eq(1)
        m.d.comb += [
            self.a_half.eq(~(dut.rx_valid & dut.tx_valid)),
            self.v_out.eq(self.itf.crc != expected),
            self.c_out.eq((count >= 3) & (self.itf.crc != 0)),
            self.c_clear.eq(seen2 & (count == 1)),
        ]
        return m


class HeaderCrcHarness(Harness):
    domains = ("ss",)

    def __init__(self):
        super().__init__()
        from luna.gateware.usb.usb3.link.crc import HeaderPacketCRC
        self.dut = HeaderPacketCRC()
        self.inp("clear", signal=self.dut.clear)
        self.inp("advance_crc", signal=self.dut.advance_crc)
        self.inp("data_input", signal=self.dut.data_input)
        self.v_out = self.viol("usb3_crc16_output")
        self.c_out = self.cover("usb3_crc16_output")
        self.c_clear = self.cover("usb3_crc16_restart")

    def elaborate(self, platform):
        m = Module()
        m.submodules.dut = dut = self.dut
        ghost = self.ghost = Signal(16, init=0xFFFF, name="ghost")
        count = Signal(3, name="ghost_count")
        self.obs("ghost", ghost)
        nxt = ref_step(m, "ghost_next", ghost, dut.data_input, 32, CRC16_USB3_TAPS)
        with m.If(dut.clear):
            m.d.ss += [ghost.eq(0xFFFF), count.eq(0)]
        with m.Elif(dut.advance_crc):
            m.d.ss += ghost.eq(nxt)
            with m.If(count != 7):
                m.d.ss += count.eq(count + 1)
        expected = ref_wire(m, "expected_crc", ghost)
        seen2 = Signal(name="seen2")
        with m.If(count >= 2):
            m.d.ss += seen2.eq(1)
        m.d.comb += [
            self.v_out.eq(dut.crc != expected),
            self.c_out.eq((count >= 2) & (dut.crc != 0)),
            self.c_clear.eq(seen2 & (count == 1)),
        ]
        return m


class PayloadCrcHarness(Harness):
    domains = ("ss",)
    PARTS = (("full", 32), ("3B", 24), ("2B", 16), ("1B", 8))

    def __init__(self):
        super().__init__()
        from luna.gateware.usb.usb3.link.crc import DataPacketPayloadCRC
        self.dut = d = DataPacketPayloadCRC()
        self.inp("clear", signal=d.clear)
        self.inp("advance_word", signal=d.advance_word)
        self.inp("advance_3B", signal=d.advance_3B)
        self.inp("advance_2B", signal=d.advance_2B)
        self.inp("advance_1B", signal=d.advance_1B)
        self.inp("data_input", signal=d.data_input)
        self.v_out = self.viol("crc32_output")
        self.c_out = self.cover("crc32_output")
        self.v_next = {p: self.viol(f"crc32_next_{p}") for p, _ in self.PARTS[1:]}
        self.c_part = {p: self.cover(f"crc32_advance_{p}") for p, _ in self.PARTS[1:]}
        self.c_clear = self.cover("crc32_restart")
        self.a_onehot = self.assume("one_advance")

    def stimulus(self, rng, t, consts):
        d = super().stimulus(rng, t, consts)
        sel = rng.randrange(6)
        for i, n in enumerate(("advance_word", "advance_3B", "advance_2B", "advance_1B")):
            d[n] = int(sel == i)
        d["clear"] = int(rng.random() < 0.1)
        return d

    def elaborate(self, platform):
        m = Module()
        m.submodules.dut = dut = self.dut
        ghost = self.ghost = Signal(32, init=0xFFFFFFFF, name="ghost")
        count = Signal(3, name="ghost_count")
        self.obs("ghost", ghost)
        nxt = {p: ref_step(m, f"ghost_next_{p}", ghost, dut.data_input, n, CRC32_TAPS) for p, n in self.PARTS}
        adv = dict(full=dut.advance_word, **{"3B": dut.advance_3B, "2B": dut.advance_2B, "1B": dut.advance_1B})
        with m.If(dut.clear):
            m.d.ss += [ghost.eq(0xFFFFFFFF), count.eq(0)]
        with m.Elif(Cat(*adv.values()).any()):
            with m.If(count != 7):
                m.d.ss += count.eq(count + 1)
            for p, _ in self.PARTS:
                with m.If(adv[p]):
                    m.d.ss += ghost.eq(nxt[p])
        expected = ref_wire(m, "expected_crc", ghost)
        seen2 = Signal(name="seen2")
        with m.If(count >= 2):
            m.d.ss += seen2.eq(1)
        nadv = sum(a for a in adv.values())
        m.d.comb += [
            self.a_onehot.eq(nadv <= 1),
            self.v_out.eq(dut.crc != expected),
            self.c_out.eq((count >= 2) & (dut.crc != 0)),
            self.c_clear.eq(seen2 & (count == 1)),
        ]
        outs = {"3B": dut.next_crc_3B, "2B": dut.next_crc_2B, "1B": dut.next_crc_1B}
        for p, _ in self.PARTS[1:]:
            exp = ref_wire(m, f"expected_next_{p}", nxt[p])
            was = Signal(name=f"was_adv_{p}")
            m.d.ss += was.eq(adv[p] & ~dut.clear & (count >= 1))
            m.d.comb += [self.v_next[p].eq(outs[p] != exp),
                         self.c_part[p].eq(was)]
        return m


def _at0(v):
    return lambda t: v if t == 0 else None


def _inv_output(ts, frame, h):
    """induction hypothesis: the wrapper's CRC output agrees with the ghost (the output mapping is a bijection of
    the register, so this is 'register == ghost' without naming the internal register)"""
    out = h.itf.crc if hasattr(h, "itf") else h.dut.crc
    n = len(out)
    g = frame.sig(h.ghost)
    exp = z3.Concat(*[~z3.Extract(i, i, g) for i in range(n)])      # bit k of exp = ~g[n-1-k]
    return [frame.sig(out) == exp], ["crc output == complemented reflected ghost"]


def queries(tier):
    """quick: per CRC one COMB query (step functions, all states x all data), one BMC from reset per wrapper (free
    for the byte-wide USB2 CRC16, free controls / fixed data words for the 32-bit-per-step USB3 wrappers), the
    induction step per wrapper (ind_open never fails a check, so every induction is paired with the COMB query of
    the same step function and the BMC of the same wrapper) and short cosims.  thorough adds deeper / free-data
    wrapper BMC and longer cosims."""
    validate_reference()
    thorough = tier != "quick"
    qs = [Query("comb_crc5", Crc5Harness, 1, split=False,
                desc="COMB: both CRC5 functions vs 11 serial steps, all 2^11 inputs; reference vs published vectors"),
          Query("cosim_crc5", Crc5Harness, 0, kind="cosim", cosim_cycles=50 if not thorough else 1000)]
    wdesc = "wrapper from reset: outputs = complemented, reflected serial CRC of everything advanced since the " \
            "last clear; "
    hdr_words = [0x00000280, 0x00010004, 0x00000000]
    pay_words = [0x03000112, 0x520013FE, 0x02010100, 0x09000000]
    for tag, f in (("usb2_crc16", Crc16Usb2Harness), ("usb3_crc16", HeaderCrcHarness), ("usb3_crc32", PayloadCrcHarness)):
        ff = (lambda tag=tag: FnHarness(tag))
        qs.append(Query(f"comb_{tag}", ff, 1, timeout=600, split=False,
                        desc="COMB: step function(s) on a free register state and free data vs bit-serial steps "
                             "(all states x all inputs)"))
        qs.append(Query(f"cosim_comb_{tag}", ff, 0, kind="cosim",
                        cosim_cycles=(4 if tag == "usb3_crc32" else 10) if not thorough else 100))
        if tag == "usb2_crc16":
            qs.append(Query(f"bmc_{tag}", f, 10 if thorough else 6, timeout=600, split=False,
                            desc=wdesc + "controls and data free every cycle"))
        else:
            # free unrollings of the 32-bit-per-step XOR networks do not normalise in the solver (header CRC K=3
            # unknown after 60 s, CRC32 K=2 ~70 s); quick therefore runs the wrapper from reset with *free
            # controls* and fixed data words (wiring of clear / every advance input / every output, and the base
            # case of the induction); all data and all states are covered by COMB + induction
            words = hdr_words if tag == "usb3_crc16" else pay_words
            qs.append(Query(f"bmc_{tag}_directed", f, 5, timeout=600, split=False,
                            layer=dict(data_input=lambda t, words=words: words[t % len(words)]),
                            desc=wdesc + "controls free every cycle, data words fixed (captured packets)"))
        if thorough and tag == "usb3_crc16":
            qs.append(Query(f"bmc_{tag}", f, 2, covers=[], timeout=600,
                            desc=wdesc + "one free step from reset, controls and data free"))
        if thorough and tag == "usb3_crc32":
            names = ("advance_word", "advance_3B", "advance_2B", "advance_1B")
            qs.append(Query(f"bmc_{tag}_base", f, 1, covers=[], timeout=600, split=False,
                            desc=wdesc + "all outputs in the reset state, data free"))
            cases = {"clear": dict(clear=_at0(1)), "none": dict(clear=_at0(0), **{n: _at0(0) for n in names})}
            for n in names:
                cases[n] = dict(clear=_at0(0), **{x: _at0(int(x == n)) for x in names})
            for cn, layer in cases.items():
                qs.append(Query(f"bmc_{tag}_{cn}", f, 2, asserts=["crc32_output"], covers=[], layer=layer, timeout=600,
                                desc=wdesc + f"one step from reset with first-cycle controls = case '{cn}', data free"))
        qs.append(Query(f"ind_{tag}", f, 1, kind="ind", invariants=_inv_output, timeout=600,
                        desc="induction step from an arbitrary register value (ghost = register): every output correct "
                             "now and the correspondence holds after any one step with free controls and data "
                             "(all 2^k register states, unbounded histories); paired with comb_" + tag + " and the "
                             "wrapper BMC, which are what fails the check if the code breaks"))
        qs.append(Query(f"cosim_{tag}", f, 0, kind="cosim",
                        cosim_cycles=(30 if tag != "usb2_crc16" else 100) if not thorough else 400))
    return qs
