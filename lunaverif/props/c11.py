"""C11 -- bulk/interrupt IN endpoints deliver the stream exactly once, in order.

DUTs: luna.gateware.usb.usb2.endpoints.stream.USBStreamInEndpoint (which instantiates the real
USBInTransferManager) and USBInTransferManager on its own.

Environment: an *interface-level* USB host (DESIGN 4 / 4.1).  One bus event per cycle, chosen by the free input
`ev`, filtered by a small bus-phase automaton so that only sequences a legal host + the real detectors can produce
are generated:
   token for this device (any of IN/OUT/SETUP/PING, any endpoint)   -> new_token strobe, pid/endpoint change
   token for another device address                                   -> pid becomes 0, no strobe
   ready_for_response                                                 -> >= 1 cycle after new_token, at most once
   ACK for the packet the device just sent                            -> only if the host received it (rx_ok), >= 1
                                                                         cycle after the packet's end, before the next token
   "foreign" ACK (host acknowledges somebody else's IN data)          -> only after an IN token for another endpoint
                                                                         or another device
The host keeps its own expected toggle and accepts a packet iff it was received (free `rx_ok`) and its PID matches.
The monitor is written from the property statement: a tracked element (const index k) of the input stream must
appear at position k of the host's accepted byte sequence, etc.
"""
from amaranth import *
from ..harness import Harness
from ..engine import Query
from ..lib.inhost import InHostMixin, HOST_ASSUMPTIONS, PH_DEVTX

PROP = "C11"
# FINDINGS (genuine defects found by this check on the original tree, now fixed in /repo):
#   "fix: USBInTransferManager only accepts an ACK for its own IN transaction" (9dd0b3d)
#       WAIT_FOR_ACK took any handshakes_in.ack: after a lost packet, a token for another device address (pid -> 0, no
#       new_token) followed by the host's ACK of that device's data made the manager drop its unacknowledged packet and
#       toggle.  Caught by: order (data loss), retry_same, pid_seq, last_ends_packet, short_needs_boundary,
#       zlp_after_full_last, zlp_spurious, no_nak_when_ready -- all only inside scenario kf_foreign_ack_taken
#       (layer fack=0 held).  The input `fack` / cover foreign_ack_pending keep exercising the scenario.
#   "fix: a data-toggle reset wins over the toggle of a newly queued IN packet" (04d9e6c) was found by C14 (harness A).
ENCODED = [
    "luna/gateware/usb/usb2/transfer.py: USBInTransferManager (double buffer, fill counts, stream_ended, data_pid, ZLP, retry FSM)",
    "luna/gateware/usb/usb2/endpoints/stream.py: USBStreamInEndpoint (wiring, active only for its endpoint number)",
]
ASSUMPTIONS = HOST_ASSUMPTIONS + [
    "discard tied 0; clear_endpoint_halt tied 0 (C14 frees it)",
    "transfer stream valid/payload/last and flush free every cycle (payload need not be stable while not ready)",
    "short non-final packets are legitimate once `flush` has been asserted at least once (class documentation)",
    "generate_zlps=1, start_with_data1=0, active = (token endpoint == own number) for the stand-alone transfer manager "
    "(what USBStreamInEndpoint sets)",
]
BOUNDS = "BMC from reset; max_packet_size 2,3 (quick) / 2,3,4 (thorough); endpoint number 3; free layer K=16 (14) quick / " \
         "22 (20) thorough, restricted layers (no broadcast ACK K=22; tx.ready=1, no flush, no broadcast ACK K=24) in the thorough tier only; tracked indices k (4 bit), j (2 bit) symbolic"
OUTSIDE = "max_packet_size=1 (depth-1 Memory: zero-width address not supported by the NIR translator); discard; transfers longer than the depth allows (about K/3 bytes); max packet sizes > 4; PHY-level framing " \
          "(CRC16, PID byte) which is C03's subject; behaviour after an illegal host sequence"

ASSERTS = ["order", "last_ends_packet", "short_needs_boundary", "zlp_after_full_last", "zlp_spurious", "max_packet",
           "retry_same", "pid_seq", "nak_when_empty", "no_nak_when_ready", "respond_once", "quiet", "valid_continuous",
           "framing"]
COVERS = ["order", "last_ends_packet", "short_flush", "zlp_accepted", "full_packet_accepted", "retry_lost_ack",
          "retry_rx_fail", "nak", "second_packet", "foreign_ack_pending", "ack", "no_nak_ready", "zlp_retry",
          "background_fill"]


class InHarness(InHostMixin, Harness):
    """real IN endpoint / transfer manager + interface-level host + statement monitor"""
    EP = 3
    CW = 6      # width of ghost byte counters (depth < 64)

    def __init__(self, mps=2, kind="endpoint", clear_halt=False):
        super().__init__()
        from luna.gateware.usb.usb2.endpoints.stream import USBStreamInEndpoint
        from luna.gateware.usb.usb2.transfer import USBInTransferManager
        self.mps, self.kind, self.clear_halt = mps, kind, clear_halt
        if kind == "endpoint":
            self.dut = d = USBStreamInEndpoint(endpoint_number=self.EP, max_packet_size=mps)
            itf = d.interface
            self.tokenizer, self.hs_in, self.hs_out = itf.tokenizer, itf.handshakes_in, itf.handshakes_out
            self.tx, self.tx_pid, self.stream = itf.tx, itf.tx_pid_toggle, d.stream
            self.flush_sig = d.flush
        else:
            self.dut = d = USBInTransferManager(mps)
            self.tokenizer, self.hs_in, self.hs_out = d.tokenizer, d.handshakes_in, d.handshakes_out
            self.tx, self.tx_pid, self.stream = d.packet_stream, d.data_pid, d.transfer_stream
            self.flush_sig = d.flush
        # free inputs
        self.host_inputs()
        self.inp("s_valid", signal=self.stream.valid)
        self.inp("s_payload", signal=self.stream.payload)
        self.inp("s_last", signal=self.stream.last)
        self.inp("flush", signal=self.flush_sig)
        self.k = self.inp("k", 4, const=True)
        self.j = self.inp("j", 2, const=True)
        if clear_halt:
            ch = self.dut.interface.clear_endpoint_halt_in
            self.ch_en = self.inp("ch_en", 1)
            self.ch_dir = self.inp("ch_dir", 1)
            self.ch_num = self.inp("ch_num", 4)
        self.kf_fack = self.kf("foreign_ack_taken")
        self.v = {n: self.viol(n) for n in ASSERTS}
        self.v_any = self.viol("any")        # disjunction of all of the above (one solver call for secondary configurations)
        self.c = {n: self.cover(n) for n in COVERS}
        self.extra_init()

    def extra_init(self):
        pass

    def extra_logic(self, m, g):
        """hook for C14 (g: dict of monitor signals)"""
        pass

    # protocol-aware random stimulus for co-simulation
    def stimulus(self, rng, t, consts):
        d = super().stimulus(rng, t, consts)
        self.host_stimulus(rng, d, self.EP)
        d["flush"] = int(rng.random() < 0.1)
        if "ch_en" in d:
            d["ch_en"] = int(rng.random() < 0.05)
        return d

    def elaborate(self, platform):
        m = Module()
        m.submodules.dut = dut = self.dut
        mps, EP, CW = self.mps, self.EP, self.CW
        tok, tx, stream = self.tokenizer, self.tx, self.stream
        v, c = self.v, self.c
        if self.kind == "manager":
            m.d.comb += [dut.active.eq(tok.endpoint == EP), dut.generate_zlps.eq(1)]
        # clear_endpoint_halt_in: tied 0 here; C14's subclass drives it in extra_logic()

        # host model, packet framing, host/device-view toggles (lib/inhost.py)
        H = self.host_model(m, tok, self.hs_in, tx, self.tx_pid, EP, mps)
        self.H = H
        ph, itr, itr_d = H.ph, H.itr, H.itr_d
        ack_ev, fack_ev = H.ack_ev, H.fack_ev
        in_packet, pkt_start, is_zlp, pkt_active = H.in_packet, H.pkt_start, H.is_zlp, H.pkt_active
        byte_xfer, pkt_end, pos, cur_pid, p_len = H.byte_xfer, H.pkt_end, H.pos, H.cur_pid, H.p_len
        h_exp, acceptable, host_accept = H.h_exp, H.acceptable, H.host_accept
        d_exp, prev_valid, prev_acc = H.d_exp, H.prev_valid, H.prev_acc
        m.d.comb += self.kf_fack.eq(H.fack_taken)

        # ------------------------------------------------------------------ input side: tracked element k
        in_count = Signal(CW, name="g_in_count")
        trk_val = Signal(8, name="g_trk_val")
        trk_last = Signal(name="g_trk_last")
        in_xfer = stream.valid & stream.ready
        with m.If(in_xfer):
            m.d.usb += in_count.eq(in_count + 1)
            with m.If(in_count == self.k):
                m.d.usb += [trk_val.eq(stream.payload), trk_last.eq(stream.last)]
        trk_seen = Signal(name="g_trk_seen")
        m.d.comb += trk_seen.eq(in_count > self.k)
        flush_ever_r = Signal(name="g_flush_ever")
        with m.If(self.flush_sig):
            m.d.usb += flush_ever_r.eq(1)
        flush_ever = flush_ever_r | self.flush_sig

        # ------------------------------------------------------------------ host ghost: toggle, accepted count
        h_count = Signal(CW, name="g_h_count")
        zlp_owed = Signal(name="g_zlp_owed")         # host view: element k ended a full packet, a ZLP must follow
        index = Signal(CW, name="g_index")
        m.d.comb += index.eq(h_count + pos)
        with m.If(host_accept):
            m.d.usb += h_count.eq(h_count + p_len)
            with m.If(is_zlp):
                m.d.usb += zlp_owed.eq(0)
            with m.Elif((index == self.k) & trk_seen & trk_last & (p_len == mps)):
                m.d.usb += zlp_owed.eq(1)

        at_k = Signal(name="g_at_k")
        m.d.comb += at_k.eq(byte_xfer & acceptable & (index == self.k))
        m.d.comb += [
            # the k-th byte the host accepts is the k-th byte accepted from the stream (and that byte exists)
            v["order"].eq(at_k & (~trk_seen | (tx.payload != trk_val))),
            c["order"].eq(at_k & trk_seen & (self.k >= 1)),
            # a transfer's final byte closes its packet
            v["last_ends_packet"].eq(at_k & trk_seen & trk_last & ~tx.last),
            c["last_ends_packet"].eq(at_k & trk_seen & trk_last & tx.last & (pos != 0)),
            # a packet that is closed by a byte that is not the transfer's end is full (or flush was requested)
            v["short_needs_boundary"].eq(at_k & trk_seen & ~trk_last & tx.last & (pos + 1 != mps) & ~flush_ever),
            c["short_flush"].eq(at_k & trk_seen & ~trk_last & tx.last & (pos + 1 != mps) & flush_ever) if mps > 1 else c["short_flush"].eq(0),
            # after a full packet that ended the transfer the next new packet is a ZLP
            v["zlp_after_full_last"].eq(byte_xfer & acceptable & zlp_owed),
            # ZLPs only there
            v["zlp_spurious"].eq(is_zlp & acceptable & ~zlp_owed & ((h_count == 0) | (h_count == self.k + 1))),
            c["zlp_accepted"].eq(is_zlp & host_accept & zlp_owed),
            # never more than max_packet_size bytes in a packet
            v["max_packet"].eq(byte_xfer & (pos >= mps)),
            c["full_packet_accepted"].eq(host_accept & (p_len == mps)),
            c["second_packet"].eq(host_accept & (h_count >= mps) & (p_len != 0)),
            # USBInStreamInterface: valid held from first to last; a packet starts with first (or is a ZLP: last only)
            v["valid_continuous"].eq(in_packet & ~tx.valid),
            v["framing"].eq(pkt_start & ~tx.first & ~tx.last),
        ]

        # ------------------------------------------------------------------ device-view ghost: ACKs it was given
        d_acked = Signal(CW, name="g_d_acked")       # bytes in packets the device saw acknowledged
        prev_len = Signal(range(mps + 3), name="g_prev_len")
        prev_byte = Signal(8, name="g_prev_byte")
        prev_has = Signal(name="g_prev_has")
        cur_byte = Signal(8, name="g_cur_byte")
        dz_owed = Signal(name="g_dz_owed")           # device view of zlp_owed
        prev_ends_k = Signal(name="g_prev_ends_k")
        at_j = byte_xfer & (pos == self.j)
        with m.If(at_j):
            m.d.usb += cur_byte.eq(tx.payload)
        with m.If(pkt_end):
            m.d.usb += [
                prev_len.eq(p_len),
                prev_byte.eq(Mux(at_j, tx.payload, cur_byte)), prev_has.eq(p_len > self.j),
                prev_ends_k.eq((p_len != 0) & (d_acked + pos == self.k) & trk_seen & trk_last & (p_len == mps)),
            ]
        with m.If(ack_ev):
            m.d.usb += d_acked.eq(d_acked + prev_len)
            with m.If(prev_len == 0):
                m.d.usb += dz_owed.eq(0)
            with m.Elif(prev_ends_k):
                m.d.usb += dz_owed.eq(1)
        m.d.comb += [
            # a packet that was not acknowledged is repeated with the same length and payload ...
            v["retry_same"].eq(prev_valid & ((at_j & prev_has & (tx.payload != prev_byte)) | (pkt_end & (p_len != prev_len)))),
            # ... and the same PID; the PID advances exactly with every ACK; the first packet is DATA0
            v["pid_seq"].eq(pkt_start & (self.tx_pid != Cat(d_exp, Const(0, 1)))),
            c["retry_lost_ack"].eq(pkt_end & prev_valid & prev_acc & (p_len != 0)),
            c["retry_rx_fail"].eq(host_accept & prev_valid & ~prev_acc & (p_len != 0)),
            c["zlp_retry"].eq(is_zlp & prev_valid),
            c["ack"].eq(ack_ev),
            c["foreign_ack_pending"].eq(fack_ev & prev_valid),
        ]

        # ------------------------------------------------------------------ NAK / response discipline
        pend = Signal(CW, name="g_pend")
        m.d.comb += pend.eq(in_count - d_acked)
        nak = self.hs_out.nak
        last_pending = trk_seen & trk_last & (self.k >= d_acked)
        packet_ready = (pend >= mps) | last_pending | dz_owed
        nak_d = Signal(name="g_nak_d")
        zlp_d = Signal(name="g_zlp_d")
        m.d.usb += [nak_d.eq(nak), zlp_d.eq(is_zlp)]
        empty_d = Signal(name="g_empty_d")
        m.d.usb += empty_d.eq(itr & (pend == 0))
        m.d.comb += [
            # an IN token finding no data is NAKed (a ZLP carries no data and is judged by zlp_spurious)
            v["nak_when_empty"].eq((itr & (pend == 0) & ~nak & ~is_zlp) | (empty_d & ~nak_d & ~zlp_d)),
            c["nak"].eq(itr & nak & (in_count != 0)),
            # ... and only then: with a whole packet / a transfer end / an owed ZLP pending, data is sent
            v["no_nak_when_ready"].eq(itr & packet_ready & nak),
            c["no_nak_ready"].eq(itr & packet_ready & ~nak & (pend >= mps) & (mps > 1)),
            # exactly one response per IN token for this endpoint: NAK now, ZLP now, or data from the next cycle
            v["respond_once"].eq(itr_d & ((nak_d + zlp_d + (tx.valid & ~in_packet)) != 1)),
            # nothing is driven at any other time
            v["quiet"].eq((nak & ~itr) | (is_zlp & ~itr) | (pkt_start & ~is_zlp & ~itr_d)
                          | self.hs_out.ack | self.hs_out.stall | self.hs_out.nyet),
            c["background_fill"].eq(in_xfer & (ph == PH_DEVTX)),
        ]
        self.extra_logic(m, dict(locals()))
        m.d.comb += self.v_any.eq(Cat(*[s for n, s in self._viols.items() if n != "any"]).any())
        return m


def _cfgs(tier):
    # max_packet_size=1 is not checked: a depth-1 Memory has a zero-width address, which the NIR->z3 translator
    # (nir2smt.py, next_state) cannot handle; see OUTSIDE
    cfgs = [("ep_mps2", 2, "endpoint"), ("ep_mps3", 3, "endpoint"), ("mgr_mps2", 2, "manager")]
    if tier == "thorough":
        cfgs.append(("ep_mps4", 4, "endpoint"))
    return cfgs


def queries(tier):
    """primary configuration (endpoint, mps=2): one query per clause.  Secondary configurations: the disjunction `any`
    of all clauses in one solver call (unsat => every clause holds)."""
    qs = []
    quick = tier == "quick"
    for tag, mps, kind in _cfgs(tier):
        f = (lambda mps=mps, kind=kind: InHarness(mps=mps, kind=kind))
        primary = tag == "ep_mps2"
        K = (16 if quick else 22) if primary else (14 if quick else 20)
        qs.append(Query(f"bmc_{tag}", f, K, timeout=900, covers=COVERS if (primary or not quick) else ["zlp_accepted", "retry_rx_fail"],
                        asserts=ASSERTS if primary else ["any"],
                        desc=f"{kind} mps={mps}: everything free (host events incl. broadcast ACKs, rx_ok, tx.ready, stream, flush)"))
        if primary and not quick:
            qs.append(Query(f"bmc_nofack_{tag}", f, K, timeout=900, covers=[], asserts=["any"], layer={"fack": 0},
                            desc=f"{kind} mps={mps}: restricted layer: no broadcast ACKs for other devices/endpoints"))
        if not quick:
            qs.append(Query(f"bmc_ready_{tag}", f, 18 if quick else 24, covers=[], asserts=["any"], required=quick,
                            layer={"tx_ready": 1, "flush": 0, "fack": 0}, timeout=900,
                            desc=f"{kind} mps={mps}: restricted layer tx.ready=1 (after the generator's 2 PID cycles), flush=0, "
                                 "no broadcast ACKs, deeper"))
        qs.append(Query(f"cosim_{tag}", f, 0, kind="cosim", cosim_cycles=60 if quick else 400))
    return qs
