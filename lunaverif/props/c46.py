"""C46 -- SuperSpeed IN endpoints deliver data and signal readiness correctly.

DUT: luna.gateware.usb.usb3.endpoints.stream.SuperSpeedStreamInEndpoint(endpoint_number=3, max_packet_size=8)
(real class, small packet size: 2 words per buffer).

Environment (interface-level SuperSpeed host + link + transaction packet generator):
  * stream producer: valid/payload/last free; partial words (valid 0001/0011/0111) only together with `last`;
    a word is held until accepted;
  * link transmitter: tx.ready free per cycle; packet parameters (tx_length, tx_sequence_number,
    tx_endpoint_number) are sampled in the first cycle tx.valid is non-zero, resp. in the tx_zlp cycle, which is
    when DataPacketTransmitter latches them;
  * transaction packet generator (contract = C45): ready while idle, a request is taken when ready, `done` strobes
    after a free delay >= 1 cycle, not ready in between;
  * host (USB 3.2 8.10/8.11, one outstanding packet, no bursts): ACK TPs addressed to other endpoints are free;
    towards our endpoint the host issues an IN request (ACK, NumP != 0, expected sequence number) only when it is
    not waiting for a response, answers every received data packet with exactly one ACK (good: SeqN+1, Rty=0,
    NumP free; retry: same SeqN, Rty=1, NumP != 0) at a free time after the packet has ended, and after an NRDY
    does not poll again until the ERDY has been sent.
Monitor: an independent reference queue of packet lengths built from the accepted stream words (mps bytes or
`last` close a packet; a transfer that ends on a full packet owes a ZLP), the host's expected sequence number, and a
tracked stream word (const index k) for order/exactly-once.
"""
from amaranth import *
from ..harness import Harness
from ..engine import Query

# FINDINGS (fixes proposed as the series /verif/findings/C46_D1..D7.patch + .msg; subjects as in the .msg files)
#   D1 "SuperSpeed IN endpoint provides its packet parameters whenever a packet can start"
#       ZLPs and <= 4-byte packets latched with length/sequence/endpoint 0; caught by length, dp_endpoint, sequence,
#       bytes_match_length.
#   D2 "... advances its sequence number on every acknowledged packet, and only then"      caught by sequence, unsolicited.
#   D3 "... names its endpoint in NRDY/ERDY requests"                                       caught by tp_endpoint.
#   D4 "... holds the last word of a packet until the link accepts it"                      caught by bytes_match_length.
#   D5 "... sends a short packet whose last word arrived in the ACK cycle"                  caught by in_gets_data.
#   D6 "... answers an ACK that requests more data with NRDY when it has none"              caught by in_gets_nrdy.
#   D7 "... waits for its own ERDY, and owes one ERDY per NRDY"                             caught by erdy_after_nrdy,
#       in_gets_data.

PROP = "C46"
ENCODED = ["luna/gateware/usb/usb3/endpoints/stream.py: SuperSpeedStreamInEndpoint.elaborate (buffering, FSM, sequence "
           "numbers, NRDY/ERDY, retry, ZLP generation)",
           "luna/gateware/usb/usb3/protocol/transaction.py: HandshakeGeneratorInterface / HandshakeReceiverInterface "
           "(request and ACK fields as the endpoint drives/reads them)"]
ASSUMPTIONS = [
    "max_packet_size=8, endpoint_number=3; ep_reset tied to 0",
    "stream producer holds a word until accepted; partial words only with last",
    "host: one outstanding data packet, every data packet answered by exactly one ACK TP (good or retry) after the "
    "packet ended; IN requests only when idle; no polling between NRDY and ERDY; TPs for other endpoints free",
    "transaction packet generator: C45 contract (ready/done), free completion delay",
    "link: tx.ready free; packet parameters sampled in the first valid cycle / the tx_zlp cycle "
    "(DataPacketTransmitter latches them while waiting for data)",
    "a packet counts as held once its last word was accepted at least two cycles before the IN request (for a packet "
    "completed later either answer is accepted, but one answer is required)",
    "bounded response: a data packet starts at most 2 cycles after the IN request; ERDY is requested at most 2 cycles "
    "after data is available and the generator is ready",
]
BOUNDS = "BMC from reset, K=12 (quick) / K=18 (thorough, plus best-effort K=22); all stream/host/link/generator timing inputs " \
         "free.  bmc_seq_wrap: the same BMC from the pre-state in which the endpoint's sequence_number register and the " \
         "host model's expected sequence number both hold an arbitrary s0 (every other register at its reset value), " \
         "K=12 / 16: covers the 31 -> 0 wrap, which from reset needs 32 acknowledged packets.  That pre-state is the " \
         "reset state up to the counter value; it is an over-approximation of the reachable idle states only in that one register"
OUTSIDE = "ep_reset; bursts (NumP > 1 treated as 1); packet sizes other than 8; more than 4 queued packets; the real " \
          "link layer and TransactionPacketGenerator (their contracts are C45 and the link properties)"

EP = 3
MPS = 8
QD = 4          # reference queue depth

ASSERTS = ["in_gets_data", "in_gets_nrdy", "erdy_after_nrdy", "sequence", "length", "payload_order", "unsolicited",
           "bytes_match_length", "tp_endpoint", "dp_endpoint", "accepts_only_what_it_holds"]
COVERS = ["seq_wraps", "in_gets_data", "in_gets_nrdy", "erdy_after_nrdy", "sequence", "length", "payload_order", "retry_resend",
          "zlp_sent", "second_packet", "tracked_delivered", "short_packet"]


class SSInHarness(Harness):
    domains = ("ss",)

    def __init__(self, seq0=False):
        super().__init__()
        self.seq0 = seq0
        from luna.gateware.usb.usb3.endpoints.stream import SuperSpeedStreamInEndpoint
        self.dut = dut = SuperSpeedStreamInEndpoint(endpoint_number=EP, max_packet_size=MPS)
        itf = dut.interface
        hin, hout = itf.handshakes_in, itf.handshakes_out
        # stream producer
        self.s_valid = self.inp("s_valid", signal=dut.stream.valid)
        self.s_payload = self.inp("s_payload", signal=dut.stream.payload)
        self.s_last = self.inp("s_last", signal=dut.stream.last)
        self.inp("s_first", signal=dut.stream.first)
        # link
        self.tx_ready = self.inp("tx_ready", signal=itf.tx.ready)
        # host TP fields
        self.h_ack = self.inp("h_ack", signal=hin.ack_received)
        self.h_ep = self.inp("h_ep", signal=hin.endpoint_number)
        self.h_nump = self.inp("h_nump", signal=hin.number_of_packets)
        self.h_retry = self.inp("h_retry", signal=hin.retry_required)
        self.h_seqn = self.inp("h_seqn", signal=hin.next_sequence)
        for n in ("direction", "host_error", "packets_pending", "status_received"):
            self.inp("h_" + n, signal=getattr(hin, n))
        # generator completion
        self.tp_done = self.inp("tp_done", 1)
        self.k = self.inp("k", 3, const=True)            # tracked stream word index
        if seq0:
            # symbolic pre-state: the endpoint's sequence counter and the host's expectation both start at s0 (the state
            # after s0 acknowledged packets), so that the 5-bit wrap-around 31 -> 0 is within a short bound
            self.s0 = self.inp("s0", 5, const=True)
            self.sym_reg("host_seq", "s0")                  # the monitor's expectation register (elaborate)
            self.sym_reg("dut.sequence_number", "s0")
        self.a_stream = self.assume("stream_contract")
        self.a_host = self.assume("host_contract")
        self.v = {n: self.viol(n) for n in ASSERTS}
        self.c = {n: self.cover(n) for n in COVERS}
        self.restrictions += ["ep_reset tied to 0", "max_packet_size=8"]

    def elaborate(self, platform):
        m = Module()
        m.submodules.dut = dut = self.dut
        itf = dut.interface
        hin, hout, tx = itf.handshakes_in, itf.handshakes_out, itf.tx
        stream = dut.stream
        v, c = self.v, self.c
        m.d.comb += itf.ep_reset.eq(0)

        def obs(sig):
            self.obs(sig.name, sig)
            return sig

        # ------------------------------------------------------------ stream producer contract
        sv = self.s_valid
        legal_mask = (sv == 0) | (sv == 0b1111) | (self.s_last & ((sv == 1) | (sv == 3) | (sv == 7)))
        p_valid, p_payload, p_last, p_stalled = Signal(4), Signal(32), Signal(), Signal(name="p_stalled")
        m.d.ss += [p_valid.eq(sv), p_payload.eq(self.s_payload), p_last.eq(self.s_last),
                   p_stalled.eq(sv.any() & ~stream.ready)]
        held = ~p_stalled | ((sv == p_valid) & (self.s_payload == p_payload) & (self.s_last == p_last))
        m.d.comb += self.a_stream.eq(legal_mask & held)
        word_in = Signal(name="word_in")
        m.d.comb += word_in.eq(sv.any() & stream.ready)
        nbytes = Signal(3, name="nbytes")
        m.d.comb += nbytes.eq(Mux(sv == 15, 4, Mux(sv == 7, 3, Mux(sv == 3, 2, Mux(sv == 1, 1, 0)))))

        # ------------------------------------------------------------ reference packet queue (lengths)
        q_len = [obs(Signal(4, name=f"q_len{i}")) for i in range(QD)]
        q_cnt = obs(Signal(range(QD + 3), name="q_cnt"))
        cur_len = obs(Signal(4, name="cur_len"))
        q_over = obs(Signal(name="q_over"))
        pop = Signal(name="q_pop")
        new_len = Signal(4, name="new_len")
        m.d.comb += new_len.eq(cur_len + nbytes)
        closes = Signal(name="pkt_closes")
        m.d.comb += closes.eq(word_in & ((new_len >= MPS) | self.s_last))
        owes_zlp = Signal(name="owes_zlp")
        m.d.comb += owes_zlp.eq(closes & self.s_last & (new_len == MPS))
        npush = Signal(2, name="npush")
        m.d.comb += npush.eq(Mux(closes, Mux(owes_zlp, 2, 1), 0))
        with m.If(word_in):
            m.d.ss += cur_len.eq(Mux(closes, 0, new_len))
        # next-state of the queue: pop shifts, pushes append
        base = Signal(range(QD + 3), name="q_base")
        m.d.comb += base.eq(q_cnt - pop)
        for i in range(QD):
            shifted = q_len[i + 1] if i + 1 < QD else Const(0, 4)
            cur = Mux(pop, shifted, q_len[i])
            with m.If(closes & (base == i)):
                m.d.ss += q_len[i].eq(new_len)
            with m.Elif(owes_zlp & (base + 1 == i)):
                m.d.ss += q_len[i].eq(0)
            with m.Else():
                m.d.ss += q_len[i].eq(cur)
        with m.If(base + npush > QD):
            m.d.ss += [q_over.eq(1), q_cnt.eq(QD)]
        with m.Else():
            m.d.ss += q_cnt.eq(base + npush)
        have = Signal(name="q_have")
        m.d.comb += have.eq(q_cnt != 0)
        head_len = q_len[0]

        # ------------------------------------------------------------ transaction packet generator model
        gen_busy = obs(Signal(name="gen_busy"))
        gen_is_erdy = Signal(name="gen_is_erdy")
        gen_is_nrdy = Signal(name="gen_is_nrdy")
        any_req = hout.send_ack | hout.send_stall | hout.send_nrdy | hout.send_erdy
        req = Signal(name="tp_request")
        m.d.comb += [hout.ready.eq(~gen_busy), req.eq(~gen_busy & any_req), hout.done.eq(gen_busy & self.tp_done)]
        with m.If(req):
            m.d.ss += [gen_busy.eq(1), gen_is_erdy.eq(hout.send_erdy), gen_is_nrdy.eq(hout.send_nrdy)]
        with m.Elif(hout.done):
            m.d.ss += gen_busy.eq(0)
        nrdy_req, erdy_req = Signal(name="nrdy_req"), Signal(name="erdy_req")
        m.d.comb += [nrdy_req.eq(req & hout.send_nrdy), erdy_req.eq(req & hout.send_erdy)]
        erdy_done = Signal(name="erdy_done")
        m.d.comb += erdy_done.eq(hout.done & gen_is_erdy)

        # ------------------------------------------------------------ data packet observation
        tx_any = Signal(name="tx_any")
        m.d.comb += tx_any.eq(tx.valid.any())
        tx_any_d = Signal(name="tx_any_d")
        in_pkt = obs(Signal(name="in_pkt"))          # between first word and acceptance of the last word
        dp_start, dp_word, dp_end, zlp = (Signal(name=n) for n in ("dp_start", "dp_word", "dp_end", "dp_zlp"))
        m.d.comb += [
            dp_start.eq(tx_any & ~in_pkt),
            dp_word.eq(tx_any & tx.ready),
            dp_end.eq(dp_word & tx.last),
            zlp.eq(itf.tx_zlp),
        ]
        m.d.ss += tx_any_d.eq(tx_any)
        with m.If(dp_end):
            m.d.ss += in_pkt.eq(0)
        with m.Elif(dp_start):
            m.d.ss += in_pkt.eq(1)
        pkt_begin = Signal(name="pkt_begin")         # a data packet (with payload or zero length) begins
        m.d.comb += pkt_begin.eq(dp_start | zlp)
        sent_bytes = obs(Signal(5, name="sent_bytes"))
        tx_nbytes = Signal(3, name="tx_nbytes")
        m.d.comb += tx_nbytes.eq(Mux(tx.valid == 15, 4, Mux(tx.valid == 7, 3, Mux(tx.valid == 3, 2, Mux(tx.valid == 1, 1, 0)))))
        pkt_len = obs(Signal(11, name="pkt_len"))    # tx_length sampled at the first valid cycle
        with m.If(dp_start):
            m.d.ss += pkt_len.eq(itf.tx_length)
        with m.If(dp_word):
            m.d.ss += sent_bytes.eq(Mux(dp_end, 0, sent_bytes + tx_nbytes))
        cur_pkt_len = Mux(dp_start, itf.tx_length, pkt_len)

        # ------------------------------------------------------------ host model
        # 0 IDLE, 1 WAIT_RESP (IN request pending), 2 RX (packet in flight), 3 GOT_DP (must answer), 4 FLOW (NRDY'd)
        hs = obs(Signal(3, name="host_state"))
        h_seq = obs(Signal(5, name="host_seq"))      # sequence number the host expects next
        ours = Signal(name="tp_ours")
        m.d.comb += ours.eq(self.h_ack & (self.h_ep == EP))
        is_in = self.h_nump != 0
        good = Signal(name="ack_good")
        retry = Signal(name="ack_retry")
        inreq = Signal(name="in_request")
        m.d.comb += [
            good.eq(ours & (hs == 3) & ~self.h_retry & (self.h_seqn == (h_seq + 1)[:5])),
            retry.eq(ours & (hs == 3) & self.h_retry & (self.h_seqn == h_seq) & is_in),
            inreq.eq((ours & (hs == 0) & ~self.h_retry & (self.h_seqn == h_seq) & is_in) | (good & is_in) | retry),
        ]
        m.d.comb += self.a_host.eq(~ours | (((hs == 0) & inreq) | good | retry) & ~tx_any & ~in_pkt)
        m.d.comb += pop.eq(good & have)
        with m.If(good):
            m.d.ss += h_seq.eq(h_seq + 1)
        # state transitions (packet events win over TP events; they cannot coincide under the contract)
        with m.If(zlp):
            m.d.ss += hs.eq(3)
        with m.Elif(dp_end):
            m.d.ss += hs.eq(3)
        with m.Elif(dp_start):
            m.d.ss += hs.eq(2)
        with m.Elif(nrdy_req & ((hs == 1) | inreq)):
            m.d.ss += hs.eq(4)
        with m.Elif(erdy_done & (hs == 4)):
            m.d.ss += hs.eq(0)
        with m.Elif(inreq):
            m.d.ss += hs.eq(1)
        with m.Elif(good):
            m.d.ss += hs.eq(0)

        # ------------------------------------------------------------ tracked stream word (order / exactly once)
        in_idx = obs(Signal(4, name="in_idx"))                 # words accepted so far
        acked_words = obs(Signal(4, name="acked_words"))       # words in acknowledged packets
        pos = obs(Signal(3, name="pkt_pos"))                   # word position inside the packet being sent
        t_data, t_mask, t_seen = Signal(32, name="t_data"), Signal(4, name="t_mask"), obs(Signal(name="t_seen"))
        with m.If(word_in):
            m.d.ss += in_idx.eq(Mux(in_idx == 15, 15, in_idx + 1))
            with m.If(in_idx == self.k):
                m.d.ss += [t_data.eq(self.s_payload), t_mask.eq(sv), t_seen.eq(1)]
        with m.If(dp_word):
            m.d.ss += pos.eq(Mux(dp_end, 0, pos + 1))
        pkt_words = Signal(3, name="pkt_words")
        m.d.comb += pkt_words.eq((pkt_len + 3)[2:5])
        with m.If(good):
            m.d.ss += acked_words.eq(acked_words + pkt_words)
        with m.If(zlp):
            m.d.ss += pkt_len.eq(0)
        out_idx = Signal(5, name="out_idx")
        m.d.comb += out_idx.eq(acked_words + pos)
        bytemask = Cat(*[t_mask[i].replicate(8) for i in range(4)])
        tracked_out = Signal(name="tracked_out")
        m.d.comb += tracked_out.eq(dp_word & (out_idx == self.k))

        # ------------------------------------------------------------ bounded-response timers
        since_in = obs(Signal(3, name="since_in"))             # cycles since an IN request that must yield data
        in_had_data = Signal(name="in_had_data")
        data_for_req = Signal(name="data_for_req")   # reference queue content left for a request made in this cycle
        m.d.comb += data_for_req.eq(Mux(good, q_cnt > 1, have))
        held_prev = Signal(name="held_prev")         # the reference queue was non-empty one cycle ago already
        m.d.ss += held_prev.eq(data_for_req)
        must_data = Signal(name="must_data")         # one cycle of reaction time before data is demanded
        m.d.comb += must_data.eq(data_for_req & held_prev)
        with m.If(pkt_begin | nrdy_req):
            m.d.ss += since_in.eq(0)
        with m.Elif(inreq):
            # a packet completed in this very cycle may be answered either way (NRDY now, or data)
            m.d.ss += [since_in.eq(1), in_had_data.eq(~nrdy_req)]
        with m.Elif(since_in != 0):
            m.d.ss += since_in.eq(Mux(since_in == 7, 7, since_in + 1))
        erdy_wait = obs(Signal(3, name="erdy_wait"))
        with m.If((hs == 4) & have & ~gen_busy & ~erdy_req):
            m.d.ss += erdy_wait.eq(Mux(erdy_wait == 7, 7, erdy_wait + 1))
        with m.Else():
            m.d.ss += erdy_wait.eq(0)
        retry_pending = obs(Signal(name="retry_pending"))
        with m.If(retry):
            m.d.ss += retry_pending.eq(1)
        with m.Elif(pkt_begin):
            m.d.ss += retry_pending.eq(0)
        npkts = obs(Signal(3, name="npkts"))
        with m.If(good):
            m.d.ss += npkts.eq(Mux(npkts == 7, 7, npkts + 1))

        # expected parameters of a packet beginning in *this* cycle (a good ACK in the same cycle retires the head)
        exp_len = Signal(4, name="exp_len")
        exp_seq = Signal(5, name="exp_seq")
        m.d.comb += [exp_len.eq(Mux(good, q_len[1], head_len)), exp_seq.eq(Mux(good, h_seq + 1, h_seq))]

        # ------------------------------------------------------------ assertions
        m.d.comb += [
            # IN request while holding a packet -> a data packet begins within 2 cycles, and no NRDY
            v["in_gets_data"].eq(((since_in >= 3) & in_had_data & ~pkt_begin) | (inreq & must_data & hout.send_nrdy)),
            # IN request while holding nothing -> NRDY (requested in the same cycle), no data packet
            v["in_gets_nrdy"].eq(inreq & ~data_for_req & ~closes & ~retry & ~nrdy_req),
            # NRDY'd and data now available -> ERDY requested
            v["erdy_after_nrdy"].eq(erdy_wait > 2),
            # packets carry the sequence number the host expects (advances only on good ACKs)
            v["sequence"].eq(pkt_begin & (itf.tx_sequence_number != exp_seq)),
            # packet length = reference queue head; ZLP iff head is a zero-length packet
            v["length"].eq((dp_start & (~data_for_req | (itf.tx_length != exp_len) | (exp_len == 0))) |
                           (zlp & (~data_for_req | (exp_len != 0)))),
            # tracked word comes out where and as it went in
            v["payload_order"].eq(tracked_out & (~t_seen | (((tx.payload ^ t_data) & bytemask) != 0) |
                                                (tx.valid != t_mask))),
            # data packets only in response to an IN request / retry
            v["unsolicited"].eq(pkt_begin & (hs != 1) & ~inreq),
            # number of bytes on the stream equals the announced length; first/last flags frame the packet
            v["bytes_match_length"].eq((dp_end & ((sent_bytes + tx_nbytes) != cur_pkt_len)) |
                                       (tx_any & (tx.first != (pos == 0))) |
                                       (in_pkt & ~tx_any)),
            # NRDY/ERDY requests and data packets name our endpoint
            v["tp_endpoint"].eq((hout.send_nrdy | hout.send_erdy) & (hout.endpoint_number != EP)),
            v["dp_endpoint"].eq(pkt_begin & (itf.tx_endpoint_number != EP)),
            # the endpoint never takes more stream data than the reference queue can describe (2 buffers + ZLPs)
            v["accepts_only_what_it_holds"].eq(q_over),
        ]
        m.d.comb += [
            c["in_gets_data"].eq(pkt_begin & (hs == 1)),
            c["in_gets_nrdy"].eq(nrdy_req & inreq),
            c["erdy_after_nrdy"].eq(erdy_done & (hs == 4)),
            c["sequence"].eq(pkt_begin & (h_seq == 2)),
            c["seq_wraps"].eq(pkt_begin & (h_seq == 0) & (self.s0 == 31 if self.seq0 else 0)),
            c["length"].eq(dp_start & data_for_req & (exp_len == MPS)),
            c["payload_order"].eq(tracked_out & t_seen & (self.k == 2)),
            c["retry_resend"].eq(pkt_begin & retry_pending),
            c["zlp_sent"].eq(zlp),
            c["second_packet"].eq(pkt_begin & (npkts == 1)),
            c["tracked_delivered"].eq(tracked_out & t_seen),
            c["short_packet"].eq(dp_end & (cur_pkt_len == 5)),
        ]
        return m

    def stimulus(self, rng, t, consts):
        d = super().stimulus(rng, t, consts)
        d["s_valid"] = rng.choice([0, 15, 15, 15])
        d["s_last"] = int(rng.random() < 0.2)
        d["h_ack"] = int(rng.random() < 0.3)
        d["h_ep"] = rng.choice([EP, EP, EP, 1])
        d["h_nump"] = rng.choice([0, 1, 1])
        d["h_retry"] = int(rng.random() < 0.1)
        d["h_seqn"] = rng.getrandbits(2)
        d["tx_ready"] = int(rng.random() < 0.8)
        return d


def queries(tier):
    f = SSInHarness
    quick = tier == "quick"
    qs = [
        Query("bmc_free", f, 12 if quick else 18, timeout=900, covers=[c for c in COVERS if c != "seq_wraps"],
              desc="stream, host, link and generator timing free every cycle"),
        Query("cosim", f, 0, kind="cosim", cosim_cycles=200 if quick else 1000),
        Query("bmc_seq_wrap", lambda: SSInHarness(seq0=True), 12 if quick else 16, timeout=900,
              asserts=["sequence", "unsolicited", "in_gets_data", "payload_order", "length"], covers=["seq_wraps"],
              desc="same environment from the pre-state 'sequence number = host expectation = s0' for every s0 (all other "
                   "registers at reset): sequence numbering across the 5-bit wrap"),
        Query("cosim_seq", lambda: SSInHarness(seq0=True), 0, kind="cosim", cosim_cycles=100),
    ]
    if not quick:
        qs.append(Query("bmc_free_deep", f, 22, timeout=900, covers=[], required=False,
                        desc="same environment, deeper (best effort: several assertions need > 10 min at this depth)"))
    return qs
