"""C50 -- SPIDeviceInterface exchanges whole words for every word size.

DUT: luna.gateware.interface.spi.SPIDeviceInterface (real class), all four SPI modes,
both bit orders, word sizes including non-powers of two.

Oracle (independent of the DUT's shift registers / bit counter):
  * a ghost bit index counts sample edges modulo word_size while chip select is active and
    writes every sampled SDI bit into its *position* of a ghost word (position word_size-1-i
    for MSB-first, i for LSB-first);
  * every word_size-th sample edge completes a word: the DUT must strobe `word_complete`
    exactly once for it (within 3 cycles, before the next word completes), with
    `word_in` equal to the ghost word; a strobe without a completed word is a violation;
  * transmit: whenever the first SCK edge of a transaction is an output edge (data changes
    on the leading edge of every bit), SDO at the i-th sample edge of a word must be bit
    word_size-1-i (MSB first; bit i for LSB-first configurations) of the word presented on
    `word_out` (presented = value while CS was last inactive for the first word, value in the
    cycle of the previous word's last sample edge for following words: the two latch points
    the class documents).
"""
from amaranth import *
from ..harness import Harness
from ..engine import Query

PROP = "C50"
ENCODED = ["luna/gateware/interface/spi.py: SPIDeviceInterface.spi_edge_detectors/elaborate "
           "(bit_count, current_rx/current_tx shifters, word_accepted/word_complete)"]
ASSUMPTIONS = [
    "sck, sdi, cs and word_out are free in every cycle (any SCK duty cycle, any CS abort point, edges may coincide "
    "with CS changes); an SCK edge counts for the transaction iff CS is active in the cycle the edge is seen",
    "before reset the serial clock was at its idle level (the edge detector's reset value)",
    "transmit bits are checked only in transactions whose first SCK edge is an output edge (otherwise the first "
    "sample edge precedes any data change, which the statement excludes)",
    "the word 'presented for transmission' is word_out in the last CS-inactive cycle (first word) / in the cycle of "
    "the previous word's final sample edge (following words), per the class docstring",
    "word_complete must follow the word's last sample edge within 3 cycles",
]
BOUNDS = "BMC from reset; word sizes 2..9 (quick: 3,4,5,8) x CPOL x CPHA x bit order (+ cs_idles_high for one size); " \
         "depth reaches 3 (quick: >=2) full words per transaction plus aborted partial words"
OUTSIDE = "word sizes above 9 (16 in a restricted thorough layer only); SDO of the first bit in transactions whose " \
          "first edge is a sample edge (CPHA=0 style first bit); metastability/synchronisation of SCK"


class SpiWordHarness(Harness):
    domains = ("sync",)

    def __init__(self, ws, cpol=0, cpha=0, msb_first=True, cs_idles_high=False):
        super().__init__()
        from luna.gateware.interface.spi import SPIDeviceInterface
        self.ws, self.cpol, self.cpha, self.msb, self.csh = ws, cpol, cpha, msb_first, cs_idles_high
        self.dut = SPIDeviceInterface(word_size=ws, clock_polarity=cpol, clock_phase=cpha, msb_first=msb_first,
                                      cs_idles_high=cs_idles_high)
        self.sck = self.inp("sck", signal=self.dut.spi.sck)
        self.sdi = self.inp("sdi", signal=self.dut.spi.sdi)
        self.cs = self.inp("cs", signal=self.dut.spi.cs)
        self.word_out = self.inp("word_out", signal=self.dut.word_out)
        self.v_once = self.viol("reported_once")        # strobe without a completed, unreported word
        self.v_every = self.viol("every_word")          # completed word not reported
        self.v_word = self.viol("word_value")           # reported word != the word_size sampled bits
        self.v_tx = self.viol("tx_bits")                # SDO != presented word's bit
        self.c_word = self.cover("word")
        self.c_word2 = self.cover("second_word")
        self.c_word3 = self.cover("third_word")
        self.c_abort = self.cover("word_after_abort")
        self.c_tx = self.cover("tx_checked")
        self.c_tx2 = self.cover("tx_second_word_one")

    def elaborate(self, platform):
        m = Module()
        m.submodules.dut = dut = self.dut
        ws = self.ws
        sclk = Signal(name="g_sclk")
        m.d.comb += sclk.eq(self.sck ^ self.cpol)
        prev = Signal(name="g_prev")
        m.d.sync += prev.eq(sclk)
        lead = ~prev & sclk
        trail = prev & ~sclk
        samp_e, out_e = (trail, lead) if self.cpha else (lead, trail)
        sel = Signal(name="g_sel")
        m.d.comb += sel.eq(self.cs ^ (1 if self.csh else 0))
        samp = Signal(name="g_samp")
        outp = Signal(name="g_outp")
        m.d.comb += [samp.eq(sel & samp_e), outp.eq(sel & out_e)]

        cnt = Signal(range(ws + 1), name="g_cnt")        # bits sampled in the current word
        rx = Signal(ws, name="g_rx")
        words = Signal(2, name="g_words")                # completed words in this transaction (saturating)
        aborted = Signal(name="g_aborted")               # a partial word was cut off by CS earlier
        txw = Signal(ws, name="g_txw")
        exp = Signal(ws, name="g_exp")
        exp_idx = Signal(2, name="g_exp_idx")
        pending = Signal(name="g_pending")
        age = Signal(2, name="g_age")
        any_edge = Signal(name="g_any_edge")
        lead_ok = Signal(name="g_lead_ok")
        for n, s in dict(cnt=cnt, rx=rx, words=words, txw=txw, exp=exp, pending=pending, lead_ok=lead_ok).items():
            self.obs(n, s)

        pos = (lambda i: ws - 1 - i) if self.msb else (lambda i: i)
        done = Signal(name="g_done")
        m.d.comb += done.eq(samp & (cnt == ws - 1))
        # the word completed now: ghost bits + the bit being sampled in this cycle
        now_word = Signal(ws, name="g_now_word")
        m.d.comb += now_word.eq(rx)
        m.d.comb += now_word[pos(ws - 1)].eq(self.sdi)

        with m.If(sel):
            with m.If(samp):
                for i in range(ws):
                    with m.If(cnt == i):
                        m.d.sync += rx[pos(i)].eq(self.sdi)
                m.d.sync += cnt.eq(Mux(done, 0, cnt + 1))
                with m.If(done):
                    m.d.sync += txw.eq(self.word_out)
                    with m.If(words != 3):
                        m.d.sync += words.eq(words + 1)
            with m.If(samp | outp):
                m.d.sync += any_edge.eq(1)
                with m.If(~any_edge):
                    m.d.sync += lead_ok.eq(outp)
        with m.Else():
            m.d.sync += [cnt.eq(0), txw.eq(self.word_out), words.eq(0), any_edge.eq(0), lead_ok.eq(0)]
            with m.If(cnt != 0):
                m.d.sync += aborted.eq(1)

        # --- reporting monitor
        m.d.comb += [
            self.v_once.eq(dut.word_complete & ~pending),
            self.v_word.eq(dut.word_complete & pending & (dut.word_in != exp)),
            self.v_every.eq(pending & ~dut.word_complete & ((age == 3) | done)),
            self.c_word.eq(dut.word_complete & pending),
            self.c_word2.eq(dut.word_complete & pending & (exp_idx == 1)),
            self.c_word3.eq(dut.word_complete & pending & (exp_idx == 2)),
        ]
        exp_ab = Signal(name="g_exp_ab")
        m.d.comb += self.c_abort.eq(dut.word_complete & pending & exp_ab)
        with m.If(dut.word_complete):
            m.d.sync += pending.eq(0)
        with m.If(pending & (age != 3)):
            m.d.sync += age.eq(age + 1)
        with m.If(done):
            m.d.sync += [pending.eq(1), age.eq(0), exp.eq(now_word), exp_idx.eq(words), exp_ab.eq(aborted)]

        # --- transmit monitor: SDO at every sample edge
        first_is_out = Signal(name="g_first_is_out")
        m.d.comb += first_is_out.eq(Mux(any_edge, lead_ok, 0))
        exp_bit = Signal(name="g_exp_bit")
        for i in range(ws):
            with m.If(cnt == i):
                m.d.comb += exp_bit.eq(txw[pos(i)])
        m.d.comb += [
            self.v_tx.eq(samp & first_is_out & (dut.spi.sdo != exp_bit)),
            self.c_tx.eq(samp & first_is_out),
            self.c_tx2.eq(samp & first_is_out & (words == 1) & exp_bit & (cnt == ws - 1)),
        ]
        return m

    def stimulus(self, rng, t, consts):
        # SPI-like traffic: CS mostly active, SCK toggling most cycles
        st = getattr(self, "_st", None) or dict(sck=self.cpol, cs=0)
        if rng.random() < 0.7:
            st["sck"] ^= 1
        if rng.random() < 0.04:
            st["cs"] ^= 1
        elif t < 3:
            st["cs"] = 0
        elif rng.random() < 0.3:
            st["cs"] = 1
        self._st = st
        act = st["cs"] ^ (1 if self.csh else 0)
        return dict(sck=st["sck"], cs=act, sdi=rng.getrandbits(1), word_out=rng.getrandbits(self.ws))


def _cfgs(tier):
    sizes = (3, 4, 5, 8) if tier == "quick" else (2, 3, 4, 5, 6, 7, 8, 9)
    out = []
    for ws in sizes:
        for cpol in (0, 1):
            for cpha in (0, 1):
                for msb in (True, False):
                    out.append((ws, cpol, cpha, msb, False))
    out.append((5, 0, 1, True, True))
    out.append((4, 1, 0, True, True))
    return out


def queries(tier):
    qs = []
    for ws, cpol, cpha, msb, csh in _cfgs(tier):
        tag = f"w{ws}_m{cpol}{cpha}_{'msb' if msb else 'lsb'}{'_csn' if csh else ''}"
        f = (lambda ws=ws, cpol=cpol, cpha=cpha, msb=msb, csh=csh: SpiWordHarness(ws, cpol, cpha, msb, csh))
        words = 2 if tier == "quick" else 3
        K = 2 * ws * words + 6
        covers = ["word", "second_word", "tx_checked", "tx_second_word_one"]
        if words >= 3:
            covers.append("third_word")
        qs.append(Query(f"bmc_{tag}", f, K, covers=covers, split=False, timeout=600,
                        desc=f"word_size={ws} CPOL={cpol} CPHA={cpha} {'MSB' if msb else 'LSB'}-first"
                             f"{' cs active low' if csh else ''}: sck/sdi/cs/word_out free every cycle, "
                             f"{words} full words reachable"))
    # aborted partial word followed by a full word, one configuration per tier size class
    for ws in ((3, 4) if tier == "quick" else (3, 4, 5, 8)):
        f = (lambda ws=ws: SpiWordHarness(ws, 0, 0, True))
        qs.append(Query(f"bmc_abort_w{ws}", f, 2 * ws + 12, covers=["word_after_abort"], asserts=[], split=False,
                        desc="witness: a word is reported after an earlier partial word was aborted by CS"))
    f = lambda: SpiWordHarness(5, 0, 1, True)
    qs.append(Query("cosim_w5", f, 0, kind="cosim", cosim_cycles=300 if tier == "quick" else 2000))
    f = lambda: SpiWordHarness(8, 1, 0, False)
    qs.append(Query("cosim_w8", f, 0, kind="cosim", cosim_cycles=300 if tier == "quick" else 2000))
    if tier == "thorough":
        f = lambda: SpiWordHarness(16, 1, 0, True)
        qs.append(Query("bmc_w16_m10_msb", f, 2 * 16 * 2 + 6, covers=["second_word"], split=False, timeout=600,
                        desc="word_size=16 (the repo test's configuration), two words"))
    return qs
