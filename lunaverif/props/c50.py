"""C50 -- SPIDeviceInterface exchanges whole words for every word size.

DUT: luna.gateware.interface.spi.SPIDeviceInterface (real class), all four SPI modes,
both bit orders, word sizes including non-powers of two.

Oracle (independent of the DUT's shift registers / bit counter):
  * a ghost bit index counts sample edges modulo word_size while chip select is active and
    writes every sampled SDI bit into its *position* of a ghost word (position word_size-1-i
    for MSB-first, i for LSB-first);
  * every word_size-th sample edge completes a word: the DUT must strobe `word_complete`
    exactly once for it (within 3 cycles, before the next word completes), with
    `word_in` equal to the ghost word; a strobe without a completed word is a violation;
  * transmit: whenever the first SCK edge of a transaction is an output edge (data changes
    on the leading edge of every bit), SDO at the i-th sample edge of a word must be bit
    word_size-1-i (MSB first; bit i for LSB-first configurations) of the word presented on
    `word_out` (presented = value while CS was last inactive for the first word, value in the
    cycle of the previous word's last sample edge for following words: the two latch points
    the class documents).

Finding on the unchanged tree (scenario predicate kf_nonpow2_after_first_word): bit_count is Signal(range(word_size))
and is only reset by CS, so for word sizes that are not a power of two every word after the first one of a transaction
is completed after 2**ceil(log2(word_size)) instead of word_size sample edges.
"""
from amaranth import *
from ..harness import Harness
from ..engine import Query
from ..lib.periph import VS, in_vsync

PROP = "C50"

# FINDINGS
#   fixed in /repo by f57c673 "fix: restart the SPI bit counter after every completed word":
#     SPIDeviceInterface.bit_count is Signal(range(word_size)) and was only reset by CS, so for word sizes that are not
#     a power of two (3,5,6,7,...) the second and later words of one chip-select assertion completed after
#     2**ceil(log2(word_size)) sample edges.  Caught by every_word, word_value, tx_bits (and reported_once) in every
#     non-power-of-two configuration (e.g. bmc_w3_m11_lsb, bmc_w5_m01_msb, bmc_toggle_w3_m10_lsb).
#   The scenario predicate kf_nonpow2_after_first_word describes that finding; no entry is open.
ENCODED = ["luna/gateware/interface/spi.py: SPIDeviceInterface.spi_edge_detectors/elaborate "
           "(bit_count, current_rx/current_tx shifters, word_accepted/word_complete)"]
ASSUMPTIONS = [
    "sck, sdi, cs and word_out are free in every cycle (any SCK duty cycle, any CS abort point, edges may coincide "
    "with CS changes); an SCK edge counts for the transaction iff CS is active in the cycle the edge is seen",
    "before reset the serial clock was at its idle level (the edge detector's reset value)",
    "transmit bits are checked only in transactions whose first SCK edge is an output edge (otherwise the first "
    "sample edge precedes any data change, which the statement excludes)",
    "the word 'presented for transmission' is word_out in the last CS-inactive cycle (first word) / in the cycle of "
    "the previous word's final sample edge (following words), per the class docstring",
    "word_complete must follow the word's last sample edge within 3 cycles",
]
BOUNDS = "BMC from reset. Free layer (sck/sdi/cs/word_out free per cycle): word sizes 2-5 x all 8 mode/bit-order " \
         "combinations to two full words; 6,7,9 (2 modes each) and 8 (4 modes) to one word + the start of the next. " \
         "Restricted layer (SCK toggling every cycle, cs/sdi/word_out free): sizes 3,5,6,7,8,9 x 8 modes and 16 to three " \
         "full words. Quick tier: free layer for sizes 3 and 5 (one mode each), restricted layer for sizes 3,4,5,8"
OUTSIDE = "word sizes above 9 (16 in the restricted layer only); more than two words with irregular SCK; SDO of the first bit in transactions whose " \
          "first edge is a sample edge (CPHA=0 style first bit); metastability/synchronisation of SCK"


class SpiWordHarness(Harness):
    domains = (VS,)

    def __init__(self, ws, cpol=0, cpha=0, msb_first=True, cs_idles_high=False):
        super().__init__()
        from luna.gateware.interface.spi import SPIDeviceInterface
        self.ws, self.cpol, self.cpha, self.msb, self.csh = ws, cpol, cpha, msb_first, cs_idles_high
        self.dut = SPIDeviceInterface(word_size=ws, clock_polarity=cpol, clock_phase=cpha, msb_first=msb_first,
                                      cs_idles_high=cs_idles_high)
        self.sck = self.inp("sck", signal=self.dut.spi.sck)
        self.sdi = self.inp("sdi", signal=self.dut.spi.sdi)
        self.cs = self.inp("cs", signal=self.dut.spi.cs)
        self.word_out = self.inp("word_out", signal=self.dut.word_out)
        self.v_once = self.viol("reported_once")        # strobe without a completed, unreported word
        self.v_every = self.viol("every_word")          # completed word not reported
        self.v_word = self.viol("word_value")           # reported word != the word_size sampled bits
        self.v_tx = self.viol("tx_bits")                # SDO != presented word's bit
        self.k_np2 = self.kf("nonpow2_after_first_word")
        self.c_word = self.cover("word")
        self.c_word2 = self.cover("second_word")
        self.c_word3 = self.cover("third_word")
        self.c_abort = self.cover("word_after_abort")
        self.c_tx = self.cover("tx_checked")
        self.c_tx2 = self.cover("tx_second_word_one")

    def elaborate(self, platform):
        m = Module()
        dut = self.dut
        m.submodules.dut = in_vsync(dut)
        sync = m.d[VS]
        ws = self.ws
        sclk = Signal(name="g_sclk")
        m.d.comb += sclk.eq(self.sck ^ self.cpol)
        prev = Signal(name="g_prev")
        sync += prev.eq(sclk)
        lead = ~prev & sclk
        trail = prev & ~sclk
        samp_e, out_e = (trail, lead) if self.cpha else (lead, trail)
        sel = Signal(name="g_sel")
        m.d.comb += sel.eq(self.cs ^ (1 if self.csh else 0))
        samp = Signal(name="g_samp")
        outp = Signal(name="g_outp")
        m.d.comb += [samp.eq(sel & samp_e), outp.eq(sel & out_e)]

        cnt = Signal(range(ws + 1), name="g_cnt")        # bits sampled in the current word
        rx = Signal(ws, name="g_rx")
        words = Signal(2, name="g_words")                # completed words in this transaction (saturating)
        aborted = Signal(name="g_aborted")               # a partial word was cut off by CS earlier
        txw = Signal(ws, name="g_txw")
        exp = Signal(ws, name="g_exp")
        exp_idx = Signal(2, name="g_exp_idx")
        pending = Signal(name="g_pending")
        age = Signal(2, name="g_age")
        any_edge = Signal(name="g_any_edge")
        lead_ok = Signal(name="g_lead_ok")
        for n, s in dict(cnt=cnt, rx=rx, words=words, txw=txw, exp=exp, pending=pending, lead_ok=lead_ok).items():
            self.obs(n, s)

        pos = (lambda i: ws - 1 - i) if self.msb else (lambda i: i)
        done = Signal(name="g_done")
        m.d.comb += done.eq(samp & (cnt == ws - 1))
        # the word completed now: ghost bits + the bit being sampled in this cycle
        now_word = Signal(ws, name="g_now_word")
        m.d.comb += now_word.eq(rx)
        m.d.comb += now_word[pos(ws - 1)].eq(self.sdi)

        with m.If(sel):
            with m.If(samp):
                for i in range(ws):
                    with m.If(cnt == i):
                        sync += rx[pos(i)].eq(self.sdi)
                sync += cnt.eq(Mux(done, 0, cnt + 1))
                with m.If(done):
                    sync += txw.eq(self.word_out)
                    with m.If(words != 3):
                        sync += words.eq(words + 1)
            with m.If(samp | outp):
                sync += any_edge.eq(1)
                with m.If(~any_edge):
                    sync += lead_ok.eq(outp)
        with m.Else():
            sync += [cnt.eq(0), txw.eq(self.word_out), words.eq(0), any_edge.eq(0), lead_ok.eq(0)]
            with m.If(cnt != 0):
                sync += aborted.eq(1)

        # --- reporting monitor
        m.d.comb += [
            self.v_once.eq(dut.word_complete & ~pending),
            self.v_word.eq(dut.word_complete & pending & (dut.word_in != exp)),
            self.v_every.eq(pending & ~dut.word_complete & ((age == 3) | done)),
            self.c_word.eq(dut.word_complete & pending),
            # second / third word of one transaction completed on the wire (trigger of every_word / word_value)
            self.c_word2.eq(done & (words == 1)),
            self.c_word3.eq(done & (words == 2)),
        ]
        exp_ab = Signal(name="g_exp_ab")
        m.d.comb += self.c_abort.eq(dut.word_complete & pending & exp_ab)
        with m.If(dut.word_complete):
            sync += pending.eq(0)
        with m.If(pending & (age != 3)):
            sync += age.eq(age + 1)
        with m.If(done):
            sync += [pending.eq(1), age.eq(0), exp.eq(now_word), exp_idx.eq(words), exp_ab.eq(aborted)]

        # --- scenario predicate of the recorded finding (bit counter is only reset by CS and wraps at a power of two):
        # the word size is not a power of two and a first word has already been completed
        first_done = Signal(name="g_first_done")
        with m.If(done):
            sync += first_done.eq(1)
        m.d.comb += self.k_np2.eq(first_done if (ws & (ws - 1)) else 0)

        # --- transmit monitor: SDO at every sample edge
        first_is_out = Signal(name="g_first_is_out")
        m.d.comb += first_is_out.eq(Mux(any_edge, lead_ok, 0))
        exp_bit = Signal(name="g_exp_bit")
        for i in range(ws):
            with m.If(cnt == i):
                m.d.comb += exp_bit.eq(txw[pos(i)])
        m.d.comb += [
            self.v_tx.eq(samp & first_is_out & (dut.spi.sdo != exp_bit)),
            self.c_tx.eq(samp & first_is_out),
            self.c_tx2.eq(samp & first_is_out & (words == 1) & exp_bit & (cnt == ws - 1)),
        ]
        return m

    def stimulus(self, rng, t, consts):
        # SPI-like traffic: CS mostly active, SCK toggling most cycles
        st = getattr(self, "_st", None) or dict(sck=self.cpol, cs=0)
        if rng.random() < 0.7:
            st["sck"] ^= 1
        if rng.random() < 0.04:
            st["cs"] ^= 1
        elif t < 3:
            st["cs"] = 0
        elif rng.random() < 0.3:
            st["cs"] = 1
        self._st = st
        act = st["cs"] ^ (1 if self.csh else 0)
        return dict(sck=st["sck"], cs=act, sdi=rng.getrandbits(1), word_out=rng.getrandbits(self.ws))


MODES = [(cpol, cpha, msb) for cpol in (0, 1) for cpha in (0, 1) for msb in (True, False)]


def _tag(ws, cpol, cpha, msb, csh=False):
    return f"w{ws}_m{cpol}{cpha}_{'msb' if msb else 'lsb'}{'_csn' if csh else ''}"


def _desc(ws, cpol, cpha, msb, csh=False):
    return f"word_size={ws} CPOL={cpol} CPHA={cpha} {'MSB' if msb else 'LSB'}-first{' cs active low' if csh else ''}"


def queries(tier):
    qs = []
    quick = tier == "quick"
    mk = lambda *a: (lambda: SpiWordHarness(*a))
    # ---- layer 1: everything free every cycle, two full words reachable (K = 4*ws + 6)
    if quick:
        free = [(3, 1, 1, False), (5, 0, 1, True)]
    else:
        free = [(ws, *md) for ws in (2, 3, 4, 5) for md in MODES] + \
               [(5, 0, 1, True, True), (4, 1, 0, True, True)]
    for cfg in free:
        ws = cfg[0]
        qs.append(Query(f"bmc_{_tag(*cfg)}", mk(*cfg), 4 * ws + 6, split=False, timeout=900,
                        covers=["word", "second_word", "tx_checked", "tx_second_word_one"],
                        desc=_desc(*cfg) + ": sck/sdi/cs/word_out free every cycle, two full words reachable"))
    # ---- layer 2: larger words, free every cycle, one full word and the start of the next (K = 2*ws + 10)
    big = [] if quick else \
          [(6, 0, 1, True), (6, 1, 0, False), (7, 0, 0, True), (7, 1, 1, False),
           (8, 0, 0, True), (8, 0, 1, False), (8, 1, 0, True), (8, 1, 1, False), (9, 0, 1, True), (9, 1, 0, False)]
    for cfg in big:
        ws = cfg[0]
        qs.append(Query(f"bmc_{_tag(*cfg)}", mk(*cfg), 2 * ws + 10, split=False, timeout=900,
                        covers=["word", "tx_checked"],
                        desc=_desc(*cfg) + ": sck/sdi/cs/word_out free every cycle, one word and the start of the next"))
    # ---- layer 3 (restricted): SCK toggles in every cycle; cs/sdi/word_out free; three full words
    if quick:
        tog = [(8, 1, 0, True), (5, 0, 0, False, True), (3, 1, 0, False), (4, 0, 1, True)]
    else:
        tog = [(ws, *md) for ws in (3, 5, 6, 7, 8, 9) for md in MODES] + [(16, 1, 0, True), (16, 0, 1, False), (4, 0, 1, True), (5, 0, 0, False, True)]
    for cfg in tog:
        ws, cpol = cfg[0], cfg[1]
        qs.append(Query(f"bmc_toggle_{_tag(*cfg)}", mk(*cfg), 6 * ws + 8, split=False, timeout=900,
                        layer={"sck": (lambda t, cpol=cpol: cpol ^ (t & 1))},
                        covers=["word", "second_word", "third_word", "tx_checked", "tx_second_word_one"],
                        desc=_desc(*cfg) + ": layer: SCK toggles in every cycle; cs/sdi/word_out free; three words"))
    # ---- witnesses: aborted partial word followed by a full word
    for ws in ((3,) if quick else (3, 4, 5, 8)):
        qs.append(Query(f"cover_abort_w{ws}", mk(ws, 0, 0, True), 2 * ws + 12, covers=["word_after_abort"], asserts=[],
                        split=False,
                        desc="witness: a word is reported after an earlier partial word was aborted by CS"))
    qs.append(Query("cosim_w5", mk(5, 0, 1, True), 0, kind="cosim", cosim_cycles=150 if quick else 2000))
    if not quick:
        qs.append(Query("cosim_w8", mk(8, 1, 0, False), 0, kind="cosim", cosim_cycles=2000))
    return qs
