"""C57 -- the USB serial device carries bytes both ways and answers CDC requests.

(a) Unit: ACMRequestHandlers at its RequestHandlerInterface (all setup fields and strobes free): claims exactly the
    class request SET_LINE_CODING, ACKs its data stage, answers its status stage with a ZLP, and drives nothing else.
(b) Device: the real USBSerialDevice(bus=UTMIInterface(), max_packet_size=8) -- standard control endpoint + ACM handler +
    vendor/reserved stall handler + status IN EP3 + data OUT/IN EP4 -- under the slotted symbolic host:
      * GET_DESCRIPTOR(device) is answered with the device descriptor (idVendor/idProduct as configured);
      * SET_LINE_CODING (class, 0x20, 7 data bytes) is ACKed in its data stage and completed with a status ZLP;
      * every other class request and every vendor/reserved request is STALLed at its first data/status opportunity;
      * bytes of ACKed OUT packets on EP4 appear on the rx stream exactly once, in order (tracked k-th byte), under a
        free rx.ready back-pressure pattern;
      * IN packets on EP4 carry the bytes of the tx stream in order: the tx stream offers base+n as its n-th byte, and
        every packet must continue where the host's accepted count stands (retry repeats, ACK advances).
"""
from amaranth import *
from ..harness import Harness
from ..engine import Query
from ..lib.host import SlottedHost, TxSpy, slot_cubes, KIND_NONE, KIND_SETUP, KIND_IN, KIND_OUT, KIND_SOF, KIND_HSK
from ..lib.device import tie_device

PROP = "C57"
ENCODED = ["luna/gateware/usb/devices/acm.py: ACMRequestHandlers, USBSerialDevice (composition, descriptors)",
           "luna/gateware/usb/usb2/device.py, control.py, request.py (StallOnlyRequestHandler, request multiplexer)",
           "luna/gateware/usb/usb2/endpoints/stream.py + transfer.py (EP3/EP4)", "luna/gateware/usb/request/standard.py"]
ASSUMPTIONS = [
    "full speed over UTMI, tx_ready = 1, line idle, VBUS present, connect = 1; slotted host (40-cycle slots), host ACKs only "
    "data the device sent, no lone handshakes, no SET_ADDRESS; device answers must end before the host's ACK offset "
    "(requests for more than ~18 descriptor bytes are therefore outside the script space)",
    "tx stream: valid free every cycle (producer timing), n-th byte = base + n (base symbolic), no `last`; rx.ready free every cycle",
    "max_packet_size = 8 for the data/status endpoints (constructor parameter); EP0 keeps the class's default of 64",
]
BOUNDS = "handler: BMC K=8, everything free.  device: BMC from reset over scripted sequences of 2-3 transactions (K = 40 N + 12); " \
         "each cube pins per slot kind, flag, DATA PID, OUT length (0/1/2/7) and usually the endpoint; addresses, SETUP / OUT data " \
         "bytes, tx stream base, tracked byte index and rx.ready (per cycle) are symbolic"
OUTSIDE = "a complete multi-request enumeration (covered piecewise here and by C07-C10); packets with tx_ready stalls (C11/C03)"

VID, PID = 0x16d0, 0x0f3b
SLOT, ACK_T = 40, 36


class AcmHandlerHarness(Harness):
    def __init__(self):
        super().__init__()
        from luna.gateware.usb.devices.acm import ACMRequestHandlers
        self.dut = ACMRequestHandlers()
        itf = self.dut.interface
        for n in ("recipient", "type", "is_in_request", "request", "value", "index", "length", "received"):
            self.inp(f"setup_{n}", signal=getattr(itf.setup, n))
        self.inp("data_requested", signal=itf.data_requested)
        self.inp("status_requested", signal=itf.status_requested)
        self.inp("rx_ready_for_response", signal=itf.rx_ready_for_response)
        self.inp("ack_in", signal=itf.handshakes_in.ack)
        self.v = {n: self.viol(n) for n in ["claim", "data_ack", "status_zlp", "nothing_else"]}
        self.c = {n: self.cover(n) for n in ["claimed", "acked", "zlp", "other_class_request"]}

    def elaborate(self, platform):
        m = Module()
        m.submodules.dut = self.dut
        tick = Signal()                      # keeps the usb domain alive for replay (the handler itself is combinational)
        m.d.usb += tick.eq(~tick)
        itf = self.dut.interface
        s = itf.setup
        mine = (s.type == 1) & (s.request == 0x20)
        m.d.comb += [
            self.v["claim"].eq(itf.claim != mine),
            self.v["data_ack"].eq(itf.handshakes_out.ack != (mine & itf.rx_ready_for_response)),
            self.v["status_zlp"].eq((itf.tx.valid != (mine & itf.status_requested)) |
                                    (itf.tx.valid & (~itf.tx.last | itf.tx.first))),
            self.v["nothing_else"].eq(itf.handshakes_out.nak | itf.handshakes_out.stall | itf.address_changed |
                                      itf.config_changed | itf.clear_endpoint_halt.enable),
            self.c["claimed"].eq(itf.claim), self.c["acked"].eq(itf.handshakes_out.ack),
            self.c["zlp"].eq(itf.tx.valid), self.c["other_class_request"].eq((s.type == 1) & ~itf.claim & s.received),
        ]
        return m


class SerialHarness(Harness):
    def __init__(self, nslots, tog0=False):
        super().__init__()
        from luna.gateware.interface.utmi import UTMIInterface
        from luna.gateware.usb.devices.acm import USBSerialDevice
        self.nslots = nslots
        self.tog0 = tog0
        self.utmi = UTMIInterface()
        self.dut = USBSerialDevice(bus=self.utmi, idVendor=VID, idProduct=PID, max_packet_size=8)
        self.host = SlottedHost(self, nslots, slot_len=SLOT, ack_t=ACK_T, max_out=7, prefix="s", ep_bits=3)
        self.base = self.inp("tx_base", 8, const=True)
        self.k = self.inp("k", 4, const=True)
        self.rx_ready = self.inp("rx_ready", 1)
        self.tx_valid = self.inp("tx_valid", 1)               # producer back-pressure pattern of the tx stream, free
        if tog0:
            # symbolic pre-state of one register: the OUT endpoint's expected data toggle (and the monitor's copy) start at
            # t0 -- the state after an odd / even number of accepted OUT packets, without spending a slot on it
            self.t0 = self.inp("t0", 1, const=True)
            self.sym_reg("expected_data_toggle", "t0")
            self.sym_reg("g_out_toggle", "t0")
        names = ["device_descriptor", "line_coding_data_ack", "line_coding_status", "other_requests_stalled",
                 "rx_order", "rx_count", "rx_lost", "tx_order", "tx_progress", "out_handshake"]
        self.v = {n: self.viol(n) for n in names}
        self.c = {n: self.cover(n) for n in ["descriptor", "line_coding_done", "stalled_class", "stalled_vendor",
                                             "rx_byte", "tx_packet", "tx_second_packet", "rx_tracked"]}
        self.a = {n: self.assume(n) for n in ["legal", "no_hsk", "no_set_address", "answers_in_time"]}

    def elaborate(self, platform):
        m = Module()
        h, u, dut = self.host, self.utmi, self.dut
        m.submodules.dut = dut
        h.build(m, "usb")
        spy = TxSpy(m, "usb", h, u.tx_valid, u.tx_data, nbytes=21, name="tx")
        h.add_in_ack(m, "usb", spy.is_data & ~u.tx_valid)
        m.d.comb += [
            dut.connect.eq(1),
            u.line_state.eq(0b01), u.session_end.eq(0), u.vbus_valid.eq(1), u.tx_ready.eq(1),
            u.rx_active.eq(h.rx_active), u.rx_valid.eq(h.rx_valid), u.rx_data.eq(h.rx_data),
        ]
        n = self.nslots
        nohsk, noaddr = Const(1), Const(1)
        for i in range(n):
            nohsk = nohsk & (h.kind[i] != KIND_HSK)
            noaddr = noaddr & ~((h.kind[i] == KIND_SETUP) & (h.data[i][5:7] == 0) & (h.data[i][8:16] == 5))
        m.d.comb += [self.a["legal"].eq(h.legal), self.a["no_hsk"].eq(nohsk), self.a["no_set_address"].eq(noaddr),
                     self.a["answers_in_time"].eq(~(u.tx_valid & (h.t >= ACK_T - 1)))]
        judge = h.slot_end & ~h.done
        to_us = (h.cur_addr == 0)
        ep = h.cur_ep
        sd = h.cur_data
        valid_setup = (h.cur_kind == KIND_SETUP) & to_us & (ep == 0) & ~h.cur_flag
        prev_valid_setup = Signal()
        g = Signal(64)
        with m.If(judge):
            m.d.usb += [prev_valid_setup.eq(valid_setup), g.eq(sd)]
        rt, req, wv, wl = g[0:8], g[8:16], g[16:32], g[48:64]
        gtype = g[5:7]
        sent = spy.count != 0
        sent_stall = sent & (spy.pid == 0x1E)
        sent_ack = sent & (spy.pid == 0xD2)
        in0 = (h.cur_kind == KIND_IN) & to_us & (ep == 0)
        out0 = (h.cur_kind == KIND_OUT) & to_us & (ep == 0) & ~h.cur_flag
        # ---- expected device descriptor (USB 2.0 table 9-8 with the configured ids; strings 1,2,3 by the emitter's order)
        DEV = bytes([18, 1, 0x00, 0x02, 0, 0, 0, 64, VID & 0xff, VID >> 8, PID & 0xff, PID >> 8])
        got = Cat(*spy.bytes[0:12])
        is_get_dev = (rt == 0x80) & (req == 6) & (wv == 0x0100) & (wl >= 12) & (wl <= 18)
        m.d.comb += self.v["device_descriptor"].eq(
            judge & in0 & prev_valid_setup & is_get_dev &
            ~((spy.pid == 0x4B) & (got == int.from_bytes(DEV, "little")) &
              (spy.count == Mux(wl < 18, wl, 18) + 3)))
        # ---- SET_LINE_CODING: ACK of the data stage, ZLP in the status stage
        is_slc = (gtype == 1) & (req == 0x20) & ~g[7] & (wl == 7)
        slc_data_done = Signal()
        with m.If(judge):
            with m.If(valid_setup):
                m.d.usb += slc_data_done.eq(0)
            with m.Elif(out0 & prev_valid_setup & is_slc & h.cur_dpid & sent_ack):
                m.d.usb += slc_data_done.eq(1)
            with m.Elif((h.cur_kind != KIND_NONE) & (h.cur_kind != KIND_SOF) & to_us & (ep == 0)):
                m.d.usb += slc_data_done.eq(0)
        m.d.comb += [
            self.v["line_coding_data_ack"].eq(judge & out0 & prev_valid_setup & is_slc & h.cur_dpid &
                                              (h.cur_olen == 7) & ~sent_ack),
            self.v["line_coding_status"].eq(judge & in0 & slc_data_done & ~((spy.pid == 0x4B) & (spy.count == 3))),
        ]
        # ---- every other class request and all vendor / reserved requests: STALL at the first IN opportunity
        other_class = (gtype == 1) & (req != 0x20)
        vendorish = (gtype == 2) | (gtype == 3)
        m.d.comb += self.v["other_requests_stalled"].eq(judge & in0 & prev_valid_setup & (other_class | vendorish) &
                                                        ~sent_stall)
        # ---- EP4 OUT -> rx stream
        rx = dut.rx
        m.d.comb += rx.ready.eq(self.rx_ready)
        out4 = (h.cur_kind == KIND_OUT) & to_us & (ep == 4) & ~h.cur_flag
        g_tog = Signal(name="g_out_toggle")   # data toggle the endpoint expects
        acc = Signal(6)                  # payload bytes of accepted packets so far
        trk, got_rx = Signal(8), Signal(8)
        delivered = Signal(6)
        accepts = out4 & (h.cur_dpid == g_tog) & sent_ack
        # ClearFeature(ENDPOINT_HALT) resets the addressed endpoint's data toggle [USB 2.0 9.4.5]; the device applies it when
        # the host ACKs the status-stage ZLP.  wIndex 0x04 = OUT endpoint 4, 0x84 = IN endpoint 4.
        is_clear_halt = (rt == 0x02) & (req == 1) & (wv == 0) & (wl == 0)
        clear_done = judge & in0 & prev_valid_setup & is_clear_halt & (spy.pid == 0x4B) & (spy.count == 3) & h.cur_flag
        clear_out4 = clear_done & (g[32:48] == 0x0004)
        clear_in4 = clear_done & (g[32:48] == 0x0084)
        with m.If(clear_out4):
            m.d.usb += g_tog.eq(0)
        with m.If(judge & accepts):
            m.d.usb += [acc.eq(acc + h.cur_olen), g_tog.eq(~g_tog)]
            for j in range(8):
                with m.If((j < h.cur_olen) & (acc + j == self.k)):
                    m.d.usb += trk.eq(sd[8 * j:8 * j + 8])
        with m.If(rx.valid & rx.ready):
            m.d.usb += delivered.eq(delivered + 1)
            with m.If(delivered == self.k):
                m.d.usb += got_rx.eq(rx.payload)
        acc_now = Signal(6)              # bytes accepted including the packet being received in this slot
        m.d.comb += acc_now.eq(acc + Mux(out4 & (h.cur_dpid == g_tog), h.cur_olen, 0))
        # completeness: with a consumer that was ready throughout, every byte of every ACKed in-sequence packet has been
        # delivered a few cycles after the last transaction
        always_ready = Signal(init=1)
        with m.If(~self.rx_ready):
            m.d.usb += always_ready.eq(0)
        done_age = Signal(4)
        with m.If(h.done & (done_age != 15)):
            m.d.usb += done_age.eq(done_age + 1)
        m.d.comb += self.v["rx_lost"].eq((done_age == 8) & always_ready & (delivered != acc))
        m.d.comb += [
            self.v["rx_count"].eq(delivered > acc_now),
            self.v["rx_order"].eq(h.done & (delivered > self.k) & (acc > self.k) & (got_rx != trk)),
            # an OUT packet for EP4 is answered with exactly one handshake and never with data
            self.v["out_handshake"].eq(judge & out4 & ~(spy.is_hsk & (spy.count == 1) & (spy.packets == 1))),
        ]
        # ---- tx stream -> EP4 IN
        tx = dut.tx
        fed = Signal(8)                  # bytes taken from the tx stream
        m.d.comb += [tx.valid.eq(self.tx_valid), tx.payload.eq(self.base + fed), tx.last.eq(0)]
        with m.If(tx.valid & tx.ready):
            m.d.usb += fed.eq(fed + 1)
        in4 = (h.cur_kind == KIND_IN) & to_us & (ep == 4)
        h_tog = Signal()                 # toggle the host expects
        h_cnt = Signal(8)                # bytes the host has accepted
        plen = Signal(5)
        m.d.comb += plen.eq(Mux(spy.count >= 3, spy.count - 3, 0))
        pid_matches = (spy.pid == Mux(h_tog, 0x4B, 0xC3))
        bad = Const(0)
        for j in range(8):
            bad = bad | ((j < plen) & (spy.bytes[j] != (self.base + h_cnt + j)[0:8]))
        m.d.comb += self.v["tx_order"].eq(judge & in4 & spy.is_data & (~pid_matches | bad | (plen > 8)))
        # progress: a full packet's worth of bytes (max_packet_size = 8) that the device had accepted from the tx stream before
        # this IN transaction began, and that the host has not acknowledged yet, must be offered now -- not a NAK, and
        # not "never" (whatever the timing of the producer's bytes relative to the host's ACKs was)
        owed_at_start = Signal()
        with m.If(h.t == 0):
            m.d.usb += owed_at_start.eq((fed - h_cnt)[0:8] >= 8)
        m.d.comb += self.v["tx_progress"].eq(judge & in4 & owed_at_start & ~(spy.is_data & (plen == 8)))
        with m.If(judge & in4 & spy.is_data & pid_matches & h.cur_flag):
            m.d.usb += [h_tog.eq(~h_tog), h_cnt.eq(h_cnt + plen)]
        with m.If(clear_in4):
            m.d.usb += h_tog.eq(0)
        # ---- covers
        m.d.comb += [
            self.c["descriptor"].eq(judge & in0 & prev_valid_setup & is_get_dev & (spy.count == 21)),
            self.c["line_coding_done"].eq(judge & in0 & slc_data_done & (spy.count == 3)),
            self.c["stalled_class"].eq(judge & in0 & prev_valid_setup & other_class & sent_stall),
            self.c["stalled_vendor"].eq(judge & in0 & prev_valid_setup & vendorish & sent_stall),
            self.c["rx_byte"].eq(rx.valid & rx.ready),
            self.c["rx_tracked"].eq(h.done & (delivered > self.k) & (self.k == 2)),
            self.c["tx_packet"].eq(judge & in4 & spy.is_data & (plen == 8)),
            self.c["tx_second_packet"].eq(judge & in4 & spy.is_data & (h_cnt != 0)),
        ]
        return m

    def const_stimulus(self, rng):
        out = {}
        reqs = [0x0012000001000680, 0x0007000000002021, 0x0000000000002221, 0x00000000000001C0, 0x0000000000010900]
        for name, (sig, const) in self._inputs.items():
            if not const:
                continue
            if name.endswith("_kind"):
                out[name] = rng.choice([KIND_SETUP, KIND_IN, KIND_IN, KIND_OUT, KIND_OUT, KIND_NONE])
            elif name.endswith("_ep"):
                out[name] = rng.choice([0, 0, 4, 4, 3])
            elif name.endswith("_addr"):
                out[name] = 0
            elif name.endswith("_data"):
                out[name] = rng.choice(reqs) if rng.random() < 0.6 else rng.getrandbits(64)
            elif name.endswith("_olen"):
                out[name] = rng.randrange(8)
            else:
                out[name] = rng.getrandbits(len(sig))
        return out

    def stimulus(self, rng, t, consts):
        d = dict(consts)
        d["rx_ready"] = int(rng.random() < 0.7)
        d["tx_valid"] = int(rng.random() < 0.8)
        return d


GET_DESC_DEV = 0x0012000001000680
SET_LINE_CODING = 0x0007000000002021     # 21 20 00 00 00 00 07 00
GET_LINE_CODING = 0x00070000000021A1     # A1 21 ...
VENDOR_REQ = 0x00000000000001C0          # C0 01 ...


def queries(tier):
    qs = [Query("acm_handler", lambda: AcmHandlerHarness(), 8, timeout=600,
                desc="ACMRequestHandlers at interface level, every field and strobe free"),
          Query("cosim_handler", lambda: AcmHandlerHarness(), 0, kind="cosim", cosim_cycles=200)]
    n = 3
    f = lambda: SerialHarness(n)
    z = dict(s0_addr=0, s1_addr=0, s2_addr=0)
    hints = {
        "descriptor": dict(z, s0_kind=KIND_SETUP, s0_ep=0, s0_data=GET_DESC_DEV, s0_flag=0, s1_kind=KIND_IN, s1_ep=0),
        "line_coding_done": dict(z, s0_kind=KIND_SETUP, s0_ep=0, s0_data=SET_LINE_CODING, s0_flag=0, s1_kind=KIND_OUT, s1_ep=0,
                                 s1_dpid=1, s1_olen=7, s1_flag=0, s2_kind=KIND_IN, s2_ep=0),
        "stalled_class": dict(z, s0_kind=KIND_SETUP, s0_ep=0, s0_data=GET_LINE_CODING, s0_flag=0, s1_kind=KIND_IN, s1_ep=0),
        "stalled_vendor": dict(z, s0_kind=KIND_SETUP, s0_ep=0, s0_data=VENDOR_REQ, s0_flag=0, s1_kind=KIND_IN, s1_ep=0),
        "rx_byte": dict(z, s0_kind=KIND_OUT, s0_ep=4, s0_dpid=0, s0_olen=2, s0_flag=0),
        "rx_tracked": dict(z, s0_kind=KIND_OUT, s0_ep=4, s0_dpid=0, s0_olen=2, s0_flag=0, s1_kind=KIND_OUT, s1_ep=4, s1_dpid=1,
                           s1_olen=2, s1_flag=0, k=2),
        "tx_packet": dict(z, s0_kind=KIND_IN, s0_ep=4, s0_flag=1, tx_valid=1),
        "tx_second_packet": dict(z, s0_kind=KIND_IN, s0_ep=4, s0_flag=1, s1_kind=KIND_IN, s1_ep=4, s1_flag=1, tx_valid=1),
    }
    for hd in hints.values():
        for i in range(3):
            hd.setdefault(f"s{i}_kind", KIND_NONE)
            hd.setdefault(f"s{i}_flag", 0)
            hd.setdefault(f"s{i}_ep", 0)
            hd.setdefault(f"s{i}_olen", 0)
            hd.setdefault(f"s{i}_dpid", 0)
    qs.append(Query("covers_3slots", f, SLOT * n + 12, asserts=[], hints=hints, timeout=900, split=False,
                    covers=list(hints), desc="witnesses: descriptor read, SET_LINE_CODING, stalls, bytes both ways"))
    # One solver process per cube.  A cube pins, per slot, the transaction kind, the corruption / host-ACK flag, the DATA
    # PID and the OUT payload length (symbolic lengths and kinds make the framing symbolic: queries of 900+ s and 20 GB
    # instead of seconds) and, in most cubes, the endpoint; addresses and all data bytes stay symbolic.
    quick = tier == "quick"

    def opt(kind, flag=0, ep=None, dpid=0, olen=0):
        d = dict(kind=kind, flag=flag, dpid=dpid, olen=olen)
        if ep is not None:
            d["ep"] = ep
        return d
    O = {
        "S": opt(KIND_SETUP, 0, 0), "s": opt(KIND_SETUP, 1, 0),              # SETUP to endpoint 0 (valid / corrupted data)
        "Z": opt(KIND_IN, 1, 0), "z": opt(KIND_IN, 0, 0),                    # IN endpoint 0 (host ACKs / does not)
        "L": opt(KIND_OUT, 0, 0, 1, 7), "l": opt(KIND_OUT, 0, 0, 0, 7),      # OUT endpoint 0, 7 bytes, DATA1 / DATA0
        "E": opt(KIND_OUT, 0, 0, 1, 0),                                      # status-stage OUT ZLP
        "I": opt(KIND_IN, 1, 4), "i": opt(KIND_IN, 0, 4),                    # IN endpoint 4
        "J": opt(KIND_IN, 1, None),                                          # IN, any endpoint
        "N": opt(KIND_NONE),
    }
    for n_ in (0, 1, 2, 7):
        O[f"Q{n_}"] = opt(KIND_OUT, 0, 4, 0, n_)                             # OUT endpoint 4, DATA0, n bytes
        O[f"P{n_}"] = opt(KIND_OUT, 0, 4, 1, n_)                             # ... DATA1
        O[f"q{n_}"] = opt(KIND_OUT, 1, 4, 0, n_)                             # ... corrupted CRC
        O[f"X{n_}"] = opt(KIND_OUT, 0, None, 0, n_)                          # OUT, any endpoint, DATA0

    def cube(*names):
        layer = {}
        for i_, nm in enumerate(names):
            for k_, v_ in O[nm].items():
                layer[f"s{i_}_{k_}"] = v_
        return "".join(names), len(names), layer
    CTRL = ["device_descriptor", "other_requests_stalled", "line_coding_data_ack", "line_coding_status"]
    RXA = ["rx_order", "rx_count", "rx_lost", "out_handshake"]
    TXA = ["tx_order", "tx_progress"]
    plan = [  # (cube, assertions)
        (cube("S", "Z"), CTRL), (cube("S", "z"), CTRL), (cube("s", "Z"), CTRL),
        (cube("S", "L", "Z"), CTRL), (cube("S", "l", "Z"), CTRL), (cube("S", "S", "Z"), CTRL),
        (cube("Q1", "P2"), RXA), (cube("Q7", "P1"), RXA), (cube("Q2", "Q2"), RXA), (cube("P1", "Q1"), RXA),
        (cube("q2", "Q2"), RXA), (cube("Q0", "P7"), RXA), (cube("X1", "X2"), RXA),
        (cube("I", "I"), TXA), (cube("i", "I"), TXA), (cube("I", "i"), TXA), (cube("J", "J"), TXA),
        (cube("Q1", "I"), RXA + TXA), (cube("I", "Q1"), RXA + TXA),
        # a control transfer completes between two packets of the data endpoints (e.g. ClearFeature(ENDPOINT_HALT) for the IN
        # or the OUT side): only the addressed direction's toggle may change
    ]
    # ClearFeature(ENDPOINT_HALT) for the IN side (wIndex 0x84) / the OUT side (0x04) of endpoint 4 between OUT packets, from
    # a symbolic OUT-toggle pre-state so that three slots suffice (four 40-cycle slots of this device exceed 9 GB; with
    # the SETUP payload symbolic as well, so do three): only the addressed direction's toggle may change
    O["C"] = dict(opt(KIND_SETUP, 0, 0), data=0x0000008400000102)      # 02 01 00 00 84 00 00 00
    O["D"] = dict(opt(KIND_SETUP, 0, 0), data=0x0000000400000102)      # 02 01 00 00 04 00 00 00
    for cb in (cube("C", "Z", "P1"), cube("C", "Z", "Q1"), cube("D", "Z", "Q1"), cube("D", "Z", "P1")):
        name, ns, layer = cb
        qs.append(Query(f"bmc_tog_{name}", (lambda ns=ns: SerialHarness(ns, tog0=True)), SLOT * ns + 12, layer=dict(layer, tx_valid=1),
                        asserts=RXA, covers=[], timeout=900, split=False, tactic="portfolio",
                        desc=f"transactions {name} from an arbitrary expected OUT toggle (C/D = ClearFeature(ENDPOINT_HALT) "
                             "for the IN / OUT side of endpoint 4)"))
    qs.append(Query("cosim_tog", lambda: SerialHarness(2, tog0=True), 0, kind="cosim", cosim_cycles=100))
    if not quick:
        plan += [
            (cube("S", "L", "z"), CTRL), (cube("S", "Z", "Z"), CTRL), (cube("S", "Z", "E"), CTRL), (cube("S", "I", "Z"), CTRL),
            (cube("S", "Q1", "Z"), CTRL + RXA), (cube("Z", "S", "Z"), CTRL),
            (cube("Q7", "P7", "Q1"), RXA), (cube("Q1", "P1", "Q1"), RXA), (cube("Q2", "q2", "P2"), RXA),
            (cube("Q1", "Q1", "P1"), RXA), (cube("P2", "Q2", "P2"), RXA), (cube("X2", "X1", "X2"), RXA),
            (cube("I", "I", "I"), TXA), (cube("I", "i", "I"), TXA), (cube("i", "i", "I"), TXA), (cube("J", "J", "J"), TXA),
            (cube("Q2", "I", "P2"), RXA + TXA), (cube("I", "Q7", "I"), RXA + TXA),
        ]
    for (name, ns, layer), asserts in plan:
        fac = (lambda ns=ns: SerialHarness(ns))
        # the producer's timing (tx.valid) is free only for the progress clause: with it free, the byte-order clause over two
        # IN packets is undecided after 900 s, and with a saturated producer the progress clause cannot see a byte that
        # arrives in the very cycle of the host's ACK
        qs.append(Query(f"bmc_{name}", fac, SLOT * ns + 12, layer=dict(layer, tx_valid=1),
                        asserts=[a for a in asserts if a != "tx_progress"], covers=[], timeout=900, split=False,
                        tactic="portfolio", desc=f"transactions {name} against the whole serial device (tx stream always valid)"))
        if "tx_progress" in asserts:
            qs.append(Query(f"bmc_{name}_txfree", fac, SLOT * ns + 12, layer=layer, asserts=["tx_progress"], covers=[],
                            timeout=900, split=False, tactic="portfolio",
                            desc=f"transactions {name}, tx stream valid free every cycle: a buffered full packet is sent"))
    qs.append(Query("cosim_device", f, 0, kind="cosim", cosim_cycles=120 if tier == "quick" else 400))
    return qs
