"""C08 -- address and configuration change only when their request completes.

DUT: the real USBDevice (full speed over UTMI) with the standard control endpoint and a USBStreamInEndpoint on
endpoint 1 that always has data, so that the host ACKs of endpoint-1 transactions (which every endpoint sees) can be
interleaved anywhere inside a SET_ADDRESS / SET_CONFIGURATION transfer.

Environment: slotted symbolic host (lib/host.py); per slot additionally a symbolic "VBUS lost" flag (session end,
which the reset sequencer reports as a bus reset).

Oracle: a ghost (address, configuration) pair derived from the script alone:
  * a valid SETUP to (current address, endpoint 0) with a standard SET_ADDRESS / SET_CONFIGURATION request arms a
    pending change (any other valid SETUP disarms it);
  * the change is committed when an IN token to (current address, endpoint 0) is answered by the device with a
    zero-length data packet and the host ACKs it -- and at no other time;
  * VBUS loss resets both to 0.
The device's registers (as distributed to the endpoints: EndpointInterface.active_address / active_config) must equal
the ghost at the end of every slot.
"""
from amaranth import *
from ..harness import Harness
from ..engine import Query
from ..lib.host import SlottedHost, TxSpy, slot_cubes, KIND_NONE, KIND_SETUP, KIND_IN, KIND_OUT, KIND_SOF, KIND_HSK
from ..lib.device import make_device, tie_device

PROP = "C08"
ENCODED = ["luna/gateware/usb/request/control.py: ControlRequestHandler.handle_register_write_request",
           "luna/gateware/usb/request/standard.py: StandardRequestHandler (SET_ADDRESS, SET_CONFIGURATION)",
           "luna/gateware/usb/usb2/device.py: address/configuration registers, bus-reset clear, whole composition",
           "luna/gateware/usb/usb2/endpoint.py: USBEndpointMultiplexer (handshake broadcast)",
           "luna/gateware/usb/usb2/endpoints/stream.py + transfer.py: USBStreamInEndpoint on endpoint 1",
           "luna/gateware/usb/usb2/reset.py: USBResetSequencer (VBUS-loss reset path)"]
ASSUMPTIONS = [
    "full speed over UTMI, tx_ready = 1, line idle (J), connect = 1; slotted host with fixed packet timing (32-cycle slots)",
    "SET_ADDRESS / SET_CONFIGURATION requests are well formed (bmRequestType 0x00, wLength 0); other SETUP contents are free",
    "no lone handshake packets from the host (it ACKs only data the device actually sent)",
    "bus reset is modelled through VBUS loss (session end) only; the SE0-duration path of the reset sequencer is C19",
    "after a bus reset the host restarts control traffic with a SETUP (no IN/OUT transaction to the device before the next "
    "SETUP): the request handlers are not reset by a bus reset, so a status-stage IN of a pre-reset SET_ADDRESS would still "
    "commit it -- a host never sends that",
    "endpoint 1 stream always offers data (valid = 1, symbolic constant byte)",
    "the per-slot (kind, CRC-corruption / host-ACK flag, VBUS-lost) choices are enumerated as separate solver queries (cubes); "
    "OUT data packets are zero-length; the host never sends SETUP to a non-control endpoint",
]
BOUNDS = "BMC from reset over N = 3 (quick) / 4 (thorough) symbolic transactions: all sequences of SETUP / IN / OUT / SOF / idle " \
         "slots to endpoints 0..3 and any address, all SETUP bytes, host ACK present or lost per IN slot, VBUS lost in any slot"
OUTSIDE = "sequences longer than N transactions; malformed SET_ADDRESS/SET_CONFIGURATION requests; SE0-based bus reset; high speed"


class AddrHarness(Harness):
    def __init__(self, nslots):
        super().__init__()
        self.nslots = nslots
        self.utmi, self.dev, self.ep0, self.eps = make_device(ep0_mps=8, in_ep=(1, 2))
        self.host = SlottedHost(self, nslots, prefix="s")
        self.vbus_lost = [self.inp(f"s{i}_vbuslost", 1, const=True) for i in range(nslots)]
        self.ep1_byte = self.inp("ep1_byte", 8, const=True)
        self.v = {n: self.viol(n) for n in ["address", "configuration"]}
        self.c = {n: self.cover(n) for n in ["address_set", "config_set", "ep1_ack_while_pending", "lost_ack_no_change",
                                             "reset_clears", "responds_at_new_address"]}
        self.a = {n: self.assume(n) for n in ["legal", "no_hsk", "wellformed_sets", "setup_after_reset"]}

    def elaborate(self, platform):
        m = Module()
        h, u, dev = self.host, self.utmi, self.dev
        m.submodules.dev = dev
        h.build(m, "usb")
        spy = TxSpy(m, "usb", h, u.tx_valid, u.tx_data, nbytes=4, name="tx")
        h.add_in_ack(m, "usb", spy.is_data & ~u.tx_valid)
        cur_vbus_lost = Signal()
        with m.Switch(h.slot):
            for i in range(self.nslots):
                with m.Case(i):
                    m.d.comb += cur_vbus_lost.eq(self.vbus_lost[i])
        tie_device(m, u, dev, h, session_end=cur_vbus_lost & ~h.done)
        st = self.eps["in"].stream
        m.d.comb += [st.valid.eq(1), st.payload.eq(self.ep1_byte), st.last.eq(0)]
        n = self.nslots
        nohsk = Const(1)
        wf = Const(1)
        for i in range(n):
            d = h.data[i]
            nohsk = nohsk & (h.kind[i] != KIND_HSK)
            is_set = (h.kind[i] == KIND_SETUP) & (d[5:7] == 0) & ((d[8:16] == 5) | (d[8:16] == 9))
            wf = wf & (~is_set | ((d[0:8] == 0) & (d[48:64] == 0)))
        m.d.comb += [self.a["legal"].eq(h.legal), self.a["no_hsk"].eq(nohsk), self.a["wellformed_sets"].eq(wf)]

        # ---- ghost
        g_addr, g_cfg = Signal(7), Signal(8)
        pend = Signal(2)                 # 0 none, 1 address, 2 configuration
        pend_val = Signal(8)
        sd = h.cur_data
        to_us = (h.cur_addr == g_addr)
        ep0 = (h.cur_ep == 0)
        valid_setup = (h.cur_kind == KIND_SETUP) & to_us & ep0 & ~h.cur_flag
        std = (sd[5:7] == 0)
        status_done = (h.cur_kind == KIND_IN) & to_us & ep0 & (pend != 0) & spy.is_data & (spy.count == 3) & h.cur_flag
        n_addr, n_cfg = Signal(7), Signal(8)
        m.d.comb += [n_addr.eq(g_addr), n_cfg.eq(g_cfg)]
        judge = h.slot_end & ~h.done
        with m.If(judge):
            with m.If(cur_vbus_lost):
                m.d.comb += [n_addr.eq(0), n_cfg.eq(0)]
                m.d.usb += pend.eq(0)
            with m.Elif(valid_setup):
                m.d.usb += pend_val.eq(sd[16:24])
                with m.If(std & (sd[8:16] == 5)):
                    m.d.usb += pend.eq(1)
                with m.Elif(std & (sd[8:16] == 9)):
                    m.d.usb += pend.eq(2)
                with m.Else():
                    m.d.usb += pend.eq(0)
            with m.Elif(status_done):
                m.d.usb += pend.eq(0)
                with m.If(pend == 1):
                    m.d.comb += n_addr.eq(pend_val[0:7])
                with m.Else():
                    m.d.comb += n_cfg.eq(pend_val)
            m.d.usb += [g_addr.eq(n_addr), g_cfg.eq(n_cfg)]
        # after a bus reset the host addresses the control endpoint with a SETUP first: no IN / OUT transaction on endpoint 0
        # of the (now default-address) device before the next valid SETUP for it
        need_setup = Signal()
        with m.If(judge):
            with m.If(cur_vbus_lost):
                m.d.usb += need_setup.eq(1)
            with m.Elif(valid_setup):
                m.d.usb += need_setup.eq(0)
        m.d.comb += self.a["setup_after_reset"].eq(~(need_setup & ~h.done & to_us & ep0 &
                                                     ((h.cur_kind == KIND_IN) | (h.cur_kind == KIND_OUT))))
        itf = self.ep0.interface
        m.d.comb += [
            self.v["address"].eq(judge & (itf.active_address != n_addr)),
            self.v["configuration"].eq(judge & (itf.active_config != n_cfg)),
        ]
        # ---- covers
        ep1_acked = Signal()         # an endpoint-1 IN transaction was ACKed while a change was pending
        lost = Signal()              # a status ZLP went unacknowledged while a change was pending
        was_set = Signal()
        with m.If(judge):
            with m.If((h.cur_kind == KIND_IN) & to_us & (h.cur_ep == 1) & (pend != 0) & spy.is_data & h.cur_flag):
                m.d.usb += ep1_acked.eq(1)
            with m.If((h.cur_kind == KIND_IN) & to_us & ep0 & (pend != 0) & spy.is_data & ~h.cur_flag):
                m.d.usb += lost.eq(1)
            with m.If((n_addr != 0) | (n_cfg != 0)):
                m.d.usb += was_set.eq(1)
        m.d.comb += [
            self.c["address_set"].eq(judge & status_done & (pend == 1) & (pend_val[0:7] != 0)),
            self.c["config_set"].eq(judge & status_done & (pend == 2) & (pend_val != 0)),
            self.c["ep1_ack_while_pending"].eq(judge & status_done & ep1_acked),
            self.c["lost_ack_no_change"].eq(judge & lost & (h.slot == n - 1)),
            self.c["reset_clears"].eq(judge & cur_vbus_lost & was_set),
            self.c["responds_at_new_address"].eq(judge & (g_addr != 0) & to_us & (spy.count != 0)),
        ]
        return m

    def const_stimulus(self, rng):
        out = {}
        std = [0x0000000000000500 | (0x15 << 16), 0x0000000000010900, 0x0012000001000680, 0x0002000000000080]
        for name, (sig, const) in self._inputs.items():
            if not const:
                continue
            if name.endswith("_kind"):
                out[name] = rng.choice([KIND_SETUP, KIND_IN, KIND_IN, KIND_OUT, KIND_SOF, KIND_NONE])
            elif name.endswith("_ep"):
                out[name] = rng.choice([0, 0, 0, 1, 1, 2])
            elif name.endswith("_addr"):
                out[name] = rng.choice([0, 0, 0, 0x15, 0x15, rng.randrange(128)])
            elif name.endswith("_data"):
                out[name] = rng.choice(std)
            elif name.endswith("_olen"):
                out[name] = rng.randrange(3)
            elif name.endswith("_vbuslost"):
                out[name] = int(rng.random() < 0.1)
            else:
                out[name] = rng.getrandbits(len(sig))
        return out


SET_ADDR_15 = 0x0000000000000500 | (0x15 << 16)
SET_CFG_1 = 0x0000000000010900


def queries(tier):
    f3 = lambda: AddrHarness(3)
    f4 = lambda: AddrHarness(4)
    hints = {
        "address_set": {"s0_kind": KIND_SETUP, "s0_data": SET_ADDR_15, "s1_kind": KIND_IN, "s1_flag": 1},
        "config_set": {"s0_kind": KIND_SETUP, "s0_data": SET_CFG_1, "s1_kind": KIND_IN, "s1_flag": 1},
        "ep1_ack_while_pending": {"s0_kind": KIND_SETUP, "s0_data": SET_ADDR_15, "s1_kind": KIND_IN, "s1_ep": 1, "s1_flag": 1,
                                  "s2_kind": KIND_IN, "s2_flag": 1},
        "lost_ack_no_change": {"s0_kind": KIND_SETUP, "s0_data": SET_ADDR_15, "s1_kind": KIND_IN, "s1_flag": 0,
                               "s2_kind": KIND_IN, "s2_ep": 1, "s2_flag": 1},
        "reset_clears": {"s0_kind": KIND_SETUP, "s0_data": SET_CFG_1, "s1_kind": KIND_IN, "s1_flag": 1, "s2_vbuslost": 1},
        "responds_at_new_address": {"s0_kind": KIND_SETUP, "s0_data": SET_ADDR_15, "s1_kind": KIND_IN, "s1_flag": 1,
                                    "s2_kind": KIND_SETUP, "s2_addr": 0x15, "s2_data": SET_CFG_1},
    }
    for hd in hints.values():        # witnesses: uncorrupted packets, address 0 / endpoint 0 unless stated, idle otherwise
        for i in range(4):
            hd.setdefault(f"s{i}_kind", KIND_NONE)
            hd.setdefault(f"s{i}_flag", 0)
            hd.setdefault(f"s{i}_addr", 0)
            hd.setdefault(f"s{i}_ep", 0)
            hd.setdefault(f"s{i}_olen", 0)
            hd.setdefault(f"s{i}_vbuslost", 0)
    qs = [Query("covers_3slots", f3, 32 * 3 + 2, asserts=[], hints=hints, timeout=900, split=False,
                covers=["address_set", "config_set", "ep1_ack_while_pending", "lost_ack_no_change", "reset_clears",
                        "responds_at_new_address"],
                desc="witnesses: address/configuration set, endpoint-1 ACK while pending, lost status ACK, VBUS loss, new address answers")]
    # assertions: one solver process per cube of per-slot (kind, flag, VBUS-lost) choices; address, endpoint, data symbolic
    table = {"V": dict(kind=KIND_NONE, flag=0, vbuslost=1)}
    dflt = dict(vbuslost=0, olen=0)
    if tier == "quick":
        cubes = list(slot_cubes(3, "SIiV", first="S", defaults=dflt, table=table)) + \
            [c for c in slot_cubes(3, "SI", first="IN", defaults=dflt, table=table) if c[0][1] == "S"]
    else:
        # (first transaction restricted to the ones that can matter at address 0 / unconfigured: 5 x 8 x 8 = 320, minus the
        #  sequences a legal host cannot produce)
        cubes = list(slot_cubes(3, "SsIiPoNV", first="SsINV", defaults=dflt, table=table))
    def legal_after_reset(name):
        """after a bus reset (VBUS loss) the host restarts with a SETUP: no IN/OUT before the next SETUP"""
        seen_v = False
        for ch in name:
            if ch == "V":
                seen_v = True
            elif ch in "Ss":
                seen_v = False
            elif seen_v and ch in "IiPQOo":
                return False
        return True

    cubes = [c for c in cubes if legal_after_reset(c[0])]
    for name, layer in cubes:
        qs.append(Query(f"bmc_3slots_{name}", f3, 32 * 3 + 2, layer=layer, covers=[], timeout=900, split=False,
                        desc=f"3 transactions {name}: device address/configuration equal the ghost after every slot"))
    if tier == "thorough":
        for name, layer in slot_cubes(4, "SIV", first="S", defaults=dflt, table=table):
            if not legal_after_reset(name):
                continue
            qs.append(Query(f"bmc_4slots_{name}", f4, 32 * 4 + 2, layer=layer, covers=[], timeout=900, split=False, required=False,
                            desc=f"4 transactions {name}"))
    qs.append(Query("cosim", f3, 0, kind="cosim", cosim_cycles=100 if tier == "quick" else 400))
    return qs
