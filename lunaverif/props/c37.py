"""C37 -- received header packets are accepted, acknowledged and buffered exactly.
(The harness class is shared with C38, which frees `enable` / `usb_reset`.)

DUT: luna.gateware.usb.usb3.link.receiver.HeaderPacketReceiver (real class, contains the real
RawHeaderPacketReceiver and LinkCommandGenerator).
Environment: lib/ss_link.SSScriptedSource sends N header packets at concrete cycles with fully symbolic content
(DW0..2, link control word incl. the sequence number, corruption masks on CRC16/CRC5; CRCs by the repo's step
functions), concrete logical idle in between (symbolic idle words would make the DUT's HPSTART decision, and with
it every later CRC comparison, symbolic); free per cycle: source.ready (PHY arbitration), queue.ready (protocol layer),
retry_received (partner's LRTY, only after an LBAD went out), retry_required / keepalive_required /
reject_power_state strobes (make the DUT interleave LRTY / LUP / LXU commands).
Oracle: an independent ghost of the link rules -- expected sequence number, ignore-until-retry flag, counts of
accepted / delivered / bad headers, tracked k-th accepted header; the DUT's link commands are parsed from its
source stream.
"""
from amaranth import *
from ..harness import Harness
from ..engine import Query
from ..lib import ss_link

PROP = "C37"
ENCODED = ["luna/gateware/usb/usb3/link/receiver.py: HeaderPacketReceiver.elaborate (buffers, acks_to_send, "
           "credits_to_issue, ignore_packets, link command dispatch FSM), RawHeaderPacketReceiver (CHECK_PACKET)"]
ASSUMPTIONS = [
    "header packets are well framed (HPSTART + 4 data words) at scripted cycles (0, 1, 2 or 3 idle words between them); all "
    "their content is symbolic",
    "CRC16/CRC5 fields = repo step-function value XOR a free mask (shared CRC definition, C30)",
    "the partner sends a header only while it holds a credit (LCRDs completed by the DUT minus headers accepted >= 1)",
    "retry_received (partner LRTY) only after an LBAD has been transmitted and not yet answered, and not while a "
    "header packet is on the wire or in the 2 check cycles after it (LRTY precedes the retransmitted header)",
    "enable = 1, usb_reset = 0 (C37: link stays in U0); accept/acknowledge_power_state tied 0",
    "timing bound used for 'offered': an accepted header is visible on `queue` 3 cycles after its last word",
]
BOUNDS = "BMC from reset; quick: 2 headers K=33 everything free, 3 headers K=40 without LRTY/keepalive/LXU requests; " \
         "thorough: K=41 / 3 headers free K=46 / 5 headers K=49 / headers with invalid cycles inside"
OUTSIDE = "ill-framed headers; headers arriving without credit; more than 5 headers per trace; liveness of LGOOD/LBAD/LCRD " \
          "beyond the bound (safety: counts and numbers; reachability by cover twins)"


class HeaderRxHarness(Harness):
    domains = ("ss",)

    def __init__(self, n_packets=2, lead=9, spacing=2, free_enable=False, gaps=()):
        super().__init__()
        from luna.gateware.usb.usb3.link.receiver import HeaderPacketReceiver
        self.dut = HeaderPacketReceiver()
        self.free_enable = free_enable
        pk = [dict(length=None, gaps=tuple(gaps), idle_after=spacing, idle_kind="IDLE", hdr_masks="free")
              for _ in range(n_packets)]
        self.src = ss_link.SSScriptedSource(self, pk, prefix="p_", lead=lead)
        self.K = len(self.src.script) + 10
        self.src_ready = self.inp("src_ready", 1)
        self.q_ready = self.inp("q_ready", 1)
        self.retry_received = self.inp("retry_received", 1)
        self.retry_required = self.inp("retry_required", 1)
        self.keepalive = self.inp("keepalive", 1)
        self.lxu = self.inp("lxu", 1)
        if free_enable:
            self.enable = self.inp("enable", 1)
            self.usb_reset = self.inp("usb_reset", 1)
        self.k = self.inp("k", 2, const=True)                  # tracked accepted-header index
        names = ["deliver_order", "offer_valid", "offer_missing", "lgood_number", "lbad_cause", "lcrd_order",
                 "lcrd_free", "adv_first", "lc_format"]
        if free_enable:
            names += ["adv_missing", "stale_offer"]
        self.v = {n: self.viol(n) for n in names}
        cn = ["delivered_k1", "lgood_ack", "lbad_sent", "lcrd_after_free", "ignored_then_accepted", "adv_done",
              "four_credits", "wrong_seq_dropped"]
        if free_enable:
            cn += ["accept_after_ignoring_reentry", "readv_after_disable", "readv_after_reset", "disable_mid_lgood", "disable_mid_lcrd",
                   "disable_mid_lbad", "disable_mid_lrty", "disable_mid_keepalive"]
        self.c = {n: self.cover(n) for n in cn}
        self.a_credit = self.assume("credit")
        self.a_retry = self.assume("retry_contract")
        if free_enable:
            self.a_quiet = self.assume("quiet_while_down")
            self.a_idle_up = self.assume("idle_at_reenable")

    def elaborate(self, platform):
        m = Module()
        m.submodules.dut = dut = self.dut
        m.submodules.src = src = self.src
        m.d.comb += [dut.sink.valid.eq(src.valid), dut.sink.data.eq(src.data), dut.sink.ctrl.eq(src.ctrl),
                     dut.source.ready.eq(self.src_ready), dut.queue.ready.eq(self.q_ready),
                     dut.retry_received.eq(self.retry_received), dut.retry_required.eq(self.retry_required),
                     dut.keepalive_required.eq(self.keepalive), dut.reject_power_state.eq(self.lxu)]
        enable = Signal(name="g_enable")
        reset = Signal(name="g_usb_reset")
        if self.free_enable:
            m.d.comb += [enable.eq(self.enable), reset.eq(self.usb_reset)]
        else:
            m.d.comb += [enable.eq(1), reset.eq(0)]
        m.d.comb += [dut.enable.eq(enable), dut.usb_reset.eq(reset)]

        # ------------------------------------------------ parse the DUT's link commands
        xfer = Signal(name="lc_xfer")
        second = Signal(name="lc_second")
        ev_lc = Signal(name="ev_lc")
        cmd = Signal(4, name="lc_cmd")
        sub = Signal(4, name="lc_sub")
        sdata, sctrl = dut.source.data, dut.source.ctrl
        m.d.comb += [xfer.eq(dut.source.valid & self.src_ready), ev_lc.eq(xfer & second),
                     cmd.eq(sdata[7:11]), sub.eq(sdata[0:4])]
        with m.If(xfer):
            m.d.ss += second.eq(~second)
        m.d.comb += self.v["lc_format"].eq(xfer & Mux(second,
                                                       (sctrl != 0) | (sdata[0:16] != sdata[16:32]) | (sdata[4:7] != 0),
                                                       (sdata != ss_link.LCSTART[0]) | (sctrl != 0xF)))
        # commands completing while the link is down, and the one command already on the wire when it went down /
        # was reset, do not belong to the new link session
        stale = Signal(name="lc_stale")
        live = Signal(name="lc_live")
        is_lgood = Signal(name="is_lgood")
        is_lcrd = Signal(name="is_lcrd")
        is_lbad = Signal(name="is_lbad")
        m.d.comb += [is_lgood.eq(ev_lc & live & (cmd == ss_link.LGOOD)), is_lcrd.eq(ev_lc & live & (cmd == ss_link.LCRD)),
                     is_lbad.eq(ev_lc & live & (cmd == ss_link.LBAD))]
        self.obs("ev_lc", ev_lc)
        self.obs("lc_cmd", cmd)
        self.obs("lc_sub", sub)
        self.obs("src_t", src.t)
        self.obs("q_valid", dut.queue.valid)

        # ------------------------------------------------ ghost link state
        last_en = Signal(name="g_last_en")
        m.d.ss += last_en.eq(enable)
        down_ev = Signal(name="g_down_ev")          # link left U0 / USB reset: receive state must become fresh
        m.d.comb += down_ev.eq((last_en & ~enable) | reset)
        up_ev = Signal(name="g_up_ev")
        m.d.comb += up_ev.eq(enable & ~last_en)

        m.d.comb += live.eq(enable & ~stale)
        with m.If(ev_lc):
            m.d.ss += stale.eq(0)
        with m.If(down_ev & dut.source.valid & ~ev_lc):
            m.d.ss += stale.eq(1)

        g_exp = Signal(3, name="g_exp")             # next expected header sequence number
        g_ign = Signal(name="g_ign")                # ignoring headers until the partner's retry
        n_acc = Signal(4, name="n_acc")             # headers accepted since the link came up
        n_del = Signal(4, name="n_del")             # headers delivered to the protocol layer since then
        n_bad = Signal(4, name="n_bad")
        n_lbad = Signal(4, name="n_lbad")
        n_lgood = Signal(4, name="n_lgood")         # acknowledging LGOODs (without the advertisement)
        n_lcrd = Signal(4, name="n_lcrd")
        g_ack = Signal(3, name="g_ack")             # sequence number the next acknowledging LGOOD must carry
        adv_pending = Signal(name="adv_pending", init=1)
        lbad_open = Signal(name="lbad_open")        # an LBAD went out and no retry has been received since
        trk = Signal(107, name="trk_hdr")
        trk_have = Signal(name="trk_have")

        seq_now = src.lcw_now[0:3]
        hdr_now = Signal(107, name="hdr_now")
        # header content of the packet currently being completed (DW0..2 registers hold the words already sent)
        m.d.comb += hdr_now.eq(Cat(src.dw[0], src.dw[1], src.dw[2], src.lcw_now))

        acc_ev = Signal(name="g_acc_ev")
        bad_ev = Signal(name="g_bad_ev")
        seq_ev = Signal(name="g_seq_ev")
        with m.If(src.ev_dw3 & ~g_ign):
            with m.If(~src.hdr_ok_now):
                m.d.comb += bad_ev.eq(1)
            with m.Elif(seq_now == g_exp):
                m.d.comb += acc_ev.eq(1)
            with m.Else():
                m.d.comb += seq_ev.eq(1)
        with m.If(acc_ev):
            m.d.ss += [g_exp.eq(g_exp + 1), n_acc.eq(n_acc + 1)]
            with m.If(n_acc == self.k):
                m.d.ss += [trk.eq(hdr_now), trk_have.eq(1)]
        with m.If(bad_ev):
            m.d.ss += [g_ign.eq(1), n_bad.eq(n_bad + 1)]
        with m.If(self.retry_received):
            m.d.ss += [g_ign.eq(0), lbad_open.eq(0)]

        # delivery to the protocol layer
        del_ev = Signal(name="g_del_ev")
        m.d.comb += del_ev.eq(dut.queue.valid & self.q_ready)
        with m.If(del_ev):
            m.d.ss += n_del.eq(n_del + 1)
        qh = dut.queue.header
        q_hdr = Signal(107, name="q_hdr")
        m.d.comb += q_hdr.eq(Cat(qh.dw0, qh.dw1, qh.dw2, qh.sequence_number, qh.dw3_reserved, qh.hub_depth,
                                 qh.delayed, qh.deferred))
        # acceptance pipeline: DW3 at c -> visible on queue at c+3
        n_acc_d = [Signal(4, name=f"n_acc_d{i}") for i in range(3)]
        m.d.ss += [n_acc_d[0].eq(n_acc), n_acc_d[1].eq(n_acc_d[0]), n_acc_d[2].eq(n_acc_d[1])]

        m.d.comb += [
            # k-th delivered header == k-th accepted header
            self.v["deliver_order"].eq(del_ev & (n_del == self.k) & (~trk_have | (q_hdr != trk))),
            # nothing is offered that was not accepted (delivered <= accepted)
            self.v["offer_valid"].eq(dut.queue.valid & (n_del >= n_acc)),
            # an accepted header is offered (accept <= : valid CRCs and expected sequence must be accepted)
            self.v["offer_missing"].eq(~dut.queue.valid & (n_acc_d[1] > n_del) & enable & last_en & ~down_ev),
        ]

        # link commands
        with m.If(is_lgood):
            with m.If(adv_pending):
                m.d.ss += adv_pending.eq(0)
            with m.Else():
                m.d.ss += [n_lgood.eq(n_lgood + 1), g_ack.eq(g_ack + 1)]
        with m.If(is_lcrd):
            m.d.ss += n_lcrd.eq(n_lcrd + 1)
        with m.If(is_lbad):
            m.d.ss += [n_lbad.eq(n_lbad + 1), lbad_open.eq(1)]
        m.d.comb += [
            # advertisement carries the last received sequence number; acknowledgements carry the accepted header's
            # number, one per accepted header, never ahead of acceptance
            self.v["lgood_number"].eq(is_lgood & Mux(adv_pending, sub != (g_exp - 1)[0:3],
                                                     (sub != g_ack) | (n_lgood >= n_acc))),
            # an LBAD needs a corrupted header as its cause (one per corrupted, non-ignored header)
            self.v["lbad_cause"].eq(is_lbad & (n_lbad >= n_bad)),
            # credits in A-B-C-D order ...
            self.v["lcrd_order"].eq(is_lcrd & (sub != n_lcrd[0:2])),
            # ... only for free buffers: 4 initially, then one per header consumed by the protocol layer
            self.v["lcrd_free"].eq(is_lcrd & (n_lcrd >= n_del + 4)),
            # the sequence number advertisement precedes credits / LBAD
            self.v["adv_first"].eq((is_lcrd | is_lbad) & adv_pending),
        ]

        # ------------------------------------------------ partner contract
        hp_tail = Signal(2, name="hp_tail")     # 2 cycles after DW3 (check + registered strobe)
        with m.If(src.ev_dw3):
            m.d.ss += hp_tail.eq(2)
        with m.Elif(hp_tail != 0):
            m.d.ss += hp_tail.eq(hp_tail - 1)
        span = Signal(name="hp_span")
        m.d.comb += span.eq(src.in_hp | (hp_tail != 0))
        m.d.comb += [
            self.a_credit.eq(~src.ev_hpstart | (n_lcrd > n_acc)),
            self.a_retry.eq(~self.retry_received | (lbad_open & ~span)),
        ]

        # ------------------------------------------------ C38: link down / reset -> fresh state, re-advertisement
        if self.free_enable:
            up_age = Signal(2, name="up_age")        # cycles enable has been high since it rose (saturating)
            seen_valid = Signal(name="seen_valid")
            mid = {n: Signal(name=f"mid_{n}") for n in ("lgood", "lcrd", "lbad", "lrty", "keepalive")}
            with m.If(down_ev):
                m.d.ss += [adv_pending.eq(1), n_acc.eq(0), n_del.eq(0), n_bad.eq(0), n_lbad.eq(0), n_lgood.eq(0),
                           n_lcrd.eq(0), g_ign.eq(0), lbad_open.eq(0), trk_have.eq(0),
                           n_acc_d[0].eq(0), n_acc_d[1].eq(0), n_acc_d[2].eq(0)]
                m.d.ss += g_ack.eq(Mux(reset, 0, g_exp))
                with m.If(reset):
                    m.d.ss += g_exp.eq(0)
            with m.If(~enable | down_ev):
                m.d.ss += [up_age.eq(0), seen_valid.eq(0)]
            with m.Else():
                with m.If(up_age != 3):
                    m.d.ss += up_age.eq(up_age + 1)
                with m.If(dut.source.valid):
                    m.d.ss += seen_valid.eq(1)
            m.d.comb += [
                # after coming up the advertisement is started within 3 cycles (dispatch, generate, LCSTART)
                self.v["adv_missing"].eq(enable & ~down_ev & adv_pending & (up_age == 3) & ~seen_valid & ~dut.source.valid),
                # receive state is fresh: nothing buffered before the link went down is still offered
                self.v["stale_offer"].eq(dut.queue.valid & (n_acc == 0) & enable & last_en & ~down_ev),
                # contract: no header packets while the link is down / in reset; DUT's transmitter idle when it comes up
                self.a_quiet.eq(~(span | src.ev_hpstart) | (enable & last_en & ~reset)),
                self.a_idle_up.eq(~up_ev | (~dut.source.valid & ~second)),
            ]
            # what was being sent when the link went down (cover twins for the crash points)
            busy = dut.source.valid
            was_down = Signal(name="was_down")
            with m.If(down_ev & busy):
                m.d.ss += [mid["lgood"].eq(0), mid["lcrd"].eq(0), mid["lbad"].eq(0), mid["lrty"].eq(0),
                           mid["keepalive"].eq(0)]
            cur_cmd = Signal(4, name="cur_cmd")      # command of the word in flight (valid in the second word)
            m.d.comb += cur_cmd.eq(cmd)
            down_in_second = Signal(name="down_in_second")
            m.d.comb += down_in_second.eq(down_ev & busy & second & ~reset)
            for n, code in (("lgood", ss_link.LGOOD), ("lcrd", ss_link.LCRD), ("lbad", ss_link.LBAD),
                            ("lrty", ss_link.LRTY), ("keepalive", ss_link.LUP)):
                with m.If(down_in_second & (cur_cmd == code)):
                    m.d.ss += mid[n].eq(1)
            # the link went down (no USB reset) while the receiver was ignoring headers after a corrupted one: the
            # ignore-until-retry state must not survive the re-entry
            down_ignoring = Signal(name="down_ignoring")
            with m.If(down_ev & ~reset & g_ign):
                m.d.ss += down_ignoring.eq(1)
            with m.Elif(reset):
                m.d.ss += down_ignoring.eq(0)
            m.d.comb += self.c["accept_after_ignoring_reentry"].eq(del_ev & down_ignoring & (n_del == 0))
            readv = Signal(name="readv")
            m.d.comb += readv.eq(is_lcrd & (sub == 3) & ~adv_pending)
            with m.If(down_ev & ~reset):
                m.d.ss += was_down.eq(1)
            was_reset = Signal(name="was_reset")
            with m.If(reset):
                m.d.ss += was_reset.eq(1)
            m.d.comb += [
                self.c["readv_after_disable"].eq(readv & was_down & (n_lcrd == 3)),
                self.c["readv_after_reset"].eq(readv & was_reset & (n_lcrd == 3)),
            ]
            # crash-point twins: the link goes down (not a USB reset) while the second word of command n is on the wire
            for n, code in (("lgood", ss_link.LGOOD), ("lcrd", ss_link.LCRD), ("lbad", ss_link.LBAD),
                            ("lrty", ss_link.LRTY), ("keepalive", ss_link.LUP)):
                m.d.comb += self.c[f"disable_mid_{n}"].eq(down_in_second & (cur_cmd == code))

        # ------------------------------------------------ covers
        ign_seen = Signal(name="ign_seen")
        with m.If(src.ev_dw3 & g_ign):
            m.d.ss += ign_seen.eq(1)
        seq_seen = Signal(name="seq_seen")
        with m.If(seq_ev):
            m.d.ss += seq_seen.eq(1)
        m.d.comb += [
            self.c["delivered_k1"].eq(del_ev & (n_del == 1) & (self.k == 1) & trk_have & (q_hdr == trk)),
            self.c["lgood_ack"].eq(is_lgood & ~adv_pending & (sub == g_ack) & (n_lgood == 1)),
            self.c["lbad_sent"].eq(is_lbad),
            self.c["lcrd_after_free"].eq(is_lcrd & (n_lcrd == 4)),
            self.c["ignored_then_accepted"].eq(acc_ev & ign_seen),
            self.c["adv_done"].eq(is_lgood & adv_pending),
            self.c["four_credits"].eq(is_lcrd & (n_lcrd == 3) & (sub == 3)),
            self.c["wrong_seq_dropped"].eq(acc_ev & seq_seen),
        ]
        return m

    def stimulus(self, rng, t, consts):
        d = super().stimulus(rng, t, consts)
        d["src_ready"] = int(rng.random() < 0.8)
        d["retry_received"] = 0
        d["retry_required"] = int(rng.random() < 0.05)
        d["keepalive"] = int(rng.random() < 0.05)
        d["lxu"] = int(rng.random() < 0.05)
        if self.free_enable:
            d["enable"] = int(rng.random() < 0.93)
            d["usb_reset"] = int(rng.random() < 0.03)
        return d

    def const_stimulus(self, rng):
        c = super().const_stimulus(rng)
        seq = 0
        for i in range(len(self.src.packets)):
            if rng.random() < 0.8:
                c[f"p_{i}_m16"] = 0
                c[f"p_{i}_m5"] = 0
                c[f"p_{i}_lcw"] = (c[f"p_{i}_lcw"] & ~7) | seq
                seq = (seq + 1) % 8
        return c


_NO_EXTRA = {"retry_required": 0, "keepalive": 0, "lxu": 0}


def queries(tier):
    quick = tier == "quick"
    qs = []
    f2 = lambda: HeaderRxHarness(n_packets=2, lead=9, spacing=2)
    f3 = lambda: HeaderRxHarness(n_packets=3, lead=9, spacing=3)
    hint = {"*": {"retry_required": 0, "keepalive": 0, "lxu": 0, "src_ready": 1}}
    K2 = f2().K
    qs.append(Query("bmc_2hp_free", f2, K2 if quick else K2 + 8, timeout=900, hints=hint, split=False,
                    covers=["delivered_k1", "lgood_ack", "lbad_sent", "adv_done", "four_credits", "lcrd_after_free"],
                    desc="2 symbolic headers (content, sequence numbers, CRC corruption masks); PHY ready, protocol-layer "
                         "consumption, partner retry and LRTY/keepalive/LXU requests free in every cycle; all assertions"))
    qs.append(Query("bmc_3hp_calm", f3, f3().K, layer=_NO_EXTRA, timeout=900, hints=hint, split=False,
                    covers=["ignored_then_accepted", "wrong_seq_dropped"],
                    desc="layer: no LRTY/keepalive/LXU requests; 3 symbolic headers (bad header, ignored header, retry, "
                         "wrong sequence number); PHY ready, consumption and retry free"))
    fb = lambda: HeaderRxHarness(n_packets=2, lead=9, spacing=0)
    qs.append(Query("bmc_2hp_back_to_back", fb, fb().K, layer=_NO_EXTRA, timeout=900, hints=hint, split=False,
                    covers=["delivered_k1"],
                    desc="2 symbolic headers with no idle word between them (the second HPSTART directly follows the first "
                         "header's last word); PHY ready, consumption and retry free"))
    # all four buffers in use at once: four headers while the protocol layer accepts none of them
    f4 = lambda: HeaderRxHarness(n_packets=4, lead=9, spacing=1)
    qs.append(Query("bmc_4hp_consumer_stalled", f4, f4().K, layer=dict(_NO_EXTRA, q_ready=0), timeout=900, hints=hint,
                    split=False, covers=[],
                    desc="layer: protocol layer never ready, no LRTY/keepalive/LXU; 4 symbolic headers fill all four buffers: "
                         "each is accepted, acknowledged and stays offered"))
    if not quick:
        qs.append(Query("bmc_3hp_free", f3, f3().K + 6, timeout=1800, covers=[], split=False,
                        desc="3 symbolic headers, everything free, deeper"))
        f5 = lambda: HeaderRxHarness(n_packets=5, lead=9, spacing=1)
        qs.append(Query("bmc_5hp_calm", f5, f5().K, layer=_NO_EXTRA, covers=[], timeout=1800, split=False,
                        desc="layer: no LRTY/keepalive/LXU; 5 headers (buffer wrap-around, credit re-issue)"))
        fg = lambda: HeaderRxHarness(n_packets=2, lead=9, spacing=2, gaps=(2, 4))
        qs.append(Query("bmc_2hp_gaps", fg, fg().K, covers=[], timeout=1800, split=False,
                        desc="2 headers with invalid cycles inside them; everything free"))
    qs.append(Query("cosim", f3, 0, kind="cosim", cosim_cycles=120 if quick else 600))
    return qs
