"""C38 -- link re-entry always re-advertises sequence number and credits.

Same DUT and harness as C37 (HeaderPacketReceiver, lib/ss_link scripted partner), but `enable` and `usb_reset` are
free inputs in every cycle (crash points): the solver chooses when the link goes down / is reset, including in the
middle of any link command.  Ghost: when the link leaves U0 (enable falls) or a USB reset arrives, the receive state
must become fresh; the next link session must begin with LGOOD(last received sequence number; 7 after a USB reset)
followed by LCRD A, B, C, D; nothing buffered earlier may still be offered; headers are accepted again at once.
"""
from ..engine import Query
from .c37 import HeaderRxHarness

PROP = "C38"
ENCODED = ["luna/gateware/usb/usb3/link/receiver.py: HeaderPacketReceiver.elaborate (reset-on-disable block inside "
           "DISPATCH_COMMAND, acks_to_send / credits_to_issue / next_header_to_ack re-initialisation)",
           "luna/gateware/usb/usb3/link/layer.py: enable = ltssm.link_ready, usb_reset = in_reset (wiring read, not elaborated)"]
ASSUMPTIONS = [
    "all C37 partner assumptions (well-framed headers, credit rule, LRTY contract)",
    "no header packet is on the wire while the link is down or in the cycle it goes down / is reset (the PHY delivers "
    "no packets outside U0)",
    "when enable rises the DUT's link command stream is idle (the link stays down long enough for a command that "
    "was in flight to drain)",
    "the one link command already on the wire when the link goes down / is reset may complete; it is not counted "
    "as part of the new session",
    "bounded liveness: the advertisement's LCSTART is offered within 3 cycles after the link came up",
]
BOUNDS = "BMC from reset, enable/usb_reset free every cycle: quick K=36 everything free, K=36 PHY always ready; thorough K=42/44, " \
         "2 headers K=46"
OUTSIDE = "down/reset while a header is being received; traces longer than the bound; LAU/LPMA responses"


# FINDINGS (HeaderPacketReceiver, luna/gateware/usb/usb3/link/receiver.py; recorded in known_findings.json, status open,
# not patched: the repair touches every state of the command FSM)
#  reset_during_command   The reset-on-disable block `with m.If((last_enable & ~self.enable) | self.usb_reset)` is
#     nested in `m.State("DISPATCH_COMMAND")` (line ~494).  A usb_reset strobe or the falling edge of enable that
#     arrives while the FSM is in SEND_ACKS / ISSUE_CREDITS / SEND_LBAD / SEND_LRTY / SEND_KEEPALIVE / SEND_LXU is
#     lost (last_enable has followed enable by the time the FSM is back): buffers stay filled and offered, no LGOOD
#     advertisement, LCRD numbering continues, a stale lbad_pending / ignore_packets survives re-entry, sequence
#     numbers are not reset.  Predicate: the event's cycle, or the next one, has the DUT's link command stream valid.
#  reset_at_dispatch      usb_reset with the link up in a DISPATCH_COMMAND cycle that also dispatches: the next
#     state (ISSUE_CREDITS, SEND_LBAD, SEND_ACKS) is chosen from the state being discarded, so LCRDs / an LBAD go out
#     before the LGOOD advertisement and the LGOOD numbering is shifted.  Predicate: LCSTART first offered exactly
#     two cycles after the reset cycle, stream idle in between.
#  lgood_owed_at_link_down   Properly handled link-down while an LGOOD is still owed: the block advertises
#     next_header_to_ack - 1, which is the last received sequence number only if every LGOOD had been sent.
#     Predicate: at the link-down the ghost still expects the advertisement or an acknowledgement.
#  All three predicates stay set until the next USB reset (a plain link-down does not restore sequence numbers).
#  A repair was prototyped (global reset block, every SEND_* state returns to DISPATCH_COMMAND, generate gated,
#  dispatch waits for an idle generator, advertise expected_sequence_number - 1): /verif/tools/c38_fix.diff; its
#  first iterations exposed two more races (generate latched in the reset cycle; the stale command's `done` taken
#  as completion of the advertisement), so a partial fix is worse than none.

C38_ASSERTS = ["adv_first", "adv_missing", "stale_offer", "offer_valid", "lgood_number", "lcrd_order", "lcrd_free",
               "lbad_cause", "lc_format"]


def queries(tier):
    quick = tier == "quick"
    f1 = lambda: HeaderRxHarness(n_packets=1, lead=9, spacing=2, free_enable=True)
    f2 = lambda: HeaderRxHarness(n_packets=2, lead=9, spacing=2, free_enable=True)
    calm = {"retry_required": 0, "keepalive": 0, "lxu": 0}
    hint = {"*": dict(calm, src_ready=1)}
    qs = [Query("bmc_1hp_free", f1, 36 if quick else 42, timeout=900, split=False, hints=hint,
                covers=["readv_after_disable", "readv_after_reset", "disable_mid_lgood", "disable_mid_lcrd"],
                desc="1 symbolic header; enable, usb_reset, PHY ready, consumption, retry and LRTY/keepalive/LXU requests "
                     "free in every cycle (crash points everywhere); all assertions"),
          Query("bmc_1hp_ready", f1, 36 if quick else 44, timeout=900, split=False, layer={"src_ready": 1, "lxu": 0},
                hints={"*": {}}, covers=["disable_mid_lbad", "disable_mid_lrty", "disable_mid_keepalive"],
                desc="layer: PHY always ready, no LXU requests; deeper: link-down in the middle of LBAD / LRTY / keepalive")]
    if not quick:
        qs.append(Query("bmc_2hp_free", f2, 46, timeout=1800, split=False, covers=[],
                        desc="2 headers, enable/usb_reset and everything else free"))
    qs.append(Query("cosim", f2, 0, kind="cosim", cosim_cycles=150 if quick else 600))
    return qs
