"""C38 -- link re-entry always re-advertises sequence number and credits.

Same DUT and harness as C37 (HeaderPacketReceiver, lib/ss_link scripted partner), but `enable` and `usb_reset` are
free inputs in every cycle (crash points): the solver chooses when the link goes down / is reset, including in the
middle of any link command.  Ghost: when the link leaves U0 (enable falls) or a USB reset arrives, the receive state
must become fresh; the next link session must begin with LGOOD(last received sequence number; 7 after a USB reset)
followed by LCRD A, B, C, D; nothing buffered earlier may still be offered; headers are accepted again at once.
"""
from ..engine import Query
from .c37 import HeaderRxHarness

PROP = "C38"
ENCODED = ["luna/gateware/usb/usb3/link/receiver.py: HeaderPacketReceiver.elaborate (link restart block "
           "(restart_link), SEND_* state exits, dispatch gating, acks_to_send / credits_to_issue / next_header_to_ack re-initialisation)",
           "luna/gateware/usb/usb3/link/layer.py: enable = ltssm.link_ready, usb_reset = in_reset (wiring read, not elaborated)"]
ASSUMPTIONS = [
    "all C37 partner assumptions (well-framed headers, credit rule, LRTY contract)",
    "no header packet is on the wire while the link is down or in the cycle it goes down / is reset (the PHY delivers "
    "no packets outside U0)",
    "when enable rises the DUT's link command stream is idle (the link stays down long enough for a command that "
    "was in flight to drain)",
    "the one link command already on the wire when the link goes down / is reset may complete; it is not counted "
    "as part of the new session",
    "bounded liveness: the advertisement's LCSTART is offered within 3 cycles after the link came up",
]
BOUNDS = "BMC from reset, enable/usb_reset free every cycle: quick K=36 everything free, K=36 PHY always ready; thorough K=42/44, " \
         "2 headers K=46"
OUTSIDE = "down/reset while a header is being received; traces longer than the bound; LAU/LPMA responses"


# FINDINGS (HeaderPacketReceiver, luna/gateware/usb/usb3/link/receiver.py) -- all three REPAIRED in luna
# (findings/C38_adv_number.patch, C38_reset_at_dispatch.patch, C38_reset_any_state.patch); the scenario predicates
# kf_reset_during_command / kf_reset_at_dispatch / kf_lgood_owed_at_link_down were removed from the harness, every
# assertion is checked at every crash point.
#  reset_during_command   The reset-on-disable block was nested in `m.State("DISPATCH_COMMAND")`: a usb_reset strobe or
#     the falling edge of enable arriving while the FSM was in a SEND_* / ISSUE_CREDITS state was lost.  Now a global
#     block after the FSM (restart_link); every sending state returns to DISPATCH_COMMAND, `generate` is gated in the
#     restart cycle and dispatch waits for a command that was already on the wire to drain.
#  reset_at_dispatch      usb_reset in a DISPATCH_COMMAND cycle that also dispatched: the next state was chosen from
#     the state being discarded.  Now no dispatch in a usb_reset cycle.
#  lgood_owed_at_link_down   The block advertised next_header_to_ack - 1, which is the last received sequence number
#     only if every LGOOD had been sent.  Now expected_sequence_number - 1.

C38_ASSERTS = ["adv_first", "adv_missing", "stale_offer", "offer_valid", "lgood_number", "lcrd_order", "lcrd_free",
               "lbad_cause", "lc_format"]


def queries(tier):
    quick = tier == "quick"
    f1 = lambda: HeaderRxHarness(n_packets=1, lead=9, spacing=2, free_enable=True)
    f2 = lambda: HeaderRxHarness(n_packets=2, lead=9, spacing=2, free_enable=True)
    calm = {"retry_required": 0, "keepalive": 0, "lxu": 0}
    hint = {"*": dict(calm, src_ready=1)}
    qs = [Query("bmc_1hp_free", f1, 36 if quick else 42, timeout=900, split=False, hints=hint,
                covers=["readv_after_disable", "readv_after_reset", "disable_mid_lgood", "disable_mid_lcrd"],
                desc="1 symbolic header; enable, usb_reset, PHY ready, consumption, retry and LRTY/keepalive/LXU requests "
                     "free in every cycle (crash points everywhere); all assertions"),
          Query("bmc_1hp_ready", f1, 36 if quick else 44, timeout=900, split=False, layer={"src_ready": 1, "lxu": 0},
                hints={"*": {}}, covers=["disable_mid_lbad", "disable_mid_lrty", "disable_mid_keepalive"],
                desc="layer: PHY always ready, no LXU requests; deeper: link-down in the middle of LBAD / LRTY / keepalive")]
    if not quick:
        qs.append(Query("bmc_2hp_free", f2, 46, timeout=1800, split=False, covers=[],
                        desc="2 headers, enable/usb_reset and everything else free"))
    # re-entry between two headers: the first header (symbolic, may be corrupted -> LBAD, ignore-until-retry), link down /
    # reset and re-advertisement in the 14-cycle gap, then the second header: it must be accepted and delivered afresh
    f2gap = lambda: HeaderRxHarness(n_packets=2, lead=9, spacing=14, free_enable=True)
    qs.append(Query("bmc_2hp_reentry", f2gap, 46, timeout=1800, split=False, layer={"lxu": 0, "keepalive": 0},
                    asserts=C38_ASSERTS + ["offer_missing", "deliver_order"], covers=["accept_after_ignoring_reentry"],
                    hints={"*": {"src_ready": 1, "retry_required": 0}},
                    desc="2 headers 14 idle words apart; enable / usb_reset free: receive state (buffers, ignore-until-retry, "
                         "sequence expectation) is fresh after re-entry, the next header is accepted and delivered"))
    qs.append(Query("cosim", f2, 0, kind="cosim", cosim_cycles=150 if quick else 600))
    return qs
