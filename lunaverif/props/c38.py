"""C38 -- link re-entry always re-advertises sequence number and credits.

Same DUT and harness as C37 (HeaderPacketReceiver, lib/ss_link scripted partner), but `enable` and `usb_reset` are
free inputs in every cycle (crash points): the solver chooses when the link goes down / is reset, including in the
middle of any link command.  Ghost: when the link leaves U0 (enable falls) or a USB reset arrives, the receive state
must become fresh; the next link session must begin with LGOOD(last received sequence number; 7 after a USB reset)
followed by LCRD A, B, C, D; nothing buffered earlier may still be offered; headers are accepted again at once.
"""
from ..engine import Query
from .c37 import HeaderRxHarness

PROP = "C38"
ENCODED = ["luna/gateware/usb/usb3/link/receiver.py: HeaderPacketReceiver.elaborate (reset-on-disable block inside "
           "DISPATCH_COMMAND, acks_to_send / credits_to_issue / next_header_to_ack re-initialisation)",
           "luna/gateware/usb/usb3/link/layer.py: enable = ltssm.link_ready, usb_reset = in_reset (wiring read, not elaborated)"]
ASSUMPTIONS = [
    "all C37 partner assumptions (well-framed headers, credit rule, LRTY contract)",
    "no header packet is on the wire while the link is down or in the cycle it goes down / is reset (the PHY delivers "
    "no packets outside U0)",
    "when enable rises the DUT's link command stream is idle (the link stays down long enough for a command that "
    "was in flight to drain)",
    "the one link command already on the wire when the link goes down / is reset may complete; it is not counted "
    "as part of the new session",
    "bounded liveness: the advertisement's LCSTART is offered within 3 cycles after the link came up",
]
BOUNDS = "BMC from reset: required K=34 (thorough 40) with enable/usb_reset free every cycle in the layer (PHY always ready, " \
         "no LRTY/keepalive/LXU requests); best effort: PHY ready free K=28, interleaved commands free K=34; thorough adds 2 headers K=46"
OUTSIDE = "down/reset while a header is being received; traces longer than the bound; LAU/LPMA responses"


C38_ASSERTS = ["adv_first", "adv_missing", "stale_offer", "offer_valid", "lgood_number", "lcrd_order", "lcrd_free",
               "lbad_cause", "lc_format"]


def queries(tier):
    quick = tier == "quick"
    f1 = lambda: HeaderRxHarness(n_packets=1, lead=9, spacing=2, free_enable=True)
    f2 = lambda: HeaderRxHarness(n_packets=2, lead=9, spacing=2, free_enable=True)
    K1 = 26 if quick else 40
    calm = {"retry_required": 0, "keepalive": 0, "lxu": 0}
    calm_ready = dict(calm, src_ready=1)
    qs = [Query("bmc_1hp_calm", f1, K1, timeout=2000, split=False, layer=calm_ready, hints={"*": {}},
                covers=["readv_after_disable", "readv_after_reset", "disable_mid_lgood", "disable_mid_lcrd", "disable_mid_lbad"],
                desc="layer: PHY always ready, no LRTY/keepalive/LXU requests; enable and usb_reset free in every cycle "
                     "(crash points incl. mid-LGOOD/LCRD/LBAD); 1 symbolic header; all assertions"),
          Query("bmc_1hp_stall", f1, K1 - 6, timeout=600 if quick else 2000, split=False, layer=calm, asserts=C38_ASSERTS,
                covers=[], required=False,
                desc="best effort: PHY ready free as well (commands stretched over many cycles)"),
          Query("bmc_1hp_busy", f1, K1, timeout=600 if quick else 2000, split=False, layer={"src_ready": 1}, asserts=C38_ASSERTS,
                covers=["disable_mid_lrty", "disable_mid_keepalive"], required=False,
                desc="best effort: LRTY/keepalive/LXU requests free (crash points mid-LRTY / mid-keepalive)")]
    if not quick:
        qs.append(Query("bmc_2hp_calm", f2, 46, timeout=2000, split=False, layer=calm_ready, covers=[],
                        desc="layer: PHY always ready, no LRTY/keepalive/LXU requests; 2 headers, enable/usb_reset free"))
    qs.append(Query("cosim", f2, 0, kind="cosim", cosim_cycles=150 if quick else 600))
    return qs
