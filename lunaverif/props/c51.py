"""C51 -- SPIRegisterInterface reads and writes exactly the addressed register.

DUT: luna.gateware.interface.spi.SPIRegisterInterface (with its SPICommandInterface), small sizes,
register map:  0 = size auto-negotiation (reads all ones, class default)
               1 = special function register: read value = free input `sfr_read`, write_signal + write_strobe
               2 = memory backed register (add_register) with a write strobe
               3.. = unassigned (must read the default value, must ignore writes)

Oracle: a wire-level SPI monitor, independent of the DUT's FSM.
  * counts SCK falling edges while CS is active (the device's sample edge) and deserialises SDI:
    first bit = write flag, then the address MSB first, then the value MSB first;
  * samples SDO at the SCK rising edges of the value phase (where an SPI host samples) -> read word;
  * ghost register file: register 2 is replaced by the written value exactly when a write transaction to
    address 2 has clocked all its bits; nothing else ever changes it.
Assertions
  read_value        the word read back equals: all-ones (0), sfr_read (1), ghost register 2 (2), default (others)
  reg_value         the DUT's register 2 always equals the ghost register (exact register, exact value,
                    aborted / read / other-address transactions change nothing)
  strobe_only_when  a write strobe (reg 2 or sfr 1) only for a completed write to exactly that address,
                    and at most once per transaction
  strobe_happens    a completed write to address 1/2 produces its strobe within 4 cycles
  write_data        at the sfr strobe the write_signal carries the transmitted value

Fixed finding (findings/C51_cs_abort.patch): SPICommandInterface used to overlook a CS de-assertion of 1-3 cycles that
coincided with one of its own state changes (cycle in which the command completes, PROCESSING, LATCH_OUTPUT, cycle in
which the word completes); the next transaction was then taken as the continuation of the aborted one, or ignored in
STALL.  CS gaps of any length (>= 1 cycle) are now part of the checked environment, without a scenario exclusion.
"""
from amaranth import *
from ..harness import Harness
from ..engine import Query
from ..lib.periph import VS, in_vsync

PROP = "C51"

# FINDINGS
#   FIXED (findings/C51_cs_abort.patch; formerly scenario short_cs_gap on read_value, reg_value, strobe_only_when,
#     strobe_happens): CS de-asserted for 1-3 cycles coinciding with a state change of SPICommandInterface (the cycle the
#     command completes, PROCESSING, LATCH_OUTPUT, or the cycle the data word completes) and re-asserted before the FSM
#     looked at CS again: the de-assertion was missed.  History A: write command to address 1, CS low for 3 cycles right
#     after the last command bit, next transaction's first 3 bits shifted in as the data of the aborted command ->
#     spurious write strobe / register written.  History B: CS low for 1 cycle in the cycle after the last data bit
#     (m.next='STALL' overrode 'IDLE') -> the whole following transaction ignored in STALL.
#   Fix: the `~spi.cs` abort check has priority in RECEIVE_COMMAND and SHIFT_DATA (placed last) and is also made in
#     PROCESSING and LATCH_OUTPUT.  All five assertions hold for every CS gap length; no scenario predicate is left.
ENCODED = ["luna/gateware/interface/spi.py: SPICommandInterface.elaborate (command/word shifters, FSM)",
           "luna/gateware/interface/spi.py: SPIRegisterInterface (add_register/add_sfr/_elaborate_register, read mux)"]
LOW_MIN = 5
ASSUMPTIONS = [
    "SPI host contract: SCK is low and has been low in the previous cycle when CS is asserted (mode 0 idle level, "
    "one cycle of setup)",
    f"SCK rate: every SCK low phase inside a transaction lasts >= {LOW_MIN} sync cycles (the device needs 4 cycles "
    "between the last command edge and the first data bit, and registers SDO); high phases >= 1 cycle",
    "the host samples SDO in the cycle in which it raises SCK",
    "CS is inactive in the first cycle after reset (the class documents that a transaction already in progress at "
    "start-up is ignored: STALL state)",
    "sfr_read (the value presented by the special function register) is stable while CS is active",
    "sdi, cs (abort points) and the SCK timing within the contract are free in every cycle",
]
BOUNDS = "BMC from reset; (address bits, register bits) = (2,3) [and (3,4) thorough]; free SCK timing to one complete " \
         "transaction plus the start of the next; restricted layer with a free-running SCK at the fastest allowed rate (low 5, high 1) to two/three transactions (quick: this layer only) " \
         "(write then read back, abort in between)"
OUTSIDE = "hosts faster than the stated SCK rate; read strobes; address/register sizes other than the listed ones; " \
          "more than three transactions"


class SpiRegHarness(Harness):
    domains = (VS,)

    def __init__(self, abits=2, rbits=3, default=None):
        super().__init__()
        from luna.gateware.interface.spi import SPIRegisterInterface
        self.abits, self.rbits = abits, rbits
        self.default = default if default is not None else (0b101 if rbits == 3 else (0xA & ((1 << rbits) - 1)))
        self.dut = dut = SPIRegisterInterface(address_size=abits, register_size=rbits,
                                              default_read_value=self.default)
        self.sfr_read = self.inp("sfr_read", rbits)
        self.sfr_write = Signal(rbits, name="sfr_write")
        self.sfr_strobe = Signal(name="sfr_strobe")
        dut.add_sfr(1, read=self.sfr_read, write_signal=self.sfr_write, write_strobe=self.sfr_strobe)
        self.reg_strobe = Signal(name="reg_strobe")
        self.reg = dut.add_register(2, write_strobe=self.reg_strobe, init=0)
        self.sck = self.inp("sck", signal=dut.spi.sck)
        self.sdi = self.inp("sdi", signal=dut.spi.sdi)
        self.cs = self.inp("cs", signal=dut.spi.cs)
        self.a_idle = self.assume("sck_idle_at_select")
        self.a_rate = self.assume("sck_rate")
        self.a_sfr = self.assume("sfr_stable")
        self.a_rst = self.assume("cs_inactive_at_reset")
        names = ("read_value", "reg_value", "strobe_only_when", "strobe_happens", "write_data")
        self.v = {n: self.viol(n) for n in names}
        cov = ("read_reg", "read_sfr", "read_default", "read_autoneg", "write_reg", "write_sfr", "write_other",
               "abort_in_data", "abort_in_command", "readback_written", "second_transaction")
        self.c = {n: self.cover(n) for n in cov}

    def elaborate(self, platform):
        m = Module()
        dut = self.dut
        m.submodules.dut = in_vsync(dut)
        sync = m.d[VS]
        A, R = self.abits, self.rbits
        CMD = A + 1
        TOTAL = CMD + R
        sck, sdi, cs, sdo = self.sck, self.sdi, self.cs, dut.spi.sdo

        p_sck = Signal(name="g_p_sck")
        p_cs = Signal(name="g_p_cs")
        p_sfr = Signal(R, name="g_p_sfr")
        sync += [p_sck.eq(sck), p_cs.eq(cs), p_sfr.eq(self.sfr_read)]
        fall = Signal(name="g_fall")
        rise = Signal(name="g_rise")
        m.d.comb += [fall.eq(p_sck & ~sck & cs), rise.eq(~p_sck & sck & cs)]

        # --- environment contract
        low_for = Signal(range(LOW_MIN + 1), name="g_low_for")     # cycles SCK has been low (saturating), before this one
        with m.If(sck):
            sync += low_for.eq(0)
        with m.Elif(low_for != LOW_MIN):
            sync += low_for.eq(low_for + 1)
        first = Signal(name="g_first", init=1)
        sync += first.eq(0)
        m.d.comb += self.a_rst.eq(~(first & cs))
        m.d.comb += [
            self.a_idle.eq(~(cs & ~p_cs) | (~sck & ~p_sck)),
            # a rising edge inside a transaction needs LOW_MIN low cycles before it
            self.a_rate.eq(~(cs & p_cs & sck & ~p_sck) | (low_for == LOW_MIN)),
            self.a_sfr.eq(~(cs & p_cs) | (self.sfr_read == p_sfr)),
        ]

        # --- wire monitor
        n = Signal(range(TOTAL + 2), name="g_nbits")      # falling edges seen in this transaction (saturating)
        shreg = Signal(TOTAL, name="g_shreg")             # all sampled SDI bits, first bit ends up at the top
        rd = Signal(R, name="g_rd")                       # SDO sampled at rising edges of the value phase
        nrise = Signal(range(TOTAL + 2), name="g_nrise")
        txn = Signal(2, name="g_txn")                     # transactions started (saturating)
        for nm, s in dict(nbits=n, shreg=shreg, rd=rd, nrise=nrise, txn=txn).items():
            self.obs(nm, s)
        with m.If(~cs):
            sync += [n.eq(0), nrise.eq(0)]
        with m.Else():
            with m.If(~p_cs & (txn != 3)):
                sync += txn.eq(txn + 1)
            with m.If(fall & (n <= TOTAL)):
                sync += n.eq(n + 1)
                with m.If(n < TOTAL):
                    sync += shreg.eq(Cat(sdi, shreg[:-1]))
            with m.If(rise & (nrise <= TOTAL)):
                sync += nrise.eq(nrise + 1)
                with m.If((nrise >= CMD) & (nrise < TOTAL)):
                    sync += rd.eq(Cat(sdo, rd[:-1]))

        # command as seen after CMD bits: available from shreg's low CMD bits while n == CMD.. ; keep a copy
        cmd = Signal(CMD, name="g_cmd")
        with m.If(cs & fall & (n == CMD - 1)):
            sync += cmd.eq(Cat(sdi, shreg[:CMD - 1]))
        is_write = cmd[-1]
        addr = cmd[:A]

        # read check: at the rising edge that samples the last value bit
        rd_now = Signal(R, name="g_rd_now")
        m.d.comb += rd_now.eq(Cat(sdo, rd[:-1]))
        last_rise = Signal(name="g_last_rise")
        m.d.comb += last_rise.eq(cs & rise & (nrise == TOTAL - 1) & (n == TOTAL - 1))
        g_reg = Signal(R, name="g_reg")                   # ghost register 2
        self.obs("g_reg", g_reg)
        exp_rd = Signal(R, name="g_exp_rd")
        with m.Switch(addr):
            with m.Case(0):
                m.d.comb += exp_rd.eq((1 << R) - 1)
            with m.Case(1):
                m.d.comb += exp_rd.eq(self.sfr_read)
            with m.Case(2):
                m.d.comb += exp_rd.eq(g_reg)
            with m.Default():
                m.d.comb += exp_rd.eq(self.default)
        m.d.comb += self.v["read_value"].eq(last_rise & (rd_now != exp_rd))

        # write completion: the falling edge that clocks the last value bit
        complete = Signal(name="g_complete")
        m.d.comb += complete.eq(cs & fall & (n == TOTAL - 1))
        value = Signal(R, name="g_value")
        m.d.comb += value.eq(Cat(sdi, shreg[:R - 1]))
        pend = Signal(name="g_pend")                      # completed write to 1 or 2 waiting for its strobe
        pend_addr = Signal(A, name="g_pend_addr")
        pend_val = Signal(R, name="g_pend_val")
        age = Signal(3, name="g_age")
        strobe_any = Signal(name="g_strobe_any")
        m.d.comb += strobe_any.eq(self.reg_strobe | self.sfr_strobe)
        ok_strobe = Signal(name="g_ok_strobe")
        m.d.comb += ok_strobe.eq(pend & Mux(pend_addr == 2, self.reg_strobe & ~self.sfr_strobe,
                                            self.sfr_strobe & ~self.reg_strobe))
        with m.If(pend):
            sync += age.eq(age + 1)
        with m.If(strobe_any):
            sync += pend.eq(0)
            with m.If(ok_strobe & (pend_addr == 2)):
                sync += g_reg.eq(pend_val)
        with m.If(complete & is_write & ((addr == 1) | (addr == 2))):
            sync += [pend.eq(1), pend_addr.eq(addr), pend_val.eq(value), age.eq(0)]
        m.d.comb += [
            self.v["strobe_only_when"].eq(strobe_any & ~ok_strobe),
            self.v["strobe_happens"].eq(pend & ~strobe_any & (age == 4)),
            self.v["write_data"].eq(ok_strobe & (pend_addr == 1) & (self.sfr_write != pend_val)),
            self.v["reg_value"].eq(self.reg != g_reg),
        ]

        # --- covers
        wrote = Signal(name="g_wrote")                    # a write to register 2 with a value != 0 was completed
        with m.If(ok_strobe & (pend_addr == 2) & (pend_val != 0)):
            sync += wrote.eq(1)
        aborted_data = Signal(name="g_aborted_data")
        aborted_cmd = Signal(name="g_aborted_cmd")
        with m.If(~cs & p_cs & (n > CMD) & (n < TOTAL)):
            sync += aborted_data.eq(1)
        with m.If(~cs & p_cs & (n > 0) & (n < CMD)):
            sync += aborted_cmd.eq(1)
        m.d.comb += [
            self.c["read_reg"].eq(last_rise & (addr == 2) & ~is_write),
            self.c["read_sfr"].eq(last_rise & (addr == 1) & ~is_write & (rd_now == 0b10)),
            self.c["read_default"].eq(last_rise & (addr == 3) & ~is_write),
            self.c["read_autoneg"].eq(last_rise & (addr == 0) & ~is_write),
            self.c["write_reg"].eq(ok_strobe & (pend_addr == 2) & (pend_val == 0b110)),
            self.c["write_sfr"].eq(ok_strobe & (pend_addr == 1)),
            self.c["write_other"].eq(complete & is_write & (addr == 3)),
            self.c["abort_in_data"].eq(aborted_data & is_write & (addr == 2) & ~cs & p_cs),
            self.c["abort_in_command"].eq(aborted_cmd & ~cs & p_cs),
            self.c["readback_written"].eq(last_rise & (addr == 2) & ~is_write & wrote & (rd_now != 0)),
            self.c["second_transaction"].eq(last_rise & (txn == 2)),
        ]
        return m

    def stimulus(self, rng, t, consts):
        # a slow mode-0 host with random abort points
        st = getattr(self, "_st", None)
        if st is None:
            st = self._st = dict(cs=0, sck=0, low=0, sfr=0)
        if st["cs"] == 0:
            st["sck"] = 0
            st["low"] += 1
            st["sfr"] = rng.getrandbits(self.rbits)
            if st["low"] >= 2 and rng.random() < 0.5:
                st["cs"] = 1
        else:
            if rng.random() < 0.02:
                st["cs"] = 0
                st["sck"] = 0
                st["low"] = 0
            elif st["sck"]:
                if rng.random() < 0.7:
                    st["sck"] = 0
                    st["low"] = 0
            else:
                st["low"] += 1
                if st["low"] > LOW_MIN and rng.random() < 0.6:
                    st["sck"] = 1
        return dict(sck=st["sck"], cs=st["cs"], sdi=rng.getrandbits(1), sfr_read=st["sfr"])


SCK_PERIOD = LOW_MIN + 1


def _sck_pattern(t):
    # free-running host clock for the restricted layer at the fastest rate the contract allows:
    # low LOW_MIN cycles, high 1 cycle, starting low
    return 1 if (t % SCK_PERIOD) == SCK_PERIOD - 1 else 0


READ = ["read_value"]
WRITE = ["reg_value", "strobe_only_when", "strobe_happens", "write_data"]


def _families(qs, tag, f, K, desc, covers, layer=None, required=True):
    """read family, write family and the cover twins, each solved in a single process"""
    kw = dict(timeout=900, split=False, layer=layer, required=required)
    qs.append(Query(f"bmc_{tag}_read", f, K, asserts=READ, covers=[], desc=desc + " [read-back value]", **kw))
    qs.append(Query(f"bmc_{tag}_write", f, K, asserts=WRITE, covers=[], desc=desc + " [register update / strobes]", **kw))
    qs.append(Query(f"cover_{tag}", f, K, asserts=[], covers=covers, desc=desc + " [witnesses]", **kw))


def queries(tier):
    qs = []
    quick = tier == "quick"
    f23 = lambda: SpiRegHarness(2, 3)
    bits = 6
    # restricted layer: free-running SCK at the maximum rate, cs (abort points, gaps) and sdi free in every cycle
    K2 = SCK_PERIOD * bits * 2 + 14
    _families(qs, "fixedsck_a2r3", f23, K2 if quick else K2 + SCK_PERIOD * (bits + 1),
              "address 2 bits / register 3 bits; layer: free-running SCK (low 5, high 1); cs and sdi free every cycle: "
              "two (thorough: three) transactions, write then read back, aborts anywhere",
              ["readback_written", "second_transaction", "abort_in_data", "abort_in_command", "write_sfr", "read_default",
               "read_autoneg", "write_other"],
              layer={"sck": _sck_pattern})
    if not quick:
        # free layer: SCK timing free within the rate contract
        K1 = bits * SCK_PERIOD + 20
        _families(qs, "free_a2r3", f23, K1,
                  "address 2 bits / register 3 bits: sck timing (within the rate contract), sdi, cs free every cycle; "
                  "one complete transaction and aborted ones",
                  ["read_reg", "read_sfr", "read_default", "read_autoneg", "write_reg", "write_sfr", "write_other",
                   "abort_in_data", "abort_in_command"])
        f34 = lambda: SpiRegHarness(3, 4)
        _families(qs, "fixedsck_a3r4", f34, SCK_PERIOD * 8 * 2 + 14,
                  "address 3 bits / register 4 bits; layer: free-running SCK; cs and sdi free: two transactions",
                  ["readback_written", "second_transaction", "write_sfr", "read_default"], layer={"sck": _sck_pattern})
        _families(qs, "free_a3r4", f34, 8 * SCK_PERIOD + 10,
                  "address 3 bits / register 4 bits: everything free within the contract; one transaction",
                  ["read_reg", "write_reg"], required=False)
    qs.append(Query("cosim_a2r3", f23, 0, kind="cosim", cosim_cycles=200 if quick else 3000))
    return qs
