"""C13 -- bulk OUT endpoints ACK exactly the data they deliver.

DUT: luna.gateware.usb.usb2.endpoints.stream.USBStreamOutEndpoint (real class, with its real
USBOutStreamBoundaryDetector and TransactionalizedFIFO inside).
Environment: interface-level host (lib/outhost.py) + free consumer `ready`.
Oracle (independent of the DUT's internals): a ghost data toggle as a spec-following receiver keeps it
(USB 2.0 8.6), a ghost byte count of accepted / delivered payload with a tracked element (const index k), a ghost
buffer occupancy, and a ghost transfer flag (a transfer ends with an accepted packet shorter than max packet size).
"""
from amaranth import *
from ..harness import Harness
from ..engine import Query
from ..lib.outhost import OutHost, PID_OUT, PID_PING

PROP = "C13"
ENCODED = [
    "luna/gateware/usb/usb2/endpoints/stream.py: USBStreamOutEndpoint.elaborate (ack/nak equations, overflow, "
    "rx_cnt, transfer_active, expected_data_toggle, FIFO commit/discard)",
    "luna/gateware/usb/stream.py: USBOutStreamBoundaryDetector (as instantiated by the endpoint)",
    "luna/gateware/memory.py: TransactionalizedFIFO (as instantiated by the endpoint, domain usb)",
]
ASSUMPTIONS = OutHost.CONTRACT + [
    "data packets carry 0..max_packet_size payload bytes (no babble)",
    "clear_endpoint_halt_in is tied inactive (subject of C14)",
    "consumer: stream.ready free every cycle",
    "a transfer ends with an accepted packet shorter than max_packet_size, including a zero-length packet "
    "(USB 2.0 5.8.3); the byte after it starts a transfer",
]
BOUNDS = "BMC from reset; configurations (mps, buffer) = (2,3) [the class default buffer 2*mps-1] quick; (2,2), (3,5) " \
         "thorough; all host/consumer schedules and data up to K cycles (quick 20, thorough 24 [22 for mps 3]; the payload-equality assertion 2 less; 3 transactions; restricted best-effort layer to 30)"
OUTSIDE = "histories longer than K cycles; packets longer than max_packet_size; DATA2/MDATA pids; " \
          "clear-halt during traffic (C14); byte-level framing/CRC (C02 provides the interface contract)"

# FINDINGS (genuine defects found by this check on the original tree, fixed in /repo):
#   "fix: a bulk OUT packet that overflowed the buffer is NAKed, not ACKed"
#       the overflow flag was cleared at the packet's commit/discard (2 cycles after rx_complete) but the handshake is
#       decided at rx_ready_for_response (10 cycles after it at full speed, 60 MHz): the discarded packet was ACKed and
#       the data toggle advanced.  Caught by: lost, ping_ack_noroom (response gap >= 3 cycles, K <= 18).
#   "fix: only an accepted bulk OUT packet starts, continues or ends a transfer"
#       transfer_active was updated speculatively while a packet streamed in and never by a zero-length packet: a
#       corrupted/NAKed full-size packet, or full packet + ZLP, left the next transfer's first byte without `first`.
#       Caught by: first_mark (K <= 20).

EP = 1


class BulkOutHarness(Harness):
    domains = ("usb",)

    def __init__(self, mps=2, buf=3, pkt_gap=3):
        super().__init__()
        from luna.gateware.usb.usb2.endpoints.stream import USBStreamOutEndpoint
        self.mps, self.buf = mps, buf
        self.dut = USBStreamOutEndpoint(endpoint_number=EP, max_packet_size=mps, buffer_size=buf)
        self.host = OutHost(self, self.dut.interface, mps, pkt_gap)
        self.ready = self.inp("ready", signal=self.dut.stream.ready)
        self.k = self.inp("k", 4, const=True)
        self.restrictions = ["clear_endpoint_halt_in tied 0"]
        V = ("resp_one", "repeat_ack", "nak_unjustified", "ping_one", "ping_ack_noroom", "ping_nak_room",
             "hs_unasked", "data", "first_mark", "last_mark", "phantom", "lost")
        self.v = {n: self.viol(n) for n in V}
        C = ("ack_new", "ack_zlp", "ack_repeat", "nak_data", "nak_midpacket", "ping_ack", "ping_nak", "invalid_us",
             "match", "match_last", "match_first", "match_nofirst", "match_second_transfer")
        self.c = {n: self.cover(n) for n in C}

    def stimulus(self, rng, t, consts):
        d = self.host.stimulus(rng, t, consts, EP)
        d["ready"] = int(rng.random() < 0.4)
        d["k"] = consts["k"]
        return d

    def elaborate(self, platform):
        m = Module()
        m.submodules.dut = dut = self.dut
        host, mps, buf = self.host, self.mps, self.buf
        host.elaborate(m)
        hs = dut.interface.handshakes_out
        ack, nak, stall = hs.ack, hs.nak, hs.stall
        st = dut.stream
        v, c = self.v, self.c
        W = 5

        for_us = Signal(name="g_for_us")
        ping_us = Signal(name="g_ping_us")
        data_resp = Signal(name="g_data_resp")
        ping_resp = Signal(name="g_ping_resp")
        m.d.comb += [
            for_us.eq((host.pid == PID_OUT) & (host.ep == EP)),
            ping_us.eq((host.pid == PID_PING) & (host.ep == EP)),
            data_resp.eq(host.ev_resp & for_us),
            ping_resp.eq(host.ev_tok_rfr & ping_us),
        ]

        # ---- ghost state
        g_exp = Signal(name="g_exp")                 # data toggle a spec-following receiver expects
        g_xfer = Signal(name="g_xfer")               # a transfer is in progress (last accepted packet was full-size)
        acc_cnt = Signal(W, name="g_acc_cnt")        # payload bytes of accepted (ACKed, new toggle) packets
        del_cnt = Signal(W, name="g_del_cnt")        # bytes taken by the consumer
        occ = Signal(W, name="g_occ")                # accepted bytes not yet taken by the consumer
        occ_d1 = Signal(W, name="g_occ_d1")
        occ_tok = Signal(W, name="g_occ_tok")        # occupancy when the current token arrived
        age = Signal(2, name="g_age")                # cycles since the last acceptance (saturating)
        cand_v = Signal(name="g_cand_v")             # the packet in flight contains accepted-byte index k
        cand_done = Signal(name="g_cand_done")       # ... and its CRC was good (waiting for the response)
        cand_byte = Signal(8, name="g_cand_byte")
        cand_pos = Signal(range(mps + 1), name="g_cand_pos")
        a_valid = Signal(name="g_a_valid")
        a_byte = Signal(8, name="g_a_byte")
        a_first = Signal(name="g_a_first")
        a_last = Signal(name="g_a_last")
        a_pos0 = Signal(name="g_a_pos0")
        a_xfer2 = Signal(name="g_a_xfer2")
        xfers_done = Signal(name="g_xfers_done")     # at least one transfer has ended
        d_valid = Signal(name="g_d_valid")
        d_byte = Signal(8, name="g_d_byte")
        d_first = Signal(name="g_d_first")
        d_last = Signal(name="g_d_last")
        for s in (g_exp, g_xfer, acc_cnt, del_cnt, occ, cand_v, cand_done, a_valid, d_valid):
            self.obs(s.name, s)
        for n, s in (("ack", ack), ("nak", nak), ("st_valid", st.valid), ("st_payload", st.payload),
                     ("st_first", st.first), ("st_last", st.last), ("ev_token", host.ev_token), ("pid", host.pid),
                     ("ep", host.ep), ("rx_valid", host.in_pkt), ("rx_next", host.ev_byte),
                     ("complete", host.ev_complete), ("invalid", host.ev_invalid), ("resp", host.ev_resp),
                     ("tok_rfr", host.ev_tok_rfr), ("toggle", host.toggle), ("plen", host.plen)):
            self.obs(n, s)

        new = Signal(name="g_new")
        accept = Signal(name="g_accept")
        xfer = Signal(name="g_xfer_ev")
        m.d.comb += [
            new.eq(host.toggle == g_exp),
            accept.eq(data_resp & ack & new),
            xfer.eq(st.valid & st.ready),
        ]

        # candidate capture while a packet addressed to us streams in
        with m.If(host.ev_start):
            m.d.usb += [cand_v.eq(0), cand_done.eq(0)]
        with m.If(host.ev_byte & for_us & ((acc_cnt + host.plen_cur)[:W] == self.k)):
            m.d.usb += [cand_v.eq(1), cand_byte.eq(host.pkt_data), cand_pos.eq(host.plen_cur)]
        with m.If(host.ev_complete & for_us):
            m.d.usb += cand_done.eq(1)
        with m.If(host.ev_invalid):
            m.d.usb += cand_v.eq(0)
        with m.If(data_resp):
            m.d.usb += [cand_v.eq(0), cand_done.eq(0)]
        with m.If(accept):
            m.d.usb += [g_exp.eq(~g_exp), acc_cnt.eq(acc_cnt + host.plen_r), g_xfer.eq(host.plen_r == mps), age.eq(0)]
            with m.If(host.plen_r != mps):
                m.d.usb += xfers_done.eq(1)
            with m.If(cand_v):
                m.d.usb += [a_valid.eq(1), a_byte.eq(cand_byte),
                            a_pos0.eq(cand_pos == 0),
                            a_first.eq((cand_pos == 0) & ~g_xfer),
                            a_last.eq((cand_pos == host.plen_r - 1) & (host.plen_r != mps)),
                            a_xfer2.eq(xfers_done)]
        with m.Elif(age != 3):
            m.d.usb += age.eq(age + 1)
        m.d.usb += [occ.eq(occ + Mux(accept, host.plen_r, 0) - xfer), occ_d1.eq(occ)]
        with m.If(host.ev_token):
            m.d.usb += occ_tok.eq(occ)
        with m.If(xfer):
            m.d.usb += del_cnt.eq(del_cnt + 1)
            with m.If((del_cnt == self.k) & ~d_valid):
                m.d.usb += [d_valid.eq(1), d_byte.eq(st.payload), d_first.eq(st.first), d_last.eq(st.last)]

        # ---- assertions
        space = Signal(W, name="g_space")
        space_d1 = Signal(W, name="g_space_d1")
        space_tok = Signal(W, name="g_space_tok")
        m.d.comb += [space.eq(buf - occ), space_d1.eq(buf - occ_d1), space_tok.eq(buf - occ_tok)]
        both = a_valid & d_valid
        m.d.comb += [
            # a CRC-valid packet to the endpoint is answered by exactly one of ACK / NAK
            v["resp_one"].eq(data_resp & (~(ack ^ nak) | stall)),
            # a repeated toggle is ACKed (the earlier copy was delivered) [USB 2.0 8.6.3]
            v["repeat_ack"].eq(data_resp & ~new & ~ack),
            # NAK only if the packet did not fit into the space that was free when its token arrived
            v["nak_unjustified"].eq(data_resp & new & nak & (host.plen_r <= space_tok) & (occ_tok <= buf)),
            v["ping_one"].eq(ping_resp & (~(ack ^ nak) | stall)),
            # PING: ACK only with room for a whole max-size packet; NAK only without (one cycle read lag allowed)
            v["ping_ack_noroom"].eq(ping_resp & ack & ((space < mps) | (occ > buf))),
            v["ping_nak_room"].eq(ping_resp & nak & (space_d1 >= mps) & (occ_d1 <= buf) & (space >= mps)),
            # handshakes only in answer to a data packet / PING addressed to this endpoint
            v["hs_unasked"].eq((ack | nak | stall) & ~data_resp & ~ping_resp),
            # tracked element: k-th delivered byte = k-th accepted byte, with the right marks
            v["data"].eq(both & (a_byte != d_byte)),
            v["first_mark"].eq(both & (a_first != d_first)),
            v["last_mark"].eq(both & (a_last != d_last)),
            # a delivered byte belongs to an accepted packet or to a CRC-good packet still waiting for its ACK
            v["phantom"].eq(d_valid & ~a_valid & ~(cand_v & cand_done)),
            # every accepted byte is offered on the stream (commit latency: 2 cycles after the ACK)
            v["lost"].eq((acc_cnt > del_cnt) & ~st.valid & (age >= 2)),
        ]
        m.d.comb += [
            c["ack_new"].eq(accept & (host.plen_r != 0)),
            c["ack_zlp"].eq(accept & (host.plen_r == 0)),
            c["ack_repeat"].eq(data_resp & ack & ~new),
            c["nak_data"].eq(data_resp & nak & new),
            c["nak_midpacket"].eq(data_resp & nak & new & (space_tok != 0) & (occ_tok <= buf)),
            c["ping_ack"].eq(ping_resp & ack),
            c["ping_nak"].eq(ping_resp & nak),
            c["invalid_us"].eq(host.ev_invalid & for_us & (host.plen_r != 0)),
            c["match"].eq(both & (a_byte == d_byte)),
            c["match_last"].eq(both & a_last & d_last),
            c["match_first"].eq(both & a_first & d_first),
            c["match_nofirst"].eq(both & a_pos0 & ~a_first & ~d_first),
            c["match_second_transfer"].eq(both & a_first & d_first & a_xfer2),
        ]
        return m


# assertion families (one solver process each in the quick tier)
FAM_HANDSHAKE = ["resp_one", "repeat_ack", "nak_unjustified", "ping_one", "ping_ack_noroom", "ping_nak_room",
                 "hs_unasked"]
FAM_STREAM = ["first_mark", "last_mark", "phantom", "lost"]


def queries(tier):
    qs = []
    quick = tier == "quick"
    cfgs = [("m2b3", 2, 3)] if quick else [("m2b3", 2, 3), ("m2b2", 2, 2), ("m3b5", 3, 5)]
    for tag, mps, buf in cfgs:
        f = (lambda mps=mps, buf=buf: BulkOutHarness(mps, buf))
        K = 20 if quick else (24 if mps == 2 else 22)
        d = f"mps={mps} buffer={buf}: host schedule, data, consumer ready all free"
        if quick:
            qs.append(Query(f"bmc_handshake_{tag}", f, K, timeout=600, asserts=FAM_HANDSHAKE, covers=[], split=False,
                            desc=d + " -- ACK/NAK/PING family"))
            qs.append(Query(f"bmc_stream_{tag}", f, K, timeout=600, asserts=FAM_STREAM, split=False,
                            desc=d + " -- delivery / first / last family + all covers"))
            # the payload comparison through the FIFO memory is the expensive assertion: two steps shallower
            qs.append(Query(f"bmc_data_{tag}", f, K - 2, timeout=600, asserts=["data"], covers=[], split=False,
                            desc=d + " -- tracked-element payload equality"))
        else:
            qs.append(Query(f"bmc_{tag}", f, K, timeout=900, asserts=FAM_HANDSHAKE + FAM_STREAM, desc=d))
            # required part of the payload equality at the depth that closed under load; the deeper one is best effort
            qs.append(Query(f"bmc_data_{tag}", f, K - 4, timeout=900, asserts=["data"], covers=[],
                            desc=d + " -- tracked-element payload equality"))
            qs.append(Query(f"bmc_data_deep_{tag}", f, K, timeout=900, asserts=["data"], covers=[], required=False,
                            desc=d + " -- tracked-element payload equality, best effort (timed out at 900 s under load)"))
            # deeper restricted layer: consumer always ready, responses exactly one cycle after rx_complete (HS timing)
            qs.append(Query(f"bmc_hs_ready_{tag}", f, 30, timeout=600, asserts=FAM_HANDSHAKE + FAM_STREAM, covers=[],
                            required=False, layer={"ready": 1, "resp_go": 1, "tok_rfr_go": 1},
                            desc=f"mps={mps} buffer={buf}: restricted layer -- consumer always ready, response strobes "
                                 "at the earliest cycle (high-speed timing); best effort"))
        qs.append(Query(f"cosim_{tag}", f, 0, kind="cosim", cosim_cycles=100 if quick else 600))
    return qs
