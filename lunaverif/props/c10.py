"""C10 -- unsupported or unclaimed control requests are STALLed, never answered.

DUT: the real USBRequestHandlerMultiplexer with the real StandardRequestHandler attached (optionally a second
handler that never claims), i.e. exactly what USBControlEndpoint builds, driven at the multiplexer's shared
RequestHandlerInterface.  The environment plays USBSetupDecoder + the USBControlEndpoint stage FSM: setup fields
change in the cycle `received` pulses; data_requested pulses (IN requests with wLength > 0) precede
status_requested pulses; handshakes_in.ack is the device-wide broadcast strobe and is free in every cycle.

Oracle: the "unsupported" predicate is written from the statement (USB 2.0 ch. 9 request codes), not from the
handler's Switch.
"""
from amaranth import *
from ..harness import Harness
from ..engine import Query
from ..lib.descriptors import make_collection

PROP = "C10"
ENCODED = [
    "luna/gateware/usb/request/standard.py: StandardRequestHandler request dispatch, UNHANDLED state, CLEAR_FEATURE "
    "stall_condition, claim",
    "luna/gateware/usb/usb2/request.py: USBRequestHandlerMultiplexer (claim encoder, output multiplexing, fallback "
    "StallOnlyRequestHandler)",
]
ASSUMPTIONS = [
    "setup fields are registers that change only in the cycle `received` pulses (USBSetupDecoder)",
    "control-endpoint staging: data_requested only for IN requests with wLength > 0 and only before the first "
    "status_requested; rx activity only in the OUT data stage; no two stage strobes in one cycle",
    "handshakes_in.ack is free every cycle (USBControlEndpoint forwards the device-wide strobe unfiltered); "
    "handshakes_in.nak/stall tied to 0; tokenizer: new_token/is_in/is_out/is_setup/pid follow a free token stream "
    "(IN/OUT tokens at any time, SETUP only with a setup packet); data_requested only while the current token is IN, "
    "status_requested while it is OUT (after an IN data stage) or IN (otherwise); other tokenizer fields tied to 0",
    "a standard CLEAR_FEATURE that carries an IN data stage (wLength != 0, malformed) need not be stalled at the data-"
    "stage token, only at its status stage (the statement's 'or'); every other unsupported request must be stalled "
    "at its FIRST opportunity",
    "a further SETUP may arrive while the previous request is unfinished (e.g. its status-stage ACK was lost); the "
    "device must restart on it [USB 2.0 8.5.3].  Half-duplex bus: no SETUP while the device transmits (tx.valid) and "
    "none within 6 cycles of the previous token / stage strobe (a SETUP transaction is >= 14 byte times)",
    "legal host [DESIGN 4 usb_host: 'never transmits while the device transmits'; 4.1: packets on the wire never "
    "overlap]: no IN/OUT token either while the device transmits (tx.valid in the previous cycle), nor within 4 cycles "
    "of a stage strobe -- data_requested / status_requested are pulsed when the device is due to answer, the host "
    "then waits for the answer or a bus time-out (>= 16 FS / 736 HS bit times, >= 80 cycles) before its next token, "
    "which itself lasts >= 3 byte times",
    "tx.ready free every cycle; active_config symbolic constant",
]
BOUNDS = "BMC from reset, all 8 setup bytes symbolic per request, two consecutive requests (the first possibly left unfinished); quick K=15, thorough K=22"
OUTSIDE = "requests skiplisted by the application; behaviour after " \
          "the first stall of a request (the statement only asks for the first opportunity)"

STD_IMPLEMENTED = (0, 1, 5, 6, 8, 9)   # GET_STATUS, CLEAR_FEATURE, SET_ADDRESS, GET_DESCRIPTOR, GET/SET_CONFIGURATION


class UnsupportedHarness(Harness):
    domains = ("usb",)

    def __init__(self, with_vendor=False, avoid_blockram=False):
        super().__init__()
        from luna.gateware.usb.usb2.request import USBRequestHandlerMultiplexer, USBRequestHandler
        from luna.gateware.usb.request.standard import StandardRequestHandler
        coll, _ = make_collection("dense", 8)
        self.mux = USBRequestHandlerMultiplexer()
        self.srh = StandardRequestHandler(coll, max_packet_size=8, avoid_blockram=avoid_blockram)
        self.mux.add_interface(self.srh.interface)
        self.vendor = None
        if with_vendor:
            class NeverClaims(USBRequestHandler):
                def elaborate(self, platform):
                    return Module()
            self.vendor = NeverClaims()
            self.mux.add_interface(self.vendor.interface)
            self.stubs.append("second request handler that never claims and drives nothing")
        self.f_in = {n: self.inp("new_" + n, w) for n, w in
                     (("recipient", 5), ("type", 2), ("is_in", 1), ("request", 8), ("value", 16), ("index", 16), ("length", 16))}
        self.do_setup = self.inp("do_setup", 1)
        self.ev_data = self.inp("ev_data", 1)
        self.ev_status = self.inp("ev_status", 1)
        self.ack_in = self.inp("ack_in", 1)
        self.ev_token = self.inp("ev_token", 1)
        self.tok_is_in = self.inp("tok_is_in", 1)
        self.ready = self.inp("ready", 1)
        self.rx_valid = self.inp("rx_valid", 1)
        self.rx_next = self.inp("rx_next", 1)
        self.rx_payload = self.inp("rx_payload", 8)
        self.rx_rfr = self.inp("rx_ready_for_response", 1)
        self.rx_inv = self.inp("rx_invalid", 1)
        self.cfg = self.inp("active_config", 8, const=True)
        self.v = {n: self.viol(n) for n in ("no_data", "no_ack", "no_state_change", "stall_first", "stall_status")}
        self.c = {n: self.cover(n) for n in ("stall_at_data", "stall_at_status", "nonstandard_stalled",
                                             "clear_feature_stalled", "second_request_stalled", "std_unimplemented",
                                             "stalled_after_interrupted_request",
                                             "supported_answered", "ack_while_pending")}

    def elaborate(self, platform):
        m = Module()
        m.submodules.mux = self.mux
        m.submodules.srh = self.srh
        if self.vendor is not None:
            m.submodules.vendor = self.vendor
        sh = self.mux.shared
        st = sh.setup
        # --- setup decoder model: registers
        F = {n: Signal(len(s), name="cur_" + n) for n, s in self.f_in.items()}
        received = Signal(name="received")
        have = Signal(name="have_request")
        stage_status = Signal(name="stage_status")      # a status_requested has been seen for this request
        ack_after = Signal(name="ack_after_status")
        nreq = Signal(2, name="nreq")
        complete = Signal(name="prev_complete")
        # a SETUP may arrive in the middle of an unfinished request [USB 2.0 8.5.3], but the bus is half duplex and a
        # SETUP transaction takes time: not while the device transmits, and not within GAP cycles of the previous
        # token / stage strobe (token + DATA0 packet are >= 14 byte times; responses start within 4 cycles)
        GAP = 6
        quiet = Signal(3, name="quiet_cycles", init=7)
        tx_busy = Signal(name="tx_busy_prev")      # registered: tx.valid depends combinationally on the strobes
        m.d.usb += tx_busy.eq(sh.tx.valid)
        may_setup = (quiet >= GAP) & ~tx_busy
        # the same half-duplex contract for IN / OUT tokens: a stage strobe means "the device answers now"; the host
        # listens for that answer (or a bus time-out, >= 80 cycles) before it sends anything, and never talks into
        # the device's packet.  RESP_GAP only has to bridge the cycles until the answer shows as tx_busy.
        RESP_GAP = 4
        owed = Signal(3, name="cycles_since_strobe", init=7)
        may_token = (owed >= RESP_GAP) & ~tx_busy
        setup_now = Signal(name="setup_now")
        m.d.comb += setup_now.eq(self.do_setup & may_setup & ~received)
        m.d.usb += received.eq(setup_now)
        with m.If(setup_now):
            m.d.usb += [F[n].eq(self.f_in[n]) for n in F]
            m.d.usb += [have.eq(1), stage_status.eq(0), ack_after.eq(0), complete.eq(0),
                        nreq.eq(Mux(nreq == 3, 3, nreq + 1))]
        m.d.comb += [
            st.recipient.eq(F["recipient"]), st.type.eq(F["type"]), st.is_in_request.eq(F["is_in"]),
            st.request.eq(F["request"]), st.value.eq(F["value"]), st.index.eq(F["index"]), st.length.eq(F["length"]),
            st.received.eq(received),
        ]
        # --- control endpoint stage model
        active = have & ~received & ~setup_now
        has_in_data = F["is_in"] & (F["length"] != 0)
        has_out_data = ~F["is_in"] & (F["length"] != 0)
        data_req = Signal(name="data_requested")
        status_req = Signal(name="status_requested")
        # token detector model: the current token is SETUP after a setup, then whatever IN/OUT token the host sent last
        TOK_NONE, TOK_SETUP, TOK_IN, TOK_OUT = 0, 1, 2, 3
        tok = Signal(2, name="cur_token")
        new_token = Signal(name="new_token")
        m.d.comb += new_token.eq(setup_now | (active & self.ev_token & may_token))
        with m.If(setup_now):
            m.d.usb += tok.eq(TOK_SETUP)
        with m.Elif(new_token):
            m.d.usb += tok.eq(Mux(self.tok_is_in, TOK_IN, TOK_OUT))
        tk = sh.tokenizer
        m.d.comb += [
            tk.new_token.eq(new_token), tk.is_in.eq(tok == TOK_IN), tk.is_out.eq(tok == TOK_OUT),
            tk.is_setup.eq(tok == TOK_SETUP),
            tk.pid.eq(Mux(tok == TOK_IN, 0b1001, Mux(tok == TOK_OUT, 0b0001, Mux(tok == TOK_SETUP, 0b1101, 0)))),
        ]
        # data-stage IN tokens: current token IN; status stage: OUT token after an IN data stage, IN token otherwise
        status_tok = Mux(has_in_data, tok == TOK_OUT, tok == TOK_IN)
        m.d.comb += [
            data_req.eq(active & ~new_token & self.ev_data & has_in_data & ~stage_status & (tok == TOK_IN)),
            status_req.eq(active & ~new_token & self.ev_status & ~data_req & status_tok),
            sh.data_requested.eq(data_req), sh.status_requested.eq(status_req),
            sh.handshakes_in.ack.eq(self.ack_in), sh.tx.ready.eq(self.ready), sh.active_config.eq(self.cfg),
        ]
        out_stage = active & has_out_data & ~stage_status
        m.d.comb += [
            sh.rx.valid.eq(self.rx_valid & out_stage), sh.rx.next.eq(self.rx_next & self.rx_valid & out_stage),
            sh.rx.payload.eq(self.rx_payload), sh.rx_ready_for_response.eq(self.rx_rfr & out_stage),
            sh.rx_invalid.eq(self.rx_inv & out_stage),
        ]
        with m.If(status_req):
            m.d.usb += stage_status.eq(1)
        with m.If(data_req | status_req):
            m.d.usb += owed.eq(0)
        with m.Elif(owed != 7):
            m.d.usb += owed.eq(owed + 1)
        with m.If(data_req | status_req | new_token | received):
            m.d.usb += quiet.eq(0)
        with m.Elif(quiet != 7):
            m.d.usb += quiet.eq(quiet + 1)
        # when has the host finished a request?  IN data stage: the OUT status stage was answered.  Otherwise: the
        # status-stage IN was stalled, or its ZLP was ACKed while that IN token is still the current token.
        zlp_pending = Signal(name="zlp_pending")
        with m.If(setup_now | new_token):
            m.d.usb += zlp_pending.eq(0)
        with m.Elif(status_req & ~has_in_data & ~sh.handshakes_out.stall):
            m.d.usb += zlp_pending.eq(1)
        with m.If(~setup_now):
            with m.If(status_req & (has_in_data | sh.handshakes_out.stall)):
                m.d.usb += complete.eq(1)
            with m.If(zlp_pending & self.ack_in & ~new_token):
                m.d.usb += [complete.eq(1), ack_after.eq(1)]
        interrupted = Signal(name="prev_interrupted")
        with m.If(setup_now):
            m.d.usb += interrupted.eq(have & ~complete)

        # --- the statement's predicate
        std = F["type"] == 0
        implemented = Signal(name="implemented_code")
        with m.Switch(F["request"]):
            for code in STD_IMPLEMENTED:
                with m.Case(code):
                    m.d.comb += implemented.eq(1)
        clear_feature_other = std & (F["request"] == 1) & ((F["recipient"] != 2) | (F["value"] != 0))
        unsupported = Signal(name="unsupported")
        m.d.comb += unsupported.eq((std & ~implemented) | clear_feature_other | ~std)
        watching = Signal(name="watching")
        m.d.comb += watching.eq(have & unsupported)
        first_done = Signal(name="first_opportunity_done")
        with m.If(setup_now):
            m.d.usb += first_done.eq(0)
        with m.Elif(data_req | status_req):
            m.d.usb += first_done.eq(1)
        opportunity = (data_req | status_req) & ~first_done
        stall = sh.handshakes_out.stall
        stalled_before = Signal(name="stalled_before")
        with m.If(setup_now):
            m.d.usb += stalled_before.eq(0)
        with m.Elif(stall):
            m.d.usb += stalled_before.eq(1)
        # a CLEAR_FEATURE that (illegally) carries an IN data stage: USB leaves the data stage undefined; the statement's
        # "or at its status stage" is taken literally for it
        malformed_cf = clear_feature_other & has_in_data
        v, c = self.v, self.c
        m.d.comb += [
            v["no_data"].eq(watching & sh.tx.valid),
            v["no_ack"].eq(watching & sh.handshakes_out.ack),
            v["no_state_change"].eq(watching & (sh.address_changed | sh.config_changed | sh.clear_endpoint_halt.enable)),
            v["stall_first"].eq(watching & opportunity & ~stall & ~(malformed_cf & data_req)),
            v["stall_status"].eq(watching & status_req & ~stage_status & ~stalled_before & ~stall),
            c["stall_at_data"].eq(watching & opportunity & data_req & stall),
            c["stall_at_status"].eq(watching & opportunity & status_req & stall),
            c["nonstandard_stalled"].eq(watching & opportunity & stall & ~std),
            c["clear_feature_stalled"].eq(watching & opportunity & stall & clear_feature_other),
            c["std_unimplemented"].eq(watching & opportunity & stall & std & ~implemented),
            c["second_request_stalled"].eq(watching & opportunity & stall & (nreq == 2)),
            c["stalled_after_interrupted_request"].eq(watching & opportunity & stall & interrupted),
            c["supported_answered"].eq(have & ~unsupported & (sh.tx.valid | sh.handshakes_out.ack)),
            c["ack_while_pending"].eq(watching & self.ack_in & first_done),
        ]
        return m

    def stimulus(self, rng, t, consts):
        d = super().stimulus(rng, t, consts)
        d["new_request"] = rng.choice([0, 1, 3, 5, 6, 7, 8, 9, 10, 11, 12, rng.getrandbits(8)])
        d["new_type"] = rng.choice([0, 0, 0, 1, 2, 3])
        d["do_setup"] = int(rng.random() < 0.3)
        d["ev_data"] = int(rng.random() < 0.2)
        d["ev_status"] = int(rng.random() < 0.15)
        d["ack_in"] = int(rng.random() < 0.15)
        return d


def queries(tier):
    quick = tier == "quick"
    qs = []
    for tag, kw in (("srh", dict()), ("srh_vendor", dict(with_vendor=True)), ("srh_dist", dict(avoid_blockram=True))):
        if quick and tag == "srh_dist":
            continue
        f = (lambda kw=kw: UnsupportedHarness(**kw))
        qs.append(Query(f"bmc_{tag}", f, 15 if quick else 22, timeout=600,
                        desc=f"{tag}: all setup bytes symbolic per request, stage strobes / broadcast ACK / tx.ready free, "
                             "two consecutive requests"))
        qs.append(Query(f"cosim_{tag}", f, 0, kind="cosim", cosim_cycles=300 if quick else 1000))
    return qs
