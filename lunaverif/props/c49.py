"""C49 -- UART transmitters produce exact 8N1 frames.

DUTs: luna.gateware.interface.uart.UARTTransmitter(divisor) and
      UARTMultibyteTransmitter(byte_width, divisor)  (real classes, small divisors).

Oracle: a line monitor that knows only the 8N1 format and the stream handshake.
  * ghost byte queue: an accepted stream element (valid & ready) is appended, bytes of a word
    least-significant byte first;
  * a frame starts in the first cycle in which the line is low while no frame is in progress;
    it consumes the head of the queue and lasts exactly 10*divisor cycles: divisor cycles of 0,
    divisor cycles of each data bit (bit 0 first), divisor cycles of 1 -- every cycle of the
    frame is compared with the expected level;
  * outside frames the line must be high (a low level with an empty queue is a violation);
  * a queued byte must start its frame within 3 cycles of the line becoming free;
  * an element is accepted only if it is framed next: nothing that has not begun its frame may be
    queued ahead of it (a last byte whose start bit appears in the very next cycle is tolerated --
    it is being handed to the line in the accept cycle);
  * UARTTransmitter only: `idle` (docstring: transmitter idle) is never asserted while a frame is on the
    line or a byte waits.
"""
from amaranth import *
from ..harness import Harness
from ..engine import Query
from ..lib.periph import VS, in_vsync

PROP = "C49"
ENCODED = ["luna/gateware/interface/uart.py: UARTTransmitter.elaborate (IDLE/TRANSMIT FSM, baud_counter, data_shift)",
           "luna/gateware/interface/uart.py: UARTMultibyteTransmitter.elaborate (word shifter, bytes_to_send, inner UART)"]
ASSUMPTIONS = [
    "stream.valid and stream.payload are free in every cycle (payload need not be stable: the byte/word is the "
    "payload in the accept cycle valid&ready)",
    "a frame is recognised by the first low level on the line while no frame is in progress",
    "bounded promptness chosen by the harness: a queued byte starts within 3 cycles after the line is free",
]
BOUNDS = "BMC from reset; UARTTransmitter divisor 1,2,3,5 (quick: 1,2 to two frames), " \
         ">= 2 back-to-back/spaced frames; UARTMultibyteTransmitter byte_width 2 (divisor 1,2) and 3 (divisor 1), two words " \
         "(quick: byte_width 2, divisor 1)"
OUTSIDE = "divisors above 5 (same counter logic, only the reload constant differs); unbounded streams (bounded by K); " \
          "the `driving` output"


class UartHarness(Harness):
    domains = (VS,)

    def __init__(self, divisor, byte_width=0):
        super().__init__()
        from luna.gateware.interface.uart import UARTTransmitter, UARTMultibyteTransmitter
        self.div, self.bw = divisor, (byte_width or 1)
        self.multi = bool(byte_width)
        if byte_width:
            self.dut = UARTMultibyteTransmitter(byte_width=byte_width, divisor=divisor)
        else:
            self.dut = UARTTransmitter(divisor=divisor)
        st = self.dut.stream
        self.valid = self.inp("valid", signal=st.valid)
        self.payload = self.inp("payload", signal=st.payload)
        # the other stream members (first/last) are not read by the transmitters
        names = ("idle_high", "start_bit", "data_bits", "stop_bit", "accept_only_next", "prompt")
        if not self.multi:
            names += ("idle_flag",)
        self.v = {n: self.viol(n) for n in names}
        cov = ["frame_done", "back_to_back", "spaced", "mixed_byte"]
        if self.multi:
            cov += ["second_word", "accept_during_last_byte"]
        self.c = {n: self.cover(n) for n in cov}

    def elaborate(self, platform):
        m = Module()
        dut = self.dut
        m.submodules.dut = in_vsync(dut)
        sync = m.d[VS]
        div, bw = self.div, self.bw
        st = dut.stream
        tx = dut.tx
        W = 8 * bw

        accept = Signal(name="g_accept")
        m.d.comb += accept.eq(st.valid & st.ready)

        # ---- ghost queue: current word (rem bytes not yet started) + one waiting word
        cur = Signal(W, name="g_cur")
        rem = Signal(range(bw + 1), name="g_rem")
        nxt = Signal(W, name="g_nxt")
        nxt_v = Signal(name="g_nxt_v")
        # ---- frame tracker
        active = Signal(name="g_active")
        b = Signal(4, name="g_bit")
        p = Signal(range(max(div, 2)), name="g_phase")
        byte = Signal(8, name="g_byte")
        for n, s in dict(cur=cur, rem=rem, nxt_v=nxt_v, active=active, bit=b, phase=p, byte=byte).items():
            self.obs(n, s)

        start_now = Signal(name="g_start_now")
        m.d.comb += start_now.eq(~active & ~tx & (rem != 0))
        in_frame = Signal(name="g_in_frame")
        fb = Signal(4, name="g_fb")
        fp = Signal.like(p, name="g_fp")
        fbyte = Signal(8, name="g_fbyte")
        m.d.comb += [
            in_frame.eq(active | start_now),
            fb.eq(Mux(active, b, 0)),
            fp.eq(Mux(active, p, 0)),
            fbyte.eq(Mux(active, byte, cur[0:8])),
        ]
        last_cycle = Signal(name="g_last_cycle")
        m.d.comb += last_cycle.eq(in_frame & (fb == 9) & (fp == div - 1))

        with m.If(in_frame):
            sync += byte.eq(fbyte)
            with m.If(fp == div - 1):
                sync += [p.eq(0), b.eq(fb + 1), active.eq(fb != 9)]
            with m.Else():
                sync += [p.eq(fp + 1), b.eq(fb), active.eq(1)]

        # queue update: pop on frame start, push on accept
        rem_after_pop = Signal.like(rem, name="g_rem_after_pop")
        cur_after_pop = Signal(W, name="g_cur_after_pop")
        m.d.comb += [rem_after_pop.eq(rem), cur_after_pop.eq(cur)]
        with m.If(start_now):
            m.d.comb += [rem_after_pop.eq(rem - 1), cur_after_pop.eq(cur >> 8)]
        over = Signal(name="g_over")            # accepted although un-started bytes are ahead
        chk_next = Signal(name="g_chk_next")    # accepted with exactly one un-started byte ahead: must start next cycle
        sync += chk_next.eq(0)
        with m.If(rem_after_pop == 0):
            with m.If(accept):
                sync += [cur.eq(st.payload), rem.eq(bw)]
            with m.Elif(nxt_v):
                sync += [cur.eq(nxt), rem.eq(bw), nxt_v.eq(0)]
            with m.Else():
                sync += [cur.eq(cur_after_pop), rem.eq(0)]
        with m.Else():
            sync += [cur.eq(cur_after_pop), rem.eq(rem_after_pop)]
            with m.If(accept):
                sync += [nxt.eq(st.payload), nxt_v.eq(1)]
                m.d.comb += over.eq((rem_after_pop > 1) | nxt_v)
                sync += chk_next.eq((rem_after_pop == 1) & ~nxt_v)
        # a waiting word moves up only when cur is exhausted and nothing was accepted; if both happen, the
        # waiting one must go first: flag it (cannot occur unless `over` fired before)
        with m.If((rem_after_pop == 0) & accept & nxt_v):
            m.d.comb += over.eq(1)

        # promptness: queued byte, line free
        wait = Signal(2, name="g_wait")
        with m.If((rem != 0) & ~in_frame):
            with m.If(wait != 3):
                sync += wait.eq(wait + 1)
        with m.Else():
            sync += wait.eq(0)

        is_data = Signal(name="g_is_data")
        exp_data = Signal(name="g_exp_data")
        m.d.comb += is_data.eq(in_frame & (fb >= 1) & (fb <= 8))
        for i in range(8):
            with m.If(fb == i + 1):
                m.d.comb += exp_data.eq(fbyte[i])

        prev_last = Signal(name="g_prev_last")
        sync += prev_last.eq(last_cycle)
        seen_idle_gap = Signal(name="g_seen_gap")       # line was free between two frames
        frames = Signal(2, name="g_frames")
        with m.If(last_cycle & (frames != 3)):
            sync += frames.eq(frames + 1)
        words = Signal(2, name="g_words")
        with m.If(accept & (words != 3)):
            sync += words.eq(words + 1)

        m.d.comb += [
            self.v["idle_high"].eq(~in_frame & ~tx),
            self.v["start_bit"].eq(in_frame & (fb == 0) & tx),
            self.v["data_bits"].eq(is_data & (tx != exp_data)),
            self.v["stop_bit"].eq(in_frame & (fb == 9) & ~tx),
            self.v["accept_only_next"].eq(over | (chk_next & ~start_now)),
            self.v["prompt"].eq((rem != 0) & ~in_frame & (wait == 3)),
            self.c["frame_done"].eq(last_cycle),
            self.c["back_to_back"].eq(prev_last & start_now & (frames != 0)),
            self.c["mixed_byte"].eq(last_cycle & (fbyte[0:4] == 0b0101) & (fbyte[4:8] == 0b0011)),
        ]
        with m.If(~in_frame & (frames != 0)):
            sync += seen_idle_gap.eq(1)
        m.d.comb += self.c["spaced"].eq(last_cycle & seen_idle_gap)
        if not self.multi:
            # docstring of UARTTransmitter.idle; the multibyte wrapper's `idle` only describes its word FSM
            m.d.comb += self.v["idle_flag"].eq(dut.idle & ((in_frame & ~last_cycle) | (rem != 0) | nxt_v))
        if self.multi:
            m.d.comb += [
                self.c["second_word"].eq(last_cycle & (frames == 3) & (words >= 2)) if bw == 2 else
                self.c["second_word"].eq(start_now & (frames == 3) & (words >= 2)),
                self.c["accept_during_last_byte"].eq(accept & in_frame & ~last_cycle),
            ]
        return m

    def stimulus(self, rng, t, consts):
        return dict(valid=int(rng.random() < 0.6), payload=rng.getrandbits(8 * self.bw))


FRAME = ["idle_high", "start_bit", "data_bits", "stop_bit"]
HANDSHAKE = ["accept_only_next", "prompt"]


def _families(qs, tag, f, K, desc, multi, full_covers=True):
    """two assertion families + one cover query per configuration, each solved in a single process"""
    covers = ["frame_done", "mixed_byte"] + (["back_to_back", "spaced"] if full_covers else []) + \
             (["second_word", "accept_during_last_byte"] if multi and full_covers else [])
    qs.append(Query(f"bmc_{tag}_frame", f, K, timeout=900, split=False, asserts=FRAME, covers=covers,
                    desc=desc + ": frame format family (line level in every cycle)"))
    qs.append(Query(f"bmc_{tag}_handshake", f, K, timeout=900, split=False, covers=[],
                    asserts=HANDSHAKE + ([] if multi else ["idle_flag"]),
                    desc=desc + ": acceptance / promptness family"))


def queries(tier):
    qs = []
    quick = tier == "quick"
    # (divisor, K): two back-to-back frames need 20*divisor+3 cycles
    single = [(1, 26), (2, 44)] if quick else [(1, 36), (2, 66), (3, 66), (5, 106)]
    for div, K in single:
        f = (lambda div=div: UartHarness(div))
        _families(qs, f"uart_d{div}", f, K, f"UARTTransmitter divisor={div}: valid/payload free every cycle", False)
    # (byte_width, divisor, K): two words need 2*bw*10*div + 4 cycles
    multi = [(2, 1, 46)] if quick else [(2, 1, 48), (2, 2, 88), (3, 1, 68)]
    for bw, div, K in multi:
        f = (lambda bw=bw, div=div: UartHarness(div, bw))
        _families(qs, f"multi_w{bw}_d{div}", f, K,
                  f"UARTMultibyteTransmitter byte_width={bw} divisor={div}: valid/payload free every cycle", True)
    qs.append(Query("cosim_uart_d3", lambda: UartHarness(3), 0, kind="cosim", cosim_cycles=150 if quick else 2000))
    qs.append(Query("cosim_multi_w2_d2", lambda: UartHarness(2, 2), 0, kind="cosim",
                    cosim_cycles=150 if quick else 2000))
    return qs
