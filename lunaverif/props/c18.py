"""C18 -- TransactionalizedFIFO behaves as a bounded commit/rollback queue.

DUT: luna.gateware.memory.TransactionalizedFIFO (real class, small width/depth).
Oracle: an independent reference queue in the monitor.  It does not use the DUT's four pointers
over depth+1 slots; it keeps *counts* (r = reads not yet finalised, c = committed unread entries,
u = uncommitted writes) and a ghost store of exactly `depth` slots addressed from a base index.
Every cycle the monitor compares empty/full/space_available with the counts and, whenever the
reference queue offers an entry, read_data with the reference head.  All data are symbolic, so a
lost, duplicated or reordered entry shows up as a head mismatch.

Simultaneous requests (the statement admits them, the class documents the strobes as acting on
accesses "performed since the last commit"): a commit finalises the accesses of *earlier* cycles,
an access made in the commit cycle opens the next transaction; a discard also undoes the access
made in the discard cycle.  Either reading loses nothing; the reference uses this one.
"""
from amaranth import *
from ..harness import Harness
from ..engine import Query
import z3

# FINDINGS
#   fixed in /repo by "fix:" commit d5f9c10 (read_discard addressing): after a read_discard the synchronous read port was
#   addressed with the pre-discard pointer (or the next pointer when read_en coincided), so read_data showed a stale
#   slot for one cycle while empty was false -> a consumer reading in that cycle lost one entry and saw another twice.
#   Caught by assertion `data` (bmc_*, every configuration, e.g. depth 1 K=11 step 10); scenario predicate
#   kf_after_read_discard marks exactly the affected cycle.  Before the fix ind_* was open (read-register invariant).

PROP = "C18"
ENCODED = ["luna/gateware/memory.py: TransactionalizedFIFO.elaborate (pointers, memory ports, empty/full/space_available)"]
ASSUMPTIONS = [
    "write_commit and write_discard are never asserted in the same cycle; likewise read_commit and read_discard "
    "(contradictory requests, semantics undefined, no in-repo user issues them)",
    "write_en while full and read_en while empty are allowed and must be ignored",
    "a commit finalises accesses of earlier cycles; an access in the same cycle as a commit belongs to the next "
    "transaction; a discard also undoes the access of its own cycle (resolution of what the statement leaves open)",
    "read_data is compared with the reference head in every cycle in which the reference queue is non-empty "
    "(the class documents read_data as valid whenever empty is false)",
]
BOUNDS = "BMC from reset, all seven control inputs and write_data free every cycle; quick: (width,depth) (4,1), (8,2 in domain usb), " \
         "(4,3); thorough: width 4 depth 1..5 plus (8,2,usb); IND k=1 from an arbitrary state constrained by " \
         "pointer/count/store invariants (all histories) for flags and data"
OUTSIDE = "commit and discard of the same side in one cycle; depths > 5 in BMC (IND covers the listed depths for all " \
          "histories); widths other than 4/8 (the DUT never inspects data)"


class FifoHarness(Harness):
    domains = ("sync",)

    def __init__(self, width=4, depth=2, domain="sync"):
        super().__init__()
        from luna.gateware.memory import TransactionalizedFIFO
        self.domains = (domain,)
        self.width, self.depth = width, depth
        self.dut = d = TransactionalizedFIFO(width=width, depth=depth, name="store", domain=domain)
        for n in ("write_data", "write_en", "write_commit", "write_discard", "read_en", "read_commit", "read_discard"):
            self.inp(n, signal=getattr(d, n))
        self.v_empty = self.viol("empty")
        self.v_full = self.viol("full")
        self.v_space = self.viol("space")
        self.v_data = self.viol("data")
        self.a_wr = self.assume("no_write_commit_and_discard")
        self.a_rd = self.assume("no_read_commit_and_discard")
        # scenario predicate of the recorded finding: the cycle after a read_discard
        self.kf_stale = self.kf("after_read_discard")
        self.c = {n: self.cover(n) for n in (
            "read_head", "write_discarded", "read_undone", "full_uncommitted", "full_committed", "wrapped",
            "write_ignored_full", "read_ignored_empty", "simultaneous_rw", "write_with_commit", "read_with_commit",
            "write_with_discard", "read_with_discard", "head_after_read_discard", "space_mid", "refill_after_discard")}
        # ghost state
        cw = range(depth + 1)
        self.g_r = Signal(cw, name="g_r")
        self.g_c = Signal(cw, name="g_c")
        self.g_u = Signal(cw, name="g_u")
        self.g_base = Signal(range(max(depth, 2)), name="g_base")
        self.g_store = [Signal(width, name=f"g_store{i}") for i in range(depth)]
        self.g_after_discard = Signal(name="g_after_discard")
        self.g_wraps = Signal(2, name="g_wraps")
        self.g_wdisc = Signal(name="g_wdisc")
        for s in (self.g_r, self.g_c, self.g_u, self.g_base):
            self.obs(s.name, s)
        self.obs("read_data", d.read_data)
        self.obs("empty", d.empty)
        self.obs("full", d.full)
        self.obs("space", d.space_available)

    def _addmod(self, m, a, b, name):
        """(a + b) mod depth, for a < depth and b <= depth"""
        d = self.depth
        s = Signal(range(2 * d + 2), name=name + "_s")
        r = Signal(range(max(d, 2)), name=name)
        m.d.comb += s.eq(a + b)
        m.d.comb += r.eq(Mux(s >= d, s - d, s))
        return r

    def elaborate(self, platform):
        m = Module()
        m.submodules.dut = d = self.dut
        dom = m.d[self.domain]
        depth = self.depth
        r, c, u, base = self.g_r, self.g_c, self.g_u, self.g_base
        store = Array(self.g_store)

        held = Signal(range(depth + 1), name="g_held")
        m.d.comb += held.eq(r + c + u)
        ref_full = Signal(name="ref_full")
        ref_empty = Signal(name="ref_empty")
        m.d.comb += [ref_full.eq(held == depth), ref_empty.eq(c == 0)]
        wr_acc = Signal(name="wr_acc")
        rd_acc = Signal(name="rd_acc")
        m.d.comb += [wr_acc.eq(d.write_en & ~ref_full), rd_acc.eq(d.read_en & ~ref_empty)]

        widx = self._addmod(m, base, held, "g_widx")
        ridx = self._addmod(m, base, r, "g_ridx")
        head = Signal(self.width, name="ref_head")
        m.d.comb += head.eq(store[ridx])

        # ---- reference queue update
        with m.If(wr_acc):
            dom += store[widx].eq(d.write_data)
        c_add = Signal(range(depth + 1), name="c_add")
        c_back = Signal(range(depth + 1), name="c_back")
        c_sub = Signal(name="c_sub")
        with m.If(d.write_discard):
            dom += u.eq(0)
        with m.Elif(d.write_commit):
            m.d.comb += c_add.eq(u)
            dom += u.eq(wr_acc)
        with m.Else():
            dom += u.eq(u + wr_acc)
        with m.If(d.read_discard):
            m.d.comb += c_back.eq(r)
            dom += r.eq(0)
        with m.Elif(d.read_commit):
            m.d.comb += c_sub.eq(rd_acc)
            dom += r.eq(rd_acc)
            dom += base.eq(ridx)
        with m.Else():
            m.d.comb += c_sub.eq(rd_acc)
            dom += r.eq(r + rd_acc)
        dom += c.eq(c + c_add + c_back - c_sub)

        # ---- assumptions
        m.d.comb += [self.a_wr.eq(~(d.write_commit & d.write_discard)),
                     self.a_rd.eq(~(d.read_commit & d.read_discard))]

        # ---- assertions
        m.d.comb += [
            self.v_empty.eq(d.empty != ref_empty),
            self.v_full.eq(d.full != ref_full),
            self.v_space.eq(d.space_available != (depth - held)),
            self.v_data.eq(~ref_empty & (d.read_data != head)),
        ]
        dom += self.g_after_discard.eq(d.read_discard)
        m.d.comb += self.kf_stale.eq(self.g_after_discard)

        # ---- covers
        cv = self.c
        with m.If(d.read_commit & (base + r >= depth) & (r != 0)):
            dom += self.g_wraps.eq(Mux(self.g_wraps == 3, 3, self.g_wraps + 1))
        with m.If(d.write_discard & (u != 0)):
            dom += self.g_wdisc.eq(1)
        m.d.comb += [
            cv["read_head"].eq(rd_acc & (d.read_data == head) & (head != 0)),
            cv["write_discarded"].eq(d.write_discard & (u != 0)),
            cv["read_undone"].eq(d.read_discard & (r != 0)),
            cv["full_uncommitted"].eq(ref_full & d.full & (u == depth)),
            cv["full_committed"].eq(ref_full & d.full & (c == depth)),
            # the reference base index wrapped around (twice for depth >= 2 so that the DUT's depth+1 ring wrapped too)
            cv["wrapped"].eq((self.g_wraps >= 2) & rd_acc),
            cv["write_ignored_full"].eq(d.write_en & ref_full & d.full),
            cv["read_ignored_empty"].eq(d.read_en & ref_empty & d.empty & (held != 0)),
            # depth 1: a write is accepted only when nothing is held, so no read can coincide; use read-vs-commit instead
            cv["simultaneous_rw"].eq(wr_acc & rd_acc if depth >= 2 else rd_acc & d.write_commit),
            cv["write_with_commit"].eq(wr_acc & d.write_commit & (u != 0) if depth >= 2 else wr_acc & d.write_commit),
            cv["read_with_commit"].eq(rd_acc & d.read_commit & (r != 0) if depth >= 2 else rd_acc & d.read_commit),
            cv["write_with_discard"].eq(wr_acc & d.write_discard),
            cv["read_with_discard"].eq(rd_acc & d.read_discard),
            cv["head_after_read_discard"].eq(self.g_after_discard & ~ref_empty & (d.read_data == head) & (head != 0)),
            cv["space_mid"].eq((d.space_available == depth - held) & (r != 0) & (u != 0) if depth >= 2
                               else (d.space_available == 0) & (r != 0)),
            cv["refill_after_discard"].eq(self.g_wdisc & rd_acc & (d.read_data == head) & (head != 0)),
        ]
        return m

    def stimulus(self, rng, t, consts):
        p = lambda x: int(rng.random() < x)
        wc, rc = p(0.3), p(0.3)
        return dict(write_data=rng.getrandbits(self.width), write_en=p(0.6), write_commit=wc,
                    write_discard=0 if wc else p(0.15), read_en=p(0.5), read_commit=rc,
                    read_discard=0 if rc else p(0.15))


def _inv(ts, frame, h):
    """IND strengthening: pointers in range; the reference counts equal the pointer distances on the DUT's
    depth+1 ring; the reference store equals the DUT memory over the held window; the read-port register holds
    mem[current_read_pointer] whenever a committed entry is on offer (on a tree with the stale-read_data-after-
    read_discard defect this last invariant is not inductive and the layer reports ind_open)."""
    names = ["dut.committed_write_pointer", "dut.current_write_pointer", "dut.committed_read_pointer",
             "dut.current_read_pointer"]
    sigs = [ts.signal_by_name(n) for n in names]
    if any(s is None for s in sigs) or len(ts.mems) != 1 or len(ts.srports) != 1:
        return None, names
    cmwp, cwp, cmrp, crp = [frame.sig(s) for s in sigs]
    d = h.depth
    W = 8
    ext = lambda x: z3.ZeroExt(W - x.size(), x)
    cmwp, cwp, cmrp, crp = map(ext, (cmwp, cwp, cmrp, crp))
    r, c, u, base = (ext(frame.sig(s)) for s in (h.g_r, h.g_c, h.g_u, h.g_base))
    M = d + 1

    def dist(a, b):  # (a - b) mod (d+1), both <= d
        return z3.If(z3.UGE(a, b), a - b, a + M - b)

    conds = [z3.ULE(p, d) for p in (cmwp, cwp, cmrp, crp)]
    conds += [r == dist(crp, cmrp), c == dist(cmwp, crp), u == dist(cwp, cmwp), z3.ULE(r + c + u, d),
              z3.ULT(base, max(d, 1))]
    mem = frame.state[ts.mems[0]]
    rp = frame.state[ts.srports[0]]
    store = [frame.sig(s) for s in h.g_store]
    held = r + c + u

    def sel(arr, idx):
        out = arr[0]
        for a in range(1, len(arr)):
            out = z3.If(idx == a, arr[a], out)
        return out

    for i in range(d):
        gi = base + i
        gi = z3.If(z3.UGE(gi, d), gi - d, gi)
        mi = cmrp + i
        mi = z3.If(z3.UGE(mi, M), mi - M, mi)
        conds.append(z3.Implies(z3.ULT(z3.BitVecVal(i, W), held), sel(store, gi) == sel(mem, mi)))
    conds.append(z3.Implies(c != 0, rp == sel(mem, crp)))
    return conds, ["pointers<=depth", "r/c/u == ring distances", "held<=depth", "store==memory over held window",
                   "read register == mem[current_read_pointer] when offered"]


def queries(tier):
    qs = []
    quick = tier == "quick"
    # (width, depth, domain, K of the fully free layer); quick keeps three configurations, the rest is thorough
    if quick:
        cfgs = [(4, 1, "sync", 11), (8, 2, "usb", 9), (4, 3, "sync", 9)]
    else:
        cfgs = [(4, 1, "sync", 14), (4, 2, "sync", 12), (4, 3, "sync", 11), (8, 2, "usb", 10), (4, 4, "sync", 10),
                (4, 5, "sync", 10)]
    plain = {"write_commit": 1, "write_discard": 0, "read_commit": 1, "read_discard": 0}
    for width, depth, dom, K in cfgs:
        tag = f"w{width}d{depth}" + ("" if dom == "sync" else dom)
        f = (lambda width=width, depth=depth, dom=dom: FifoHarness(width, depth, dom))
        qs.append(Query(f"bmc_{tag}", f, K, covers=[], timeout=600, split=not quick,
                        desc=f"width {width} depth {depth} domain {dom}: reference commit/rollback queue, all seven "
                             "control inputs and the data free every cycle"))
        qs.append(Query(f"cover_{tag}", f, 2 * depth + 10, asserts=[], timeout=600,
                        hints={"wrapped": {"write_discard": 0, "read_discard": 0}},
                        desc="reachability twins (commit, rollback, wrap-around, full/empty corner requests)"))
        if depth >= (3 if quick else 2):
            Kp = 2 * depth + 10 if quick else (min(2 * depth + 11, 17) if depth <= 3 else 15)
            qs.append(Query(f"bmc_plain_{tag}", f, Kp, covers=[], layer=plain, split=False,
                            timeout=600 if depth <= 3 else 240, required=depth <= 3,
                            desc="restricted layer: both commits tied to 1 and no discards (the degraded "
                                 "non-transactional mode the class documents), deeper wrap-around"))
        qs.append(Query(f"ind_{tag}", f, 1, kind="ind", invariants=_inv, timeout=600,
                        desc=f"{tag}: 1-step induction from an arbitrary state (all histories) with pointer/count/store invariants"))
        if not quick or depth != 1:
            qs.append(Query(f"cosim_{tag}", f, 0, kind="cosim", cosim_cycles=100 if quick else 1000))
    return qs
