"""C28 -- OUT boundary detection marks first/last bytes and delays completion.

DUT: luna.gateware.usb.stream.USBOutStreamBoundaryDetector (real class).
Environment: free raw stream (valid / next / payload) and free complete_in / invalid_in strobes at any cycle.
Oracle: tracked element (const index k) over raw bytes vs. processed bytes with the first/last marks derived from the
raw packet framing (a packet = one span of raw `valid`), plus ghost bookkeeping of the strobes seen per packet.
"""
from amaranth import *
from ..harness import Harness
from ..engine import Query

PROP = "C28"
ENCODED = ["luna/gateware/usb/stream.py: USBOutStreamBoundaryDetector.elaborate (FSM, one-byte buffer, strobe buffering)"]
ASSUMPTIONS = [
    "raw stream: `next` only while `valid` (USBDataPacketReceiver, C02)",
    "raw `valid` stays low for at least `gap` cycles between packets (gap=2 here; physically >= 5: an idle cycle, "
    "a PID and two bytes pass before the receiver raises `valid` again)",
    "complete_in / invalid_in are free in every cycle (also both at once, also outside packets)",
    "strobes that must be reported: those arriving while the packet is in progress, i.e. after the cycle of its "
    "first byte and up to and including the first cycle `valid` is low again (where the real receiver strobes)",
]
BOUNDS = "BMC from reset, all raw-stream histories up to K cycles (packets of 0..K-3 bytes, any gaps between bytes)"
OUTSIDE = "histories longer than K; packets closer together than `gap`; start from a non-reset state"

GAP = 2


class BoundaryHarness(Harness):
    domains = ("usb",)

    def __init__(self, gap=GAP):
        super().__init__()
        from luna.gateware.usb.stream import USBOutStreamBoundaryDetector
        self.gap = gap
        self.dut = USBOutStreamBoundaryDetector()
        self.v_req = self.inp("v_req")
        self.n_req = self.inp("n_req")
        self.inp("payload", signal=self.dut.unprocessed_stream.payload)
        self.inp("complete_in", signal=self.dut.complete_in)
        self.inp("invalid_in", signal=self.dut.invalid_in)
        self.k = self.inp("k", 4, const=True)
        V = ("data", "first_mark", "last_mark", "phantom_byte", "lost_byte", "next_without_valid",
             "strobe_early", "strobe_phantom", "strobe_dup", "strobe_missing")
        self.v = {n: self.viol(n) for n in V}
        C = ("match", "match_first", "match_last", "match_single", "match_middle", "complete_reported",
             "invalid_reported", "both_reported", "second_packet", "midpacket_strobe_reported", "gap_bytes")
        self.c = {n: self.cover(n) for n in C}

    def stimulus(self, rng, t, consts):
        r = rng.random
        return dict(v_req=int(r() < 0.8), n_req=int(r() < 0.6), payload=rng.getrandbits(8),
                    complete_in=int(r() < 0.3), invalid_in=int(r() < 0.2), k=consts["k"])

    def elaborate(self, platform):
        m = Module()
        m.submodules.dut = dut = self.dut
        raw, out = dut.unprocessed_stream, dut.processed_stream
        v, c = self.v, self.c
        W = 5

        # ---- environment: legal raw stream
        prev_valid = Signal(name="e_prev_valid")
        low_cnt = Signal(range(self.gap + 1), init=self.gap, name="e_low_cnt")
        valid = Signal(name="e_valid")
        nxt = Signal(name="e_next")
        m.d.comb += [
            valid.eq(self.v_req & (prev_valid | (low_cnt == self.gap))),
            nxt.eq(valid & self.n_req),
            raw.valid.eq(valid),
            raw.next.eq(nxt),
        ]
        m.d.usb += prev_valid.eq(valid)
        with m.If(valid):
            m.d.usb += low_cnt.eq(0)
        with m.Elif(low_cnt != self.gap):
            m.d.usb += low_cnt.eq(low_cnt + 1)
        rise = Signal(name="e_rise")
        fall = Signal(name="e_fall")          # first cycle valid is low after a packet
        m.d.comb += [rise.eq(valid & ~prev_valid), fall.eq(~valid & prev_valid)]

        # ---- ghost: raw side
        in_cnt = Signal(W, name="g_in_cnt")
        out_cnt = Signal(W, name="g_out_cnt")
        pkt_bytes = Signal(W, name="g_pkt_bytes")          # bytes of the current raw packet so far
        pkt_bytes_cur = Signal(W, name="g_pkt_bytes_cur")
        m.d.comb += pkt_bytes_cur.eq(Mux(rise, 0, pkt_bytes))
        a_valid = Signal(name="g_a_valid")
        a_byte = Signal(8, name="g_a_byte")
        a_first = Signal(name="g_a_first")
        a_last = Signal(name="g_a_last")
        a_open = Signal(name="g_a_open")                   # tracked byte is (so far) the newest of a packet in progress
        d_valid = Signal(name="g_d_valid")
        d_byte = Signal(8, name="g_d_byte")
        d_first = Signal(name="g_d_first")
        d_last = Signal(name="g_d_last")
        pkt_idx = Signal(2, name="g_pkt_idx")              # packets with >=1 byte finished (saturating)
        a_pkt2 = Signal(name="g_a_pkt2")
        a_gap = Signal(name="g_a_gap")                     # the tracked byte was preceded by a cycle without `next`
        prev_next = Signal(name="g_prev_next")
        m.d.usb += prev_next.eq(nxt)
        with m.If(nxt):
            m.d.usb += [in_cnt.eq(in_cnt + 1), pkt_bytes.eq(pkt_bytes_cur + 1)]
            with m.If(in_cnt == self.k):
                m.d.usb += [a_valid.eq(1), a_byte.eq(raw.payload), a_first.eq(pkt_bytes_cur == 0), a_last.eq(1),
                            a_open.eq(1), a_pkt2.eq(pkt_idx != 0),
                            a_gap.eq((pkt_bytes_cur != 0) & ~prev_next)]
            with m.Elif(a_open):
                m.d.usb += [a_last.eq(0), a_open.eq(0)]
        with m.Elif(rise):
            m.d.usb += pkt_bytes.eq(0)
        with m.If(fall):
            m.d.usb += a_open.eq(0)
            with m.If((pkt_bytes != 0) & (pkt_idx != 3)):
                m.d.usb += pkt_idx.eq(pkt_idx + 1)

        # ---- ghost: processed side
        out_byte = Signal(name="g_out_byte")
        m.d.comb += out_byte.eq(out.next)
        with m.If(out_byte):
            m.d.usb += out_cnt.eq(out_cnt + 1)
            with m.If((out_cnt == self.k) & ~d_valid):
                m.d.usb += [d_valid.eq(1), d_byte.eq(out.payload), d_first.eq(dut.first), d_last.eq(dut.last)]

        # ---- ghost: strobes
        # in_progress: the current raw packet has had at least one byte in an earlier cycle
        in_progress = Signal(name="g_in_progress")
        m.d.comb += in_progress.eq((valid & ~rise & (pkt_bytes != 0)) | (fall & (pkt_bytes != 0)))
        seen_c = Signal(name="g_seen_c")      # a complete_in arrived since the packet's `valid` rose (may be reported)
        seen_i = Signal(name="g_seen_i")
        owed_c = Signal(name="g_owed_c")      # a complete_in arrived while the packet was in progress (must be reported)
        owed_i = Signal(name="g_owed_i")
        owed_mid = Signal(name="g_owed_mid")  # ... and not in the `fall` cycle
        rep_c = Signal(name="g_rep_c")        # already reported for this packet
        rep_i = Signal(name="g_rep_i")
        last_out = Signal(name="g_last_out")  # the last byte of the most recent packet has been output
        with m.If(rise):
            m.d.usb += [seen_c.eq(dut.complete_in), seen_i.eq(dut.invalid_in), owed_c.eq(0), owed_i.eq(0),
                        owed_mid.eq(0), rep_c.eq(0), rep_i.eq(0), last_out.eq(0)]
        with m.Else():
            with m.If(valid | fall):
                m.d.usb += [seen_c.eq(seen_c | dut.complete_in), seen_i.eq(seen_i | dut.invalid_in)]
            with m.If(in_progress):
                m.d.usb += [owed_c.eq(owed_c | dut.complete_in), owed_i.eq(owed_i | dut.invalid_in)]
                with m.If(~fall & (dut.complete_in | dut.invalid_in)):
                    m.d.usb += owed_mid.eq(1)
            with m.If(out_byte & dut.last):
                m.d.usb += last_out.eq(1)
            with m.If(dut.complete_out):
                m.d.usb += rep_c.eq(1)
            with m.If(dut.invalid_out):
                m.d.usb += rep_i.eq(1)

        both = a_valid & d_valid
        m.d.comb += [
            v["data"].eq(both & (a_byte != d_byte)),
            v["first_mark"].eq(both & (a_first != d_first)),
            v["last_mark"].eq(both & ~a_open & (a_last != d_last)),
            # nothing is output that was not received
            v["phantom_byte"].eq((d_valid & ~a_valid) | (out_cnt > in_cnt)),
            # every byte of a packet has been output when the next packet begins
            v["lost_byte"].eq(rise & (out_cnt + out_byte != in_cnt)),
            v["next_without_valid"].eq(out.next & ~out.valid),
            # strobes: only after the packet's last byte was output (and before the next packet starts) ...
            v["strobe_early"].eq((dut.complete_out | dut.invalid_out) & (~last_out | valid & ~rise)),
            # ... only if such a strobe was seen during the packet, at most once ...
            v["strobe_phantom"].eq((dut.complete_out & ~seen_c) | (dut.invalid_out & ~seen_i)),
            v["strobe_dup"].eq((dut.complete_out & rep_c) | (dut.invalid_out & rep_i)),
            # ... and every strobe seen while the packet was in progress is reported before the next packet
            v["strobe_missing"].eq(rise & ((owed_c & ~rep_c & ~dut.complete_out) | (owed_i & ~rep_i & ~dut.invalid_out))),
        ]
        m.d.comb += [
            c["match"].eq(both & (a_byte == d_byte)),
            c["match_first"].eq(both & a_first & d_first & ~a_last & ~a_open),
            c["match_last"].eq(both & a_last & d_last & ~a_first & ~a_open),
            c["match_single"].eq(both & a_last & d_last & a_first & d_first & ~a_open),
            c["match_middle"].eq(both & ~a_last & ~a_first & ~d_first & ~d_last),
            c["complete_reported"].eq(dut.complete_out & owed_c & last_out),
            c["invalid_reported"].eq(dut.invalid_out & owed_i & last_out),
            c["both_reported"].eq(dut.invalid_out & dut.complete_out),
            c["second_packet"].eq(both & a_pkt2 & (a_byte == d_byte) & d_first),
            c["midpacket_strobe_reported"].eq(dut.complete_out & owed_mid),
            c["gap_bytes"].eq(both & a_gap & (a_byte == d_byte)),
        ]
        for n, s in (("raw_valid", valid), ("raw_next", nxt), ("out_valid", out.valid), ("out_next", out.next),
                     ("out_payload", out.payload), ("first", dut.first), ("last", dut.last),
                     ("complete_out", dut.complete_out), ("invalid_out", dut.invalid_out), ("in_cnt", in_cnt),
                     ("out_cnt", out_cnt), ("seen_c", seen_c), ("owed_c", owed_c), ("last_out", last_out)):
            self.obs(n, s)
        return m


def queries(tier):
    quick = tier == "quick"
    f = lambda: BoundaryHarness()
    K = 16 if quick else 24
    return [
        Query("bmc_free", f, K, timeout=900, desc="raw stream and strobes free every cycle, inter-packet gap >= 2"),
        Query("cosim", f, 0, kind="cosim", cosim_cycles=300 if quick else 3000),
    ]
