"""C02 -- USB2 data packets are accepted iff their CRC16 is valid, payload intact.

DUT: USBDataPacketReceiver wired to the real USBDataPacketCRC and USBInterpacketTimer exactly as
USBDevice.elaborate does (device.py: add_interface calls, crc.rx_data/rx_valid from UTMI), and, as a second
configuration, USBDataPacketReceiver(standalone=True).
Oracle: bit-serial CRC16 from the USB 2.0 spec kept by the monitor over the bytes after the PID (with a two-byte
history so that the CRC over the payload is available when the packet ends), byte counters, tracked k-th element.
"""
from amaranth import *
from ..harness import Harness
from ..engine import Query
from ..lib.usb2 import crc16_serial_step, crc16_wire, utmi_rx_contract
from .c05 import spec_cycles

PROP = "C02"
ENCODED = ["luna/gateware/usb/usb2/packet.py: USBDataPacketReceiver.elaborate, USBDataPacketCRC (rx path), "
           "USBInterpacketTimer; wiring replicated from luna/gateware/usb/usb2/device.py:262-282"]
ASSUMPTIONS = [
    "UTMI receive contract: rx_valid only while rx_active and not in the first rx_active cycle",
    "after a CRC-valid data packet the host stays silent until the device's response window opens "
    "(no rx_active before ready_for_response) -- a host waits for the handshake",
    "speed constant, one of HIGH/FULL/LOW; no device transmission in this harness (crc.tx_valid = 0)",
]
BOUNDS = "BMC from reset, K=16 (quick) / K=22 (thorough), rx_data/rx_active/rx_valid free every cycle, tracked element " \
         "index k symbolic; deeper layer without rx_valid gaps K=30"
OUTSIDE = "payloads longer than the depth allows (~K-6 bytes); FS/LS response timing beyond K (covered by C05)"


class RxHarness(Harness):
    def __init__(self, standalone=False):
        super().__init__()
        from luna.gateware.interface.utmi import UTMIInterface
        from luna.gateware.usb.usb2.packet import USBDataPacketReceiver, USBDataPacketCRC, USBInterpacketTimer
        self.standalone = standalone
        self.utmi = UTMIInterface()
        self.dut = USBDataPacketReceiver(utmi=self.utmi, standalone=standalone)
        if not standalone:
            self.crc = USBDataPacketCRC()
            self.timer = USBInterpacketTimer()
            self.crc.add_interface(self.dut.data_crc)
            self.timer.add_interface(self.dut.timer)
        self.inp("rx_data", signal=self.utmi.rx_data)
        self.inp("rx_active", signal=self.utmi.rx_active)
        self.inp("rx_valid", signal=self.utmi.rx_valid)
        self.speed = self.inp("speed", 2, const=True)
        self.k = self.inp("k", 4, const=True)
        names = ["complete", "mismatch", "both", "packet_id", "count", "order", "next_valid", "rfr", "pid_toggle"]
        self.v = {n: self.viol(n) for n in names}
        self.c = {n: self.cover(n) for n in ["complete_zlp", "complete_1", "complete_3", "mismatch", "short1",
                                             "rfr", "two_packets", "nondata", "tracked"]}
        self.a_utmi = self.assume("utmi_rx")
        self.a_speed = self.assume("speed")
        self.a_quiet = self.assume("host_waits")

    def elaborate(self, platform):
        m = Module()
        m.submodules.dut = dut = self.dut
        u = self.utmi
        if not self.standalone:
            m.submodules.crc = self.crc
            m.submodules.timer = self.timer
            m.d.comb += [self.crc.rx_data.eq(u.rx_data), self.crc.rx_valid.eq(u.rx_valid), self.crc.tx_valid.eq(0),
                         self.timer.speed.eq(self.speed)]
            m.d.comb += self.a_speed.eq(self.speed != 3)
        else:
            m.d.comb += self.a_speed.eq(self.speed == 1)   # standalone mode is hard-wired to full speed
        m.d.comb += self.a_utmi.eq(utmi_rx_contract(m, "usb", u.rx_active, u.rx_valid))

        # ---- ghost packet recorder
        prev_active = Signal()
        have_pid = Signal()
        pidbyte = Signal(8)
        n = Signal(5)                     # bytes after the PID (saturating)
        l1, l2 = Signal(8), Signal(8)     # last and second-to-last byte
        r0, r1, r2 = Signal(16, init=0xFFFF), Signal(16, init=0xFFFF), Signal(16, init=0xFFFF)
        trk, got = Signal(8), Signal(8)
        sc = Signal(5)                    # bytes streamed in this packet
        m.d.usb += prev_active.eq(u.rx_active)
        end = Signal()
        m.d.comb += end.eq(prev_active & ~u.rx_active)
        nxt = crc16_serial_step(m, r0, u.rx_data, "rcrc")
        with m.If(~u.rx_active):
            m.d.usb += [have_pid.eq(0), n.eq(0), sc.eq(0), r0.eq(0xFFFF), r1.eq(0xFFFF), r2.eq(0xFFFF)]
        with m.Elif(u.rx_valid):
            with m.If(~have_pid):
                m.d.usb += [have_pid.eq(1), pidbyte.eq(u.rx_data)]
            with m.Else():
                m.d.usb += [r2.eq(r1), r1.eq(r0), r0.eq(nxt), l2.eq(l1), l1.eq(u.rx_data)]
                with m.If(n != 31):
                    m.d.usb += n.eq(n + 1)
                with m.If(n == self.k):
                    m.d.usb += trk.eq(u.rx_data)
        with m.If(u.rx_active & dut.stream.next):
            m.d.usb += sc.eq(sc + 1)
            with m.If(sc == self.k):
                m.d.usb += got.eq(dut.stream.payload)

        pid_ok = have_pid & (pidbyte[0:4] == ~pidbyte[4:8]) & (pidbyte[0:2] == 0b11)
        wire = crc16_wire(m, r2, "rcrc_wire")
        crc_ok = (wire == Cat(l2, l1))
        want_complete, want_mismatch = Signal(), Signal()
        m.d.comb += [
            want_complete.eq(end & pid_ok & (n >= 2) & crc_ok),
            want_mismatch.eq(end & pid_ok & (n >= 2) & ~crc_ok),
        ]
        e_complete, e_mismatch, e_pid = Signal(), Signal(), Signal(4)
        m.d.usb += [e_complete.eq(want_complete), e_mismatch.eq(want_mismatch), e_pid.eq(pidbyte[0:4])]
        exp_count = Signal(5)
        m.d.comb += exp_count.eq(Mux(pid_ok & (n >= 2), n - 2, 0))
        m.d.comb += [
            self.v["complete"].eq(dut.packet_complete != e_complete),
            self.v["mismatch"].eq(dut.crc_mismatch != e_mismatch),
            self.v["both"].eq(dut.packet_complete & dut.crc_mismatch),
            self.v["packet_id"].eq(e_complete & (dut.packet_id != e_pid)),
            # exactly the bytes between PID and CRC are streamed ...
            self.v["count"].eq(end & (n != 31) & (sc != exp_count)),
            # ... in order (tracked k-th element)
            self.v["order"].eq(end & pid_ok & (n >= 2) & (n != 31) & (self.k < n - 2) & (got != trk)),
            self.v["next_valid"].eq(dut.stream.next & ~dut.stream.valid),
            # the data toggle bit the device forwards to endpoints is bit 3 of the data PID being received
            self.v["pid_toggle"].eq(e_complete & (dut.active_pid[3] != e_pid[3])),
        ]
        # ---- ready for response: once, min-gap cycles after completion is reported, never otherwise
        exp = spec_cycles(60e6)
        since = Signal(11, init=0x7ff)
        waiting = Signal()
        want_rfr = Signal()
        with m.If(want_complete):
            m.d.usb += [since.eq(0), waiting.eq(1)]
        with m.Elif(since != 0x7ff):
            m.d.usb += since.eq(since + 1)
        with m.Switch(self.speed):
            for sp in (0, 1, 2):
                with m.Case(sp):
                    m.d.comb += want_rfr.eq(waiting & (since == min(exp[sp][0])))
        with m.If(want_rfr):
            m.d.usb += waiting.eq(0)
        m.d.comb += self.v["rfr"].eq(dut.ready_for_response != want_rfr)
        m.d.comb += self.a_quiet.eq(~(waiting & u.rx_active))
        # ---- covers
        npk = Signal(2)
        with m.If(dut.packet_complete & (npk != 3)):
            m.d.usb += npk.eq(npk + 1)
        m.d.comb += [
            self.c["complete_zlp"].eq(dut.packet_complete & e_complete & (sc == 0)),
            self.c["mismatch"].eq(dut.crc_mismatch),
            self.c["short1"].eq(end & pid_ok & (n == 1)),
            self.c["rfr"].eq(dut.ready_for_response),
            self.c["two_packets"].eq(npk == 2),
            self.c["nondata"].eq(end & have_pid & ~pid_ok & (n >= 2)),
        ]
        # registered copies of the streamed count for covers evaluated the cycle after the end
        sc_end = Signal(5)
        with m.If(end):
            m.d.usb += sc_end.eq(sc)
        k_end = Signal(4)
        m.d.comb += [
            self.c["complete_1"].eq(dut.packet_complete & (sc_end == 1)),
            self.c["complete_3"].eq(dut.packet_complete & (sc_end == 3)),
            self.c["tracked"].eq(dut.packet_complete & (sc_end == 3) & (self.k == 2)),
        ]
        return m

    def stimulus(self, rng, t, consts):
        if not hasattr(self, "_script"):
            self._script = []
        if not self._script:
            pid = rng.choice([0x3, 0xB, 0x7, 0xF, 0x3, 0xB, rng.randrange(16)])
            b0 = ((~pid & 0xf) << 4) | pid
            if rng.random() < 0.1:
                b0 ^= 0x10
            payload = [rng.randrange(256) for _ in range(rng.choice([0, 0, 1, 2, 3, 5, 8]))]
            reg = 0xFFFF
            for byte in payload:
                for i in range(8):
                    fb = ((byte >> i) & 1) ^ (reg >> 15)
                    reg = ((reg << 1) & 0xFFFF) ^ (0x8005 if fb else 0)
            w = 0
            for i in range(16):
                w |= ((~(reg >> (15 - i))) & 1) << i
            if rng.random() < 0.2:
                w ^= 1 << rng.randrange(16)
            data = [b0] + payload + [w & 0xff, w >> 8]
            if rng.random() < 0.1:
                data = data[:rng.randrange(1, len(data))]
            seq = [(0, 1, 0)]
            for d in data:
                while rng.random() < 0.25:
                    seq.append((rng.randrange(256), 1, 0))
                seq.append((d, 1, 1))
            seq += [(0, 0, 0)] * rng.randrange(13, 16)
            self._script = seq
        d, a, v = self._script.pop(0)
        return dict(rx_data=d, rx_active=a, rx_valid=v, speed=consts["speed"], k=consts["k"])

    def const_stimulus(self, rng):
        return dict(speed=1 if self.standalone else rng.randrange(2), k=rng.randrange(4))


def queries(tier):
    qs = []
    for tag, sa in (("devwiring", False), ("standalone", True)):
        f = (lambda sa=sa: RxHarness(sa))
        K = 16 if tier == "quick" else 22
        hints = {"*": {"speed": 0}} if not sa else {}
        covers = None if not sa else ["complete_zlp", "mismatch", "complete_3"]
        qs.append(Query(f"bmc_{tag}", f, K, timeout=1200, covers=covers, hints=hints,
                        desc=f"{tag}: all UTMI receive histories of {K} cycles, symbolic speed and tracked index"))
        nogap = {"rx_valid": None}
        if tier == "thorough":
            qs.append(Query(f"bmc_fs_{tag}", f, 34, timeout=1200, covers=["rfr"] if sa else [],
                            layer={"speed": 1, "rx_active": (lambda t: None if t < 12 else 0)},
                            desc=f"{tag}: full speed, packets within the first 12 cycles, then silence: "
                                 "ready_for_response exactly 10 cycles after completion"))
        qs.append(Query(f"cosim_{tag}", f, 0, kind="cosim", cosim_cycles=300 if tier == "quick" else 3000))
    return qs
