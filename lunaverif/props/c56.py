"""C56 -- the IntegratedLogicAnalyzer captures exactly the samples following a trigger.

DUT: luna.gateware.debug.ila.IntegratedLogicAnalyzer (real class) over three free input signals (1+2 bits... Cat = 3 bits),
small sample depths and pre-trigger counts 0..3.
Oracle (from the statement, with an independent ghost recorder):
  * a trigger seen while the analyzer is idle (cycle T) starts a capture; triggers during a capture are ignored;
  * the capture records the inputs delayed by `samples_pretrigger` cycles in the sample_depth consecutive cycles
    T+1 .. T+depth:  sample n = inputs(T + 1 + n - pretrigger)   (pretrigger=1: sample 0 is the trigger cycle's value,
    as the repo's own test pins);
  * `sampling` is high exactly in T+1 .. T+depth; `complete` is high from T+depth+1 until the cycle of the next
    accepted trigger (inclusive), and low before the first capture;
  * while complete is held over two consecutive cycles, captured_sample equals ghost sample [captured_sample_number
    of the previous cycle] (synchronous read port).
"""
from amaranth import *
from ..harness import Harness
from ..engine import Query

PROP = "C56"
ENCODED = ["luna/gateware/debug/ila.py: IntegratedLogicAnalyzer.elaborate (pre-trigger delay, write_position/write enable, "
           "IDLE/SAMPLE FSM, sampling/complete, read port)"]
ASSUMPTIONS = [
    "inputs, trigger and captured_sample_number are free in every cycle",
    "cycle convention: a trigger in cycle T (read at the clock edge ending T) makes T+1 the first recording cycle; "
    "sample n is the input value of cycle T+1+n-pretrigger (the convention pinned by tests/test_ila.py for pretrigger=1)",
    "read-back is checked with the address presented for one cycle while complete is high in that cycle and the next "
    "(synchronous memory read); values read while a capture is running are unspecified",
    "input values before cycle 0 are 0 (reset value of the delay registers)",
]
BOUNDS = "quick: (depth,pretrigger) (2,0) (2,2) (3,1) (4,1) and (3,3) in domain usb; thorough: sample_depth {2,3,4} x " \
         "samples_pretrigger 0..3 plus (5,1), (8,2), usb (3,3), usb (4,1); 3-bit samples; " \
         "BMC from reset K = 2*depth + pretrigger + 10 (two complete captures with read-back), everything free per cycle"
OUTSIDE = "sample_depth 1 (zero-width write position); depths above 8; the serial/stream read-out front-ends " \
          "(SyncSerialILA, StreamILA, AsyncSerialILA) which only wrap this core"


class ILAHarness(Harness):
    domains = ("sync",)

    def __init__(self, depth=2, pre=1, domain="sync"):
        super().__init__()
        from luna.gateware.debug.ila import IntegratedLogicAnalyzer
        self.domains = (domain,)
        self.depth, self.pre = depth, pre
        self.in_a = self.inp("in_a", 1)
        self.in_b = self.inp("in_b", 2)
        self.dut = IntegratedLogicAnalyzer(signals=[self.in_a, self.in_b], sample_depth=depth, domain=domain,
                                           samples_pretrigger=pre)
        self.w = 3
        self.trigger = self.inp("trigger", signal=self.dut.trigger)
        self.number = self.inp("number", signal=self.dut.captured_sample_number)
        self.v = {k: self.viol(k) for k in ("sampling", "complete", "readback", "address_range")}
        self.c = {k: self.cover(k) for k in ("complete", "readback_nonzero", "readback_last", "trigger_ignored",
                                             "second_capture_readback", "retrigger_when_complete", "distinct_samples")}
        self.g_cap = Signal(name="g_capturing")
        self.g_n = Signal(range(depth + 1), name="g_n")
        self.g_complete = Signal(name="g_complete")
        self.g_mem = [Signal(self.w, name=f"g_mem{i}") for i in range(depth)]
        self.g_hist = [Signal(self.w, name=f"g_hist{i}") for i in range(pre)]
        self.obs("g_capturing", self.g_cap)
        self.obs("g_n", self.g_n)
        self.obs("sampling", self.dut.sampling)
        self.obs("complete", self.dut.complete)
        self.obs("captured_sample", self.dut.captured_sample)

    def elaborate(self, platform):
        m = Module()
        m.submodules.dut = dut = self.dut
        dom = m.d[self.domain]
        D, P = self.depth, self.pre
        now = Cat(self.in_a, self.in_b)
        # inputs delayed by P cycles (ghost delay line)
        prev = now
        for i in range(P):
            dom += self.g_hist[i].eq(prev)
            prev = self.g_hist[i]
        delayed = Signal(self.w, name="g_delayed")
        m.d.comb += delayed.eq(prev)

        cap, n, comp = self.g_cap, self.g_n, self.g_complete
        gmem = Array(self.g_mem)
        captures = Signal(2, name="g_captures")
        ignored = Signal(name="g_ignored")
        with m.If(cap):
            dom += gmem[n].eq(delayed)
            with m.If(n == D - 1):
                dom += [cap.eq(0), comp.eq(1), n.eq(0), captures.eq(Mux(captures == 3, 3, captures + 1))]
            with m.Else():
                dom += n.eq(n + 1)
            with m.If(self.trigger):
                dom += ignored.eq(1)
        with m.Elif(self.trigger):
            dom += [cap.eq(1), n.eq(0), comp.eq(0), ignored.eq(0)]

        # ---- assertions
        m.d.comb += [self.v["sampling"].eq(dut.sampling != cap),
                     self.v["complete"].eq(dut.complete != comp)]
        prev_comp = Signal(name="g_prev_complete")
        prev_num = Signal(range(max(D, 2)), name="g_prev_number")
        dom += [prev_comp.eq(dut.complete & comp), prev_num.eq(self.number)]
        rb_ok = Signal(name="g_rb_checked")
        m.d.comb += rb_ok.eq(prev_comp & dut.complete & comp & (prev_num < D))
        m.d.comb += self.v["readback"].eq(rb_ok & (dut.captured_sample != gmem[prev_num]))
        # the sample-number port must be able to address exactly the recorded samples
        m.d.comb += self.v["address_range"].eq(1 if (1 << len(dut.captured_sample_number)) < D else 0)

        # ---- covers
        c = self.c
        retrig = Signal(name="g_retrig")
        with m.If(comp & ~cap & self.trigger):
            dom += retrig.eq(1)
        distinct = Signal(name="g_distinct")
        m.d.comb += distinct.eq((self.g_mem[0] != self.g_mem[1]) & (self.g_mem[D - 1] != 0))
        m.d.comb += [
            c["complete"].eq(dut.complete & comp),
            c["readback_nonzero"].eq(rb_ok & (dut.captured_sample == gmem[prev_num]) & (dut.captured_sample != 0)),
            c["readback_last"].eq(rb_ok & (prev_num == D - 1) & (dut.captured_sample != 0) & (dut.captured_sample == gmem[prev_num])),
            c["trigger_ignored"].eq(rb_ok & ignored & (dut.captured_sample != 0)),
            c["second_capture_readback"].eq(rb_ok & (captures == 2) & (dut.captured_sample != 0)),
            c["retrigger_when_complete"].eq(retrig & (captures == 2) & comp),
            c["distinct_samples"].eq(rb_ok & distinct & (prev_num == 0) & (dut.captured_sample == self.g_mem[0])),
        ]
        return m

    def stimulus(self, rng, t, consts):
        return {"in_a": rng.getrandbits(1), "in_b": rng.getrandbits(2), "trigger": int(rng.random() < 0.15),
                "number": rng.randrange(1 << len(self.dut.captured_sample_number))}


def queries(tier):
    qs = []
    quick = tier == "quick"
    if quick:
        cfgs = [(2, 0, "sync"), (2, 2, "sync"), (3, 1, "sync"), (4, 1, "sync"), (3, 3, "usb")]
    else:
        cfgs = [(d, p, "sync") for d in (2, 3, 4) for p in (0, 1, 2, 3)] + [(5, 1, "sync"), (8, 2, "sync"), (3, 3, "usb"), (4, 1, "usb")]
    for depth, pre, dom in cfgs:
        tag = f"d{depth}p{pre}" + ("" if dom == "sync" else dom)
        f = (lambda depth=depth, pre=pre, dom=dom: ILAHarness(depth, pre, dom))
        K = 2 * depth + pre + (10 if quick else 14)
        qs.append(Query(f"bmc_{tag}", f, K, split=False, timeout=600,
                        desc=f"sample_depth {depth}, samples_pretrigger {pre}, domain {dom}: inputs, trigger and read address "
                             "free every cycle; sampling/complete/read-back against the ghost recorder; reachability twins: "
                             "complete, read-back of first/last position, ignored trigger, second capture"))
    for depth, pre, dom in (((4, 1, "sync"), (3, 3, "usb")) if quick else ((2, 1, "sync"), (4, 2, "sync"), (3, 3, "usb"))):
        f = (lambda depth=depth, pre=pre, dom=dom: ILAHarness(depth, pre, dom))
        qs.append(Query(f"cosim_d{depth}p{pre}{'' if dom == 'sync' else dom}", f, 0, kind="cosim",
                        cosim_cycles=100 if quick else 1000))
    return qs
