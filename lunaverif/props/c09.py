"""C09 -- GET_DESCRIPTOR returns exactly the requested descriptor bytes.

Two harness families, both around REAL luna classes:

A. handler level: GetDescriptorHandlerBlock / GetDescriptorHandlerDistributed / the GetDescriptorHandlerMux that
   StandardRequestHandler.get_descriptor_handler_submodule() builds when a run-time descriptor is present.
   value / length / start_position / start timing / tx.ready are free; one `start` = one packet.
B. request level: StandardRequestHandler (avoid_blockram False/True) driven at its RequestHandlerInterface by a host
   model (SETUP, data-stage IN tokens, ACK delivered or lost, early/normal status stage).  The monitor's offset is
   the HOST's view (max packet size * number of packets it acknowledged), so the per-packet checks add up to
   "the concatenated data stage equals the first min(wLength, length) bytes and ends with a short packet or ZLP".

The expectation comes from lib/descriptors.response_monitor (table lookup in the descriptor bytes).
"""
from amaranth import *
from ..harness import Harness
from ..engine import Query
from ..lib.descriptors import make_collection, response_monitor

# FINDINGS (genuine defects found by this check on the original tree, fixed in /repo)
#   8a197de "fix: GetDescriptorHandlerDistributed ends an exactly-packet-sized descriptor with a ZLP"
#       start_position == descriptor length (all packets full, wLength larger) was truncated/clamped into the
#       generator's narrow start_position: data was re-sent instead of a ZLP.
#       Caught by: bmc_h_distributed_* assert:zlp (also no_response/spurious), bmc_r_ready1_*dist* assert:zlp/payload.
#   65fd146 "fix: do not add a second language descriptor when splitting fixed and run-time descriptors"
#       with a run-time descriptor present both the ROM handler and the distributed handler answered STRING 0 (the
#       split collections re-added the default language descriptor).
#       Caught by: bmc_h_mux_* assert:payload/first/last/gap/spurious, bmc_r_*_rt assert:payload.
#   f190aac "fix: GetDescriptorHandlerMux ignores the previous request's stall latch when a new request starts"
#       a request served by the distributed handler left the ROM handler's stall latch set; the next request for a
#       ROM descriptor was STALLed.  Caught by: bmc_h2_mux_* assert:stall_exists (two different requests in a row).

PROP = "C09"
ENCODED = [
    "luna/gateware/usb/usb2/descriptor.py: GetDescriptorHandlerBlock (generate_rom_content layout, index map, FSM, "
    "length clamp, ZLP states)",
    "luna/gateware/usb/usb2/descriptor.py: GetDescriptorHandlerDistributed + USBDescriptorStreamGenerator "
    "(start_position hand-over, max_length)",
    "luna/gateware/usb/usb2/descriptor.py: GetDescriptorHandlerMux (stall latching, tx OneHotMultiplexer)",
    "luna/gateware/usb/request/standard.py: StandardRequestHandler GET_DESCRIPTOR state (start_position advance on "
    "ACK, expecting_ack, stall hand-over), get_descriptor_handler_submodule",
    "luna/gateware/stream/generator.py: ConstantStreamGenerator as used by the distributed handler",
]
ASSUMPTIONS = [
    "descriptor collections are elaboration-time constants: enumerated concrete collections with distinctive bytes "
    "(sparse string indices {0,2,5}/type 15/lengths exactly mps and 2*mps; dense incl. type 0 and a 1-byte "
    "descriptor; the test suite's collection; each optionally with one run-time descriptor)",
    "handler level: value/length/start_position are held from `start` until the response is complete and no new "
    "`start` is given while a response is pending (StandardRequestHandler drives them from registers)",
    "handler level: the request is one a host can make: start_position is a multiple of the max packet size, "
    "start_position < wLength and start_position <= descriptor length (continuation only after full packets)",
    "request level: legal host -- one SETUP at a time, IN tokens only while data is owed, ACK only after a complete "
    "packet and at least one cycle later, ACK may be lost (then the IN is repeated), status stage ends the request; "
    "foreign ACK strobes (other endpoints' transactions) may occur between our transactions, but not while one of our own packets is still "
    "unacknowledged (lost ACK, no later ACK for us) -- not even in the following request; "
    "wLength > 0; handshakes_in.nak/stall, rx and tokenizer inputs tied to 0",
    "tx.ready (the packet generator) is free every cycle",
]
BOUNDS = "BMC from reset.  quick: sparse collection, mps 8: handler level K=14 per handler (start + latency + a full " \
         "packet + stalls), two-request mux K=12, request level free tx.ready K=12 (first packet) and, with tx.ready " \
         "tied to 1 and wValue pinned to the one-packet descriptor, K=24 (packet + lost ACK/retry + ZLP + status).  " \
         "thorough: sparse+dense+suite, mps 8/16 required (handler K=18/25, two-request K=12..16, request level free " \
         "K=18 and tx.ready=1 with symbolic wValue K=28), mps 16 request level and mps 32/64 best effort"
OUTSIDE = "descriptors longer than 2*mps+3 bytes except in the suite collection; foreign ACK handshakes (for other " \
          "endpoints) while one of our packets is unacknowledged (C08/C14 territory; observed: a lost ACK leaves " \
          "expecting_ack set across the status stage, so a foreign ACK early in the NEXT GET_DESCRIPTOR advances " \
          "start_position before the first packet); SETUP arriving in the middle of a " \
          "request (C07); wLength == 0"


class HandlerHarness(Harness):
    """A: one descriptor handler, free request parameters"""
    domains = ("usb",)

    def __init__(self, variant="block", kind="sparse", mps=8, ready_after_valid=False, const_req=True,
                 two_values=False):
        super().__init__()
        from luna.gateware.usb.usb2.descriptor import GetDescriptorHandlerBlock, GetDescriptorHandlerDistributed
        from luna.gateware.usb.request.standard import StandardRequestHandler
        self.mps = mps
        self.ready_after_valid = ready_after_valid
        coll, self.descs = make_collection(kind, mps, runtime=(variant == "mux"))
        if variant == "block":
            self.dut = GetDescriptorHandlerBlock(coll, max_packet_length=mps)
        elif variant == "distributed":
            self.dut = GetDescriptorHandlerDistributed(coll, max_packet_length=mps)
        else:
            # the real construction path for "fixed ROM + run-time descriptors"
            self.dut = StandardRequestHandler(coll, max_packet_size=mps, avoid_blockram=False) \
                .get_descriptor_handler_submodule()
            assert type(self.dut).__name__ == "GetDescriptorHandlerMux"
        self.value = self.inp("value", 16, const=const_req)
        self.length = self.inp("length", 16, const=const_req)
        self.sp = self.inp("start_position", 11, const=const_req)
        self.two_values = two_values
        if two_values:
            # a second symbolic request (value, length, offset); every start picks one of the two
            self.value_b = self.inp("value_b", 16, const=True)
            self.length_b = self.inp("length_b", 16, const=True)
            self.sp_b = self.inp("start_position_b", 11, const=True)
            self.pick = self.inp("pick_b", 1)
        self.start = self.inp("start", 1)
        self.ready = self.inp("ready", 1)
        self.a_legal = self.assume("legal_request")
        self.a_stable = self.assume("held_while_busy")
        if ready_after_valid:
            self.a_ready = self.assume("ready_after_valid")

    def elaborate(self, platform):
        m = Module()
        m.submodules.dut = dut = self.dut
        start = Signal(name="start_eff")
        value, length, sp = self.value, self.length, self.sp
        if self.two_values:
            value, length, sp = Signal(16, name="value_eff"), Signal(16, name="length_eff"), Signal(11, name="sp_eff")
            pick_l = Signal(name="pick_latched")
            pick = Signal(name="pick_eff")
            m.d.comb += [value.eq(Mux(pick, self.value_b, self.value)), length.eq(Mux(pick, self.length_b, self.length)),
                         sp.eq(Mux(pick, self.sp_b, self.sp))]
        m.d.comb += [dut.value.eq(value), dut.length.eq(length), dut.start_position.eq(sp),
                     dut.start.eq(start), dut.tx.ready.eq(self.ready)]
        r = response_monitor(m, self, start=start, value=value, wlength=length, offset=sp,
                             tx=dut.tx, stall=dut.stall, descs=self.descs, mps=self.mps)
        if self.two_values:
            m.d.comb += pick.eq(Mux(r.idle, self.pick, pick_l))
            with m.If(r.idle):
                m.d.usb += pick_l.eq(self.pick)
        m.d.comb += start.eq(self.start & r.idle)
        m.d.comb += self.a_legal.eq(~start | (r.legal & ((sp % self.mps) == 0)))
        m.d.comb += self.a_stable.eq(r.idle | ((value == r.g_val) & (length == r.g_w) & (sp == r.g_off)))
        if self.ready_after_valid:
            seen = Signal(name="valid_prev")
            m.d.usb += seen.eq(dut.tx.valid)
            m.d.comb += self.a_ready.eq(~self.ready | seen)
        self.r = r
        return m

    def stimulus(self, rng, t, consts):
        d = super().stimulus(rng, t, consts)
        if not hasattr(self, "_stim") or rng.random() < 0.04:
            v, b = rng.choice(self.descs)
            if rng.random() < 0.2:
                v ^= 1 << rng.randrange(12)
            self._stim = (v, rng.choice([len(b), 255, self.mps, 3, 2 * self.mps]), rng.choice([0, 0, self.mps]))
        d["value"], d["length"], d["start_position"] = self._stim
        d["start"] = int(rng.random() < 0.15)
        d["ready"] = int(rng.random() < 0.7)
        return d


class RequestHarness(Harness):
    """B: StandardRequestHandler + host model at RequestHandlerInterface level"""
    domains = ("usb",)

    def __init__(self, avoid_blockram=False, kind="sparse", mps=8, runtime=False):
        super().__init__()
        from luna.gateware.usb.request.standard import StandardRequestHandler
        self.mps = mps
        coll, self.descs = make_collection(kind, mps, runtime=runtime)
        self.dut = StandardRequestHandler(coll, max_packet_size=mps, avoid_blockram=avoid_blockram)
        self.value = self.inp("value", 16, const=True)
        self.length = self.inp("length", 16, const=True)
        self.index = self.inp("index", 16, const=True)
        self.ready = self.inp("ready", 1)
        self.do_setup = self.inp("do_setup", 1)
        self.do_in = self.inp("do_in", 1)
        self.do_ack = self.inp("do_ack", 1)
        self.drop_ack = self.inp("drop_ack", 1)
        self.do_status = self.inp("do_status", 1)
        self.foreign_ack = self.inp("foreign_ack", 1)
        self.a_len = self.assume("wlength_nonzero")
        self.v_pid = self.viol("data_pid")
        self.c_retry = self.cover("retransmission")
        self.c_status = self.cover("status_after_data")
        self.c_three = self.cover("third_packet")
        self.restrictions = ["interface.tokenizer/rx/rx_invalid/rx_ready_for_response/handshakes_in.nak|stall tied 0"]

    def elaborate(self, platform):
        from usb_protocol.types import USBRequestType
        m = Module()
        m.submodules.dut = dut = self.dut
        itf = dut.interface
        mps = self.mps
        H_IDLE, H_DATA, H_PEND, H_STATUS = 0, 1, 2, 3
        hs = Signal(2, name="host_state")
        off = Signal(12, name="host_offset")          # bytes the host has received and acknowledged
        acked = Signal(name="host_toggle")            # number of acknowledged packets mod 2
        npk = Signal(2, name="host_packets")
        last_n = Signal(range(mps + 1), name="host_last_n")
        retry = Signal(name="host_retry")
        # one of our packets is still unacknowledged from the device's point of view (its ACK was lost and no later
        # ACK for us was delivered); survives the end of the request
        unacked = Signal(name="host_unacked")
        self.obs("host_state", hs); self.obs("host_offset", off)

        start = Signal(name="data_requested")
        setup_p = Signal(name="setup_received")
        ack_p = Signal(name="ack_in")
        status_p = Signal(name="status_requested")
        m.d.comb += [
            itf.setup.is_in_request.eq(1), itf.setup.type.eq(USBRequestType.STANDARD), itf.setup.recipient.eq(0),
            itf.setup.request.eq(6), itf.setup.value.eq(self.value), itf.setup.index.eq(self.index),
            itf.setup.length.eq(self.length), itf.setup.received.eq(setup_p),
            itf.data_requested.eq(start), itf.status_requested.eq(status_p), itf.handshakes_in.ack.eq(ack_p),
            itf.tx.ready.eq(self.ready),
            self.a_len.eq(self.length != 0),
        ]
        r = response_monitor(m, self, start=start, value=self.value, wlength=self.length, offset=off[:11],
                             tx=itf.tx, stall=itf.handshakes_out.stall, descs=self.descs, mps=mps)
        owed = (off < self.length) & r.idle
        with m.If(self.drop_ack & (hs == 2) & ~self.do_ack):
            m.d.usb += unacked.eq(1)
        with m.Elif(((hs == 2) & self.do_ack) | r.done_stall):
            m.d.usb += unacked.eq(0)
        with m.Switch(hs):
            with m.Case(H_IDLE):
                with m.If(self.do_setup):
                    m.d.comb += setup_p.eq(1)
                    m.d.usb += [hs.eq(H_DATA), off.eq(0), acked.eq(0), retry.eq(0)]
            with m.Case(H_DATA):
                # an ACK that belongs to another endpoint's transaction (the strobe is device wide); not between a
                # lost ACK and its retry
                with m.If(r.idle & self.foreign_ack & ~unacked & ~(self.do_in & owed)):
                    m.d.comb += ack_p.eq(1)
                with m.If(r.idle & self.do_in & owed):
                    m.d.comb += start.eq(1)
                    # a stall in the very cycle of the token ends the request
                    with m.If(r.done_stall):
                        m.d.usb += hs.eq(H_IDLE)
                with m.Elif(r.idle & self.do_status):
                    m.d.comb += status_p.eq(1)
                    m.d.usb += hs.eq(H_IDLE)
                with m.If(~r.idle):
                    with m.If(r.done_data | r.done_zlp):
                        m.d.usb += [hs.eq(H_PEND), last_n.eq(Mux(r.done_zlp, 0, r.n))]
                    with m.Elif(r.done_stall | r.done_bad):
                        m.d.usb += hs.eq(H_IDLE)
            with m.Case(H_PEND):
                with m.If(self.do_ack):
                    m.d.comb += ack_p.eq(1)
                    m.d.usb += [off.eq(off + last_n), acked.eq(~acked), retry.eq(0), npk.eq(Mux(npk == 3, 3, npk + 1))]
                    # a short packet (or ZLP) ends the data stage; so does reaching wLength
                    with m.If((last_n != mps) | ((off + last_n) >= self.length)):
                        m.d.usb += hs.eq(H_STATUS)
                    with m.Else():
                        m.d.usb += hs.eq(H_DATA)
                with m.Elif(self.drop_ack):
                    m.d.usb += [hs.eq(H_DATA), retry.eq(1)]
            with m.Case(H_STATUS):
                with m.If(self.do_status):
                    m.d.comb += status_p.eq(1)
                    m.d.usb += hs.eq(H_IDLE)
        m.d.comb += [
            self.v_pid.eq(itf.tx.valid & ~r.idle & (itf.tx_data_pid != ~acked)),
            self.c_retry.eq(r.done_data & retry),
            self.c_status.eq(status_p & (hs == H_STATUS)),
            self.c_three.eq(r.done_data & (npk == 2)),
        ]
        self.r = r
        return m

    def const_stimulus(self, rng):
        v, b = rng.choice(self.descs)
        return dict(value=v, length=rng.choice([len(b), 255, self.mps, 3 * self.mps]), index=0)

    def stimulus(self, rng, t, consts):
        d = super().stimulus(rng, t, consts)
        d["ready"] = int(rng.random() < 0.8)
        d["drop_ack"] = int(rng.random() < 0.1)
        return d


STMT = ["payload", "first", "last", "gap", "zlp", "stall_exists", "data_nonexistent", "no_response", "spurious", "too_long"]
H2_ASSERTS = ["stall_exists", "data_nonexistent", "no_response", "spurious", "zlp"]
DEEP_COVERS = ["full_packet", "zlp", "exact_multiple_zlp", "retransmission", "status_after_data"]


def _h(variant, kind, mps, K, *, split, required=True, covers=None, cosim=0):
    f = (lambda a=variant, b=kind, c=mps: HandlerHarness(a, b, c))
    tag = f"{variant}_{kind}_mps{mps}"
    qs = [Query(f"bmc_h_{tag}", f, K, timeout=900, split=split, required=required, covers=covers,
                desc=f"handler level {tag}: value/length/start_position symbolic constants of the run, "
                     "start timing and tx.ready free every cycle")]
    if cosim:
        qs.append(Query(f"cosim_h_{tag}", f, 0, kind="cosim", cosim_cycles=cosim))
    return qs


def _h2(variant, K, *, split):
    f = (lambda a=variant: HandlerHarness(a, "sparse", 8, two_values=True))
    return [Query(f"bmc_h2_{variant}_sparse_mps8", f, K, timeout=900, split=split, asserts=H2_ASSERTS,
                  covers=["second_request", "stall", "short_packet"],
                  desc=f"handler level {variant}: two different symbolic requests (value, length, offset), every start "
                       "picks one of them: state carried from one request to the next (stall latches); "
                       "stall/no-data/ZLP clauses only")]


def _r(ab, kind, mps, rt, *, kfree=None, kdeep=None, pin=None, split, required=True, cosim=0, deep_asserts=STMT,
       deep_covers=DEEP_COVERS):
    f = (lambda a=ab, b=kind, c=mps, d=rt: RequestHarness(a, b, c, d))
    tag = f"{'dist' if ab else 'block'}_{kind}_mps{mps}{'_rt' if rt else ''}"
    qs = []
    if kfree:
        qs.append(Query(f"bmc_r_{tag}", f, kfree, timeout=900, split=split, required=required, covers=[], asserts=STMT,
                        desc=f"request level {tag}: host model (IN / ACK delivered or lost / foreign ACK / status), setup "
                             "fields const symbolic, tx.ready free: first packet"))
    if kdeep:
        layer = {"ready": 1}
        what = "layer: tx.ready always 1 (PHY never stalls)"
        name = f"bmc_r_ready1_{tag}"
        if pin is not None:
            layer["value"] = pin
            what += f", wValue pinned to 0x{pin:04x} (a descriptor of exactly one packet)"
            name = f"bmc_r_ready1_v{pin:04x}_{tag}"
        qs.append(Query(name, f, kdeep, timeout=900, split=split, required=required, layer=layer,
                        asserts=deep_asserts, covers=deep_covers,
                        desc=f"{what}.  request level {tag}: whole data stage (continuation packets, lost ACK + retry, "
                             "terminating short packet / ZLP, status)"))
    if cosim:
        qs.append(Query(f"cosim_r_{tag}", f, 0, kind="cosim", cosim_cycles=cosim))
    return qs


def queries(tier):
    qs = []
    if tier == "quick":
        # one collection x one packet size per handler, one process per family (split=False)
        qs += _h("block", "sparse", 8, 14, split=False)
        qs += _h("distributed", "sparse", 8, 14, split=False)
        qs += _h("block", "pow2", 8, 14, split=False)
        qs += _h("mux", "sparse", 8, 14, split=False, cosim=200)
        qs += _h2("mux", 12, split=False)
        qs += _r(False, "sparse", 8, False, kfree=12, kdeep=24, pin=0x0100, split=False, cosim=200)
        qs += _r(True, "sparse", 8, False, kdeep=24, pin=0x0100, split=False)
        return qs
    for v in ("block", "distributed", "mux"):
        for k in ("sparse", "dense"):
            qs += _h(v, k, 8, 18, split=True, cosim=500)
        qs += _h(v, "sparse", 16, 25, split=True)
        qs += _h2(v, 16 if v == "mux" else 12, split=True)
    qs += _h("block", "pow2", 8, 18, split=True)
    qs += _h("distributed", "pow2", 8, 18, split=True)
    qs += _h("block", "suite", 8, 16, split=True, cosim=500)
    qs += _h("distributed", "suite", 8, 16, split=True)
    for v, k, p in (("block", "dense", 32), ("distributed", "sparse", 32), ("block", "sparse", 64), ("distributed", "dense", 64)):
        qs += _h(v, k, p, p + 8, split=True, required=False, covers=[])
    full_covers = DEEP_COVERS + ["continuation", "short_packet", "stall", "third_packet", "cut_by_wlength"]
    for ab, k, rt in ((False, "sparse", False), (True, "sparse", False), (False, "dense", True), (True, "dense", True)):
        qs += _r(ab, k, 8, rt, kfree=18, kdeep=28, split=True, cosim=500, deep_covers=full_covers)
    qs += _r(False, "sparse", 8, True, kdeep=24, pin=0x0100, split=True)
    qs += _r(False, "sparse", 16, False, kfree=26, kdeep=44, split=True, required=False, deep_covers=DEEP_COVERS + ["continuation"])
    return qs
