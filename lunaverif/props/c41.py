"""C41 -- the LTSSM reaches U0 only through training and honours resets and timeouts.

DUT (unmodified): luna.gateware.usb.usb3.link.ltssm.LTSSMController(ss_clock_frequency=f, loosen_requirements=...)
with f scaled so that the 2 / 12 / 360 ms timeouts are a few cycles.

The monitor looks only at the controller's ports.  Ghost flags record which training steps the *environment* has
offered while the controller asked for them (rx detection requested & partner detected, polling LFPS being sent &
LFPS/TS1 seen, TS1 being sent & TS1/TS2 seen, TS2 being sent & TS2 seen & own burst complete, idle handshake
requested & complete); run-length counters measure how long each output signature (= substate) is held.
"""
from fractions import Fraction as F
from math import ceil

from amaranth import *
from ..harness import Harness
from ..engine import Query

# FINDINGS
#  fixed  /repo 5a01b7d "fix: a warm reset always takes the LTSSM to Rx.Detect.Reset"
#         handle_warm_resets() was the first statement of every state, so any later transition of the same cycle
#         (burst complete, TS detected, link recovery trigger, idle handshake complete, timeout) overrode it, and
#         Rx.Detect.Active / Rx.Detect.Quiet / Polling.LFPS ignored resets altogether; in_usb_reset is a one-cycle strobe
#         (lfps_reset_detected), so a coinciding warm reset was lost and link_ready could rise one cycle after a reset.
#         Caught directly by `reset_removes_and_blocks_ready`; as consequences also by all `ready_needs_*`,
#         `timeout_ts2_substates_12ms` and `scrambling_in_u0` (the ghost forgets training at a reset, the DUT did not).
#  noted  (not asserted) in Polling.Idle / Recovery.Idle / Hot Reset.Exit a timeout in the same cycle as the completed idle
#         handshake wins although entering_u0 is pulsed; `ready_announced_by_entering_u0` only checks the other direction.

PROP = "C41"
ENCODED = [
    "luna/gateware/usb/usb3/link/ltssm.py: LTSSMController.elaborate (FSM transitions, transition_on_timeout, "
    "handle_warm_resets and its priority against other transitions, tasks_on_entry, scrambling control)",
]
ASSUMPTIONS = [
    "every detector / PHY / handshake input is free every cycle: in_usb_reset, phy_ready, link_partner_detected, "
    "no_link_partner_detected, lfps_polling_detected, lfps_cycles_sent[16], ts1/inverted_ts1/ts2_detected, hot_reset_requested, "
    "loopback_requested, no_scrambling_requested, ts_burst_complete, idle_handshake_complete, trigger_link_recovery",
    "disable_scrambling (our own request) is a symbolic constant per run",
    "in_usb_reset is the reset input for both warm and power-on reset (the link layer drives it with "
    "lfps_reset_detected | ~vbus_present); the port power_on_reset is not read by the controller at all",
    "LUNA_COMPLIANCE is not set (Compliance falls back to Rx.Detect.Reset)",
    "substates are identified by their output signature: TS1 sent = Polling.Active/Recovery.Active; TS2 sent before the "
    "own burst completes with TS2 seen = *.Configuration / Hot Reset.Active; idle handshake requested = Polling.Idle / "
    "Recovery.Idle / Hot Reset.Exit; electrical idle without detection/LFPS and with terminations = Rx.Detect.Quiet / "
    "SS.Inactive.Quiet; polling LFPS sent = Polling.LFPS",
    "a state with timeout T cycles may be occupied for T+1 cycles (counter compared after the increment)",
]
BOUNDS = "BMC from reset, all inputs free.  quick: 1 kHz (12 ms = 12, 2 ms = 2 cycles), loosened, K=21.  thorough: 1 kHz K=30; " \
         "500 Hz (6 / 1 cycles) K=34; 1 kHz with loosen_requirements=False K=26; 100 Hz (2 / 1 / 36 cycles, reaches the 360 ms " \
         "Polling.LFPS timeout) K=50 with the training inputs quiet"
OUTSIDE = "the synthetic *.Configuration.Exit states and Loopback / SS.Disabled have no timeout (nothing to check); the " \
          "360 ms timeout is only reached in a restricted layer; histories longer than K; the production frequency"


class LtssmHarness(Harness):
    domains = ("ss",)

    def __init__(self, freq, loosen=True):
        super().__init__()
        from luna.gateware.usb.usb3.link.ltssm import LTSSMController
        self.dut = d = LTSSMController(ss_clock_frequency=float(freq), loosen_requirements=loosen)
        self.loosen = loosen
        self.T12 = ceil(F(12, 1000) * freq)
        self.T2 = ceil(F(2, 1000) * freq)
        self.T360 = ceil(F(360, 1000) * freq)
        self.restrictions.append(f"ss_clock_frequency={freq} Hz: 12 ms = {self.T12}, 2 ms = {self.T2}, 360 ms = {self.T360} cycles; "
                                 f"loosen_requirements={loosen}")
        for n in ("in_usb_reset", "trigger_link_recovery", "phy_ready", "link_partner_detected", "no_link_partner_detected",
                  "lfps_polling_detected", "lfps_cycles_sent", "ts1_detected", "inverted_ts1_detected", "ts2_detected",
                  "hot_reset_requested", "loopback_requested", "no_scrambling_requested", "ts_burst_complete",
                  "idle_handshake_complete"):
            self.inp(n, signal=getattr(d, n))
        self.inp("disable_scrambling", signal=d.disable_scrambling, const=True)
        V, C = self.viol, self.cover
        self.v_partner = V("ready_needs_partner_detected")
        self.v_lfps = V("ready_needs_polling_lfps")
        self.v_ts1 = V("ready_needs_ts1_exchange")
        self.v_ts2 = V("ready_needs_ts2_exchange_since_entry")
        self.v_idle = V("ready_needs_idle_handshake_since_entry")
        self.v_entering = V("ready_announced_by_entering_u0")
        self.v_reset = V("reset_removes_and_blocks_ready")
        self.v_t_ts1 = V("timeout_ts1_substates_12ms")
        self.v_t_ts2 = V("timeout_ts2_substates_12ms")
        self.v_t_idle = V("timeout_idle_substates_2ms")
        self.v_t_quiet = V("timeout_quiet_substates_12ms")
        self.v_t_lfps = V("timeout_polling_lfps_360ms")
        self.v_scr = V("scrambling_in_u0")
        self.v_eidle = V("no_electrical_idle_in_u0")
        self.c_ready = C("link_ready")
        self.c_recovered = C("link_ready_after_recovery")
        self.c_hot = C("link_ready_after_hot_reset")
        self.c_reset_in_u0 = C("reset_while_ready")
        self.c_t_ts1 = C("ts1_substate_times_out")
        self.c_t_ts2 = C("ts2_substate_times_out")
        self.c_t_idle = C("idle_substate_times_out")
        self.c_t_quiet = C("quiet_substate_times_out")
        self.c_t_lfps = C("polling_lfps_times_out")
        self.c_noscr_partner = C("ready_unscrambled_by_partner")
        self.c_noscr_own = C("ready_unscrambled_by_us")
        self.c_scr = C("ready_scrambled")
        for n in ("link_ready", "entering_u0", "enable_scrambling", "tx_electrical_idle", "send_ts1_burst", "send_ts2_burst",
                  "perform_idle_handshake", "send_lfps_polling", "perform_rx_detection"):
            self.obs(n, getattr(d, n))

    def elaborate(self, platform):
        m = Module()
        m.submodules.dut = d = self.dut
        rst = d.in_usb_reset
        ready = d.link_ready

        def prev(sig, name):
            p = Signal(name=f"g_prev_{name}")
            m.d.ss += p.eq(sig)
            return p

        ts1_prev = prev(d.send_ts1_burst, "ts1")
        hot_prev = prev(d.request_hot_reset, "hot")
        rst_prev = prev(rst, "rst")
        ready_prev = prev(ready, "ready")
        enter_prev = prev(d.entering_u0, "entering")
        entry = Signal(name="g_entry")      # first cycle of Polling.Active / Recovery.Active / Hot Reset.Active
        m.d.comb += entry.eq((d.send_ts1_burst & ~ts1_prev) | (d.request_hot_reset & ~hot_prev))

        # ---- training steps offered by the environment while requested (all cleared by a reset)
        def sticky(name, set_cond, clear_cond):
            """returns (register, value-including-this-cycle)"""
            r = Signal(name=f"g_{name}")
            now = Signal(name=f"g_{name}_now")
            m.d.comb += now.eq((r & ~clear_cond) | set_cond)
            m.d.ss += r.eq(now & ~rst)
            return r, now

        g_partner, partner_now = sticky("partner", d.perform_rx_detection & d.link_partner_detected, Const(0))
        lfps_evt = d.lfps_polling_detected | (d.ts1_detected if self.loosen else Const(0))
        g_lfps, lfps_now = sticky("lfps", d.send_lfps_polling & lfps_evt & partner_now, Const(0))
        ts_evt = d.ts1_detected | d.ts2_detected | d.inverted_ts1_detected
        g_ts1, ts1_now = sticky("ts1", d.send_ts1_burst & ts_evt & lfps_now, Const(0))
        # since the last entry to polling / recovery / hot reset
        g_ts2seen, ts2seen_now = sticky("ts2seen", d.ts2_detected, entry)
        g_ts2done, ts2done_now = sticky("ts2done", d.send_ts2_burst & d.ts_burst_complete & ts2seen_now, entry)
        g_idle, idle_now = sticky("idle", d.perform_idle_handshake & d.idle_handshake_complete & ts2done_now, entry)
        # the partner's no-scrambling request is remembered for the whole training attempt (a hot reset does not forget it)
        g_noscr, noscr_now = sticky("partner_noscr", d.no_scrambling_requested, d.send_ts1_burst & ~ts1_prev)
        g_recovery = Signal(name="g_recovery")
        g_hot = Signal(name="g_hot")
        with m.If(rst):
            m.d.ss += [g_recovery.eq(0), g_hot.eq(0)]
        with m.Else():
            with m.If(ready_prev & ~ready):
                m.d.ss += g_recovery.eq(1)
            with m.If(d.request_hot_reset):
                m.d.ss += g_hot.eq(1)

        # ---- run lengths of the output signatures
        def run(name, cond, limit):
            w = len(Const(limit + 2))
            c = Signal(w, name=f"g_run_{name}")     # consecutive previous cycles with the signature
            with m.If(~cond):
                m.d.ss += c.eq(0)
            with m.Elif(c != limit + 2):
                m.d.ss += c.eq(c + 1)
            return c

        T12, T2, T360 = self.T12, self.T2, self.T360
        in_ts1 = d.send_ts1_burst
        # TS2 substates with a timeout: until the own burst completes with the partner's TS2 already seen
        ts2_exit = Signal(name="g_ts2_exit")        # the controller may have moved on to *.Configuration.Exit
        with m.If(~d.send_ts2_burst):
            m.d.ss += ts2_exit.eq(0)
        with m.Elif(d.ts_burst_complete & ts2seen_now):
            m.d.ss += ts2_exit.eq(1)
        in_ts2 = d.send_ts2_burst & ~ts2_exit
        in_idle = d.perform_idle_handshake
        in_quiet = d.tx_electrical_idle & ~d.perform_rx_detection & ~d.send_lfps_polling & d.engage_terminations
        in_lfps = d.send_lfps_polling
        r_ts1, r_ts2, r_idle = run("ts1", in_ts1, T12 + 1), run("ts2", in_ts2, T12 + 1), run("idle", in_idle, T2 + 1)
        r_quiet, r_lfps = run("quiet", in_quiet, T12 + 1), run("lfps", in_lfps, T360 + 1)

        scr_expected = ~(d.disable_scrambling | g_noscr)
        m.d.comb += [
            self.v_partner.eq(ready & ~g_partner),
            self.v_lfps.eq(ready & ~g_lfps),
            self.v_ts1.eq(ready & ~g_ts1),
            self.v_ts2.eq(ready & ~g_ts2done),
            self.v_idle.eq(ready & ~g_idle),
            self.v_entering.eq(ready & ~ready_prev & ~enter_prev),
            self.v_reset.eq(rst_prev & ready),
            self.v_t_ts1.eq(in_ts1 & (r_ts1 > T12)),
            self.v_t_ts2.eq(in_ts2 & (r_ts2 > T12)),
            self.v_t_idle.eq(in_idle & (r_idle > T2)),
            self.v_t_quiet.eq(in_quiet & (r_quiet > T12)),
            self.v_t_lfps.eq(in_lfps & (r_lfps > T360)),
            self.v_scr.eq(ready & (d.enable_scrambling != scr_expected)),
            self.v_eidle.eq(ready & d.tx_electrical_idle),
            self.c_ready.eq(ready),
            self.c_recovered.eq(ready & g_recovery & ~g_hot),
            self.c_hot.eq(ready & g_hot),
            self.c_reset_in_u0.eq(ready & rst),
            self.c_t_ts1.eq(~in_ts1 & (r_ts1 == T12 + 1)),
            self.c_t_ts2.eq(~in_ts2 & ~ts2_exit & (r_ts2 == T12 + 1)),
            self.c_t_idle.eq(~in_idle & (r_idle == T2 + 1) & ~ready),
            self.c_t_quiet.eq(~in_quiet & (r_quiet == T12 + 1)),
            self.c_t_lfps.eq(~in_lfps & (r_lfps == T360 + 1)),
            self.c_noscr_partner.eq(ready & ~d.enable_scrambling & g_noscr & ~d.disable_scrambling),
            self.c_noscr_own.eq(ready & ~d.enable_scrambling & d.disable_scrambling),
            self.c_scr.eq(ready & d.enable_scrambling),
        ]
        return m

    def stimulus(self, rng, t, consts):
        p = lambda x: int(rng.random() < x)
        d = dict(in_usb_reset=p(0.01), trigger_link_recovery=p(0.03), phy_ready=p(0.9), link_partner_detected=p(0.5),
                 no_link_partner_detected=p(0.1), lfps_polling_detected=p(0.4), lfps_cycles_sent=rng.choice([0, 13, 16, 20, 40]),
                 ts1_detected=p(0.3), inverted_ts1_detected=p(0.05), ts2_detected=p(0.4), hot_reset_requested=p(0.03),
                 loopback_requested=p(0.01), no_scrambling_requested=p(0.05), ts_burst_complete=p(0.5),
                 idle_handshake_complete=p(0.4))
        d.update(consts)
        return d


GROUPS = {
    "training": ["ready_needs_partner_detected", "ready_needs_polling_lfps", "ready_needs_ts1_exchange",
                 "ready_needs_ts2_exchange_since_entry", "ready_needs_idle_handshake_since_entry",
                 "ready_announced_by_entering_u0"],
    "reset_timeouts": ["reset_removes_and_blocks_ready", "timeout_ts1_substates_12ms", "timeout_ts2_substates_12ms",
                       "timeout_idle_substates_2ms", "timeout_quiet_substates_12ms", "timeout_polling_lfps_360ms"],
    "u0_outputs": ["scrambling_in_u0", "no_electrical_idle_in_u0"],
}
COVERS = ["link_ready", "link_ready_after_recovery", "link_ready_after_hot_reset", "reset_while_ready",
          "ts1_substate_times_out", "ts2_substate_times_out", "idle_substate_times_out", "quiet_substate_times_out",
          "ready_unscrambled_by_partner", "ready_unscrambled_by_us", "ready_scrambled"]


def queries(tier):
    """One process per assertion *family* (split=False): the unrolling of the LTSSM dominates, so it is shared."""
    deep = tier == "thorough"
    qs = []
    # (tag, frequency, loosen_requirements, K)
    cfgs = [("1k", 1000, True, 21)] if not deep else \
           [("1k", 1000, True, 30), ("500", 500, True, 34), ("1k_strict", 1000, False, 26)]
    for tag, f, loosen, K in cfgs:
        fac = (lambda f=f, loosen=loosen: LtssmHarness(f, loosen))
        desc = f"LTSSM at {f} Hz, loosen_requirements={loosen}: every input free every cycle"
        for g, names in GROUPS.items():
            qs.append(Query(f"bmc_{tag}_{g}", fac, K, timeout=900, asserts=names, covers=[], split=False, desc=desc))
        covers = COVERS if tag != "1k_strict" else ["link_ready", "reset_while_ready", "ready_scrambled"]
        qs.append(Query(f"cover_{tag}", fac, K if tag != "1k_strict" else 20, timeout=900, asserts=[], covers=covers,
                        split=False, desc=desc + " (reachability twins)"))
        qs.append(Query(f"cosim_{tag}", fac, 0, kind="cosim", cosim_cycles=400 if not deep else 3000))
    if deep:
        # 360 ms timeout of Polling.LFPS: 36 cycles at 100 Hz; the partner stays silent (restricted layer)
        fac = lambda: LtssmHarness(100, True)
        quiet = {n: 0 for n in ("ts1_detected", "inverted_ts1_detected", "ts2_detected", "hot_reset_requested",
                                "loopback_requested", "no_scrambling_requested", "trigger_link_recovery")}
        qs.append(Query("bmc_100_lfps", fac, 50, timeout=900, layer=quiet, split=False,
                        asserts=["timeout_polling_lfps_360ms", "timeout_quiet_substates_12ms", "reset_removes_and_blocks_ready",
                                 "ready_needs_polling_lfps"],
                        covers=["polling_lfps_times_out", "quiet_substate_times_out"],
                        desc="layer: no training sets / requests from the partner; LTSSM at 100 Hz reaches the 360 ms (36 "
                             "cycle) Polling.LFPS timeout; reset, PHY, rx detection and LFPS inputs free"))
        qs.append(Query("cosim_100", fac, 0, kind="cosim", cosim_cycles=3000))
    return qs
