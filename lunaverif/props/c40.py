"""C40 -- each received data packet is reported good or bad exactly once.

DUT: luna.gateware.usb.usb3.link.data.DataPacketReceiver (real class).
Environment: lib/ss_link.SSScriptedSource -- a SuperSpeed link partner sending header packets, each optionally
followed by a data packet payload: framing positions (payload length, positions of invalid cycles) are concrete per
query, everything else is symbolic (header words, payload bytes, CRC32 corruption mask, header CRC masks in the
bad-header framings, junk shown in invalid cycles, free traffic after the packets).  Concrete framing is what makes
the CRC terms of environment and DUT coincide (a free-gap environment produced an intractable CRC32 miter).
Oracle (from the statement, not from the DUT): a *data packet received* is a header packet of type DATA whose
CRC16 and CRC5 are valid, followed by DPPSTART.  T = the cycle in which the word carrying the last CRC32 byte is
valid on the sink.  Exactly one of packet_good/packet_bad must strobe, exactly once, in [T, T+1]; never anywhere
else; good iff the CRC32 is uncorrupted; the payload stream carries exactly data_length bytes, word by word equal
to what was sent (tracked word).
"""
from amaranth import *
from ..harness import Harness
from ..engine import Query
from ..lib import ss_link

PROP = "C40"
ENCODED = ["luna/gateware/usb/usb3/link/data.py: DataPacketReceiver.elaborate (header parse, RECEIVE_PAYLOAD, CHECK_CRC32)"]
ASSUMPTIONS = [
    "partner stream is well framed: HPSTART, 3 data words, DW3, [DPPSTART, data_length payload bytes, CRC32 directly "
    "after the last byte, END END END EPF directly after the CRC, IDL fill]; no K symbols inside header/payload",
    "CRC fields = value computed by the repo's own CRC step functions (shared definition, C30) XOR a free mask",
    "invalid (valid=0) cycles with free junk data at scripted positions (thorough: every position); traffic after the "
    "packets is free except that it contains no HPSTART",
    "data_length <= 1024 (spec maximum; the DUT's counter is sized for it)",
    "a 'data packet received' is a DATA-type header with valid CRC16/CRC5 followed by DPPSTART; for a header with "
    "a corrupted CRC the statement's 'good iff' is checked (never good, no payload output) but no 'bad' is demanded, "
    "because the receiver cannot know the packet is a data packet",
    "verdict window: the cycle the last CRC32 byte arrives, or the cycle after it (allows a registered report)",
]
BOUNDS = "BMC from reset, one query per scripted framing (K = script length + 3, 14..30): quick 9 framings (lengths 0,1,2,3,4,5; gap before CRC / in header / in payload / before DPPSTART; second packet; bad header; non-data header; header without payload directly before a data packet); thorough: header-only packets (valid, two in a row, corrupted) directly before a data packet, every length 0..9 x one invalid cycle at every position, gaps everywhere, three packets back to back"
OUTSIDE = "ill-framed payloads (K symbols inside the payload, missing END framing, DPPABORT/EDB endings); payloads " \
          "longer than the depth allows (~ (K-8)*4 bytes); a header packet cut short by the next HPSTART"


# FINDINGS (DataPacketReceiver, luna/gateware/usb/usb3/link/data.py; 1-3 in CHECK_CRC32, fixed in /repo by 4c60ef1
# and 34d2b38)
#  1. `m.next = "WAIT_FOR_HPSTART"` was indented under `m.Else()`: after a *good* verdict the FSM stayed in
#     CHECK_CRC32, compared the following word(s) again and reported packet_bad one cycle later (packet_good forever
#     for a zero-length payload).  Seen as verdict_time / verdict_once in every framing.
#  2. CHECK_CRC32 did not look at sink.valid: with an invalid cycle between the last payload word and the CRC word
#     (e.g. after SKP removal) the verdict was computed from junk, one cycle early (verdict_time / verdict_value,
#     framings *_gap_before_crc).
#  3. data_length = 0: no Switch case matched previous_valid == 0, data_to_check was 0 == CRC32 register's reset
#     output, so a zero-length payload with a corrupted CRC32 was reported good (verdict_value, cover bad_crc32
#     vacuous in framing zlp).
#  4. (CHECK_HEADER; open, findings/C40_hpstart_after_header.patch)  CHECK_HEADER looks at the word that follows DW3
#     only for DPPSTART and then returns to WAIT_FOR_HPSTART, which starts looking one word later.  A header packet
#     that passes the type test and is not followed by a payload (a deferred data packet header: the hub forwards the
#     header and drops the payload) can be followed directly by the next header packet; its HPSTART is the word
#     CHECK_HEADER passes over, so a complete, valid data packet behind it gets no verdict and no payload output
#     (verdict_missing / length, covers good / bad_crc32 vacuous in framings hp_only_then_*).  Same word is lost
#     when the header-only packet fails its CRC16/CRC5 (framing hdrbad_hp_only_then_len4).
#  Not a finding (reading kept): for a header with corrupted CRC16/CRC5 nothing is reported; the check demands only
#  "never good, no payload output".
#  Code reading only, outside the bounds: a K symbol in the *last* payload word strobes packet_bad and still enters
#  CHECK_CRC32 (the later m.next wins), giving a second verdict.


def popcount4(v):
    return v[0] + v[1] + v[2] + v[3]


class DataRxHarness(Harness):
    domains = ("ss",)

    def __init__(self, packets):
        super().__init__()
        from luna.gateware.usb.usb3.link.data import DataPacketReceiver
        self.dut = DataPacketReceiver()
        self.packets = packets
        self.src = ss_link.SSScriptedSource(self, packets, prefix="p_")
        self.K = len(self.src.script) + 3
        self.kw = self.inp("kw", 2, const=True)          # tracked payload word index
        names = ["verdict_time", "verdict_once", "verdict_missing", "verdict_value", "length", "stray_output",
                 "payload_word"]
        self.v = {n: self.viol(n) for n in names}
        cnames = ["good", "bad_crc32", "hdr_bad", "not_data", "tracked_word", "second_verdict", "partial_word_out"]
        self.c = {n: self.cover(n) for n in cnames}
        self.restrictions.append("DUT sink.first/last/ready and source.ready tied 0 (not read by the DUT)")

    def elaborate(self, platform):
        m = Module()
        m.submodules.dut = dut = self.dut
        m.submodules.src = src = self.src
        m.d.comb += [dut.sink.valid.eq(src.valid), dut.sink.data.eq(src.data), dut.sink.ctrl.eq(src.ctrl)]
        good, bad = dut.packet_good, dut.packet_bad
        verdict = Signal(name="verdict")
        m.d.comb += verdict.eq(good | bad)
        self.obs("good", good)
        self.obs("bad", bad)
        self.obs("src_t", src.t)
        self.obs("sink_valid", src.valid)
        self.obs("sink_data", src.data)
        self.obs("sink_ctrl", src.ctrl)
        self.obs("out_valid", dut.source.valid)

        # ---- which packets are "received data packets"
        recognised = Signal(name="recognised")   # comb, meaningful at ev_dppstart
        m.d.comb += recognised.eq(src.hdr_ok & (src.dw[0][0:5] == ss_link.HP_TYPE_DATA))
        pend = Signal(name="pend")               # a received data packet is in flight (DPPSTART seen, no verdict window passed)
        win_next = Signal(name="win_next")       # this is cycle T+1
        reported = Signal(name="reported")       # a verdict was given in cycle T
        gap_seen = Signal(name="gap_seen")
        npk = Signal(2, name="npk")
        last_good = Signal(name="last_good")
        in_win = Signal(name="in_win")
        t_now = Signal(name="t_now")
        m.d.comb += [t_now.eq(pend & src.ev_crc_last), in_win.eq(t_now | win_next)]

        with m.If(src.ev_dppstart):
            m.d.ss += [pend.eq(recognised), gap_seen.eq(0)]
        with m.If(pend & src.gap):
            m.d.ss += gap_seen.eq(1)
        m.d.ss += win_next.eq(t_now)
        with m.If(t_now):
            m.d.ss += reported.eq(verdict)
        with m.If(win_next):
            m.d.ss += [pend.eq(0), reported.eq(0)]
            with m.If(npk != 3):
                m.d.ss += npk.eq(npk + 1)

        # ---- verdict assertions
        m.d.comb += [
            self.v["verdict_time"].eq(verdict & ~in_win),
            self.v["verdict_once"].eq(in_win & ((good & bad) | (win_next & reported & verdict))),
            self.v["verdict_missing"].eq(win_next & ~reported & ~verdict),
            self.v["verdict_value"].eq(in_win & ((good & ~src.crc32_ok) | (bad & src.crc32_ok))),
        ]

        # ---- payload stream: byte count and tracked word
        out_ev = Signal(name="out_ev")
        m.d.comb += out_ev.eq(dut.source.valid != 0)
        nbytes = Signal(12, name="nbytes")
        nbytes_now = Signal(12, name="nbytes_now")
        m.d.comb += nbytes_now.eq(nbytes + popcount4(dut.source.valid))
        sent_idx = Signal(9, name="sent_idx")
        out_idx = Signal(9, name="out_idx")
        trk_data = Signal(32, name="trk_data")
        trk_n = Signal(3, name="trk_n")
        trk_have = Signal(name="trk_have")
        with m.If(src.ev_dppstart):
            m.d.ss += [nbytes.eq(0), sent_idx.eq(0), out_idx.eq(0), trk_have.eq(0)]
        with m.Else():
            m.d.ss += nbytes.eq(nbytes_now)
            with m.If(src.ev_pay):
                m.d.ss += sent_idx.eq(sent_idx + 1)
            with m.If(out_ev):
                m.d.ss += out_idx.eq(out_idx + 1)
        cap_now = Signal(name="cap_now")
        m.d.comb += cap_now.eq(src.ev_pay & (sent_idx == self.kw))
        with m.If(cap_now):
            m.d.ss += [trk_data.eq(src.data), trk_n.eq(src.pay_n), trk_have.eq(1)]
        exp_data = Signal(32, name="exp_data")
        exp_n = Signal(3, name="exp_n")
        m.d.comb += [exp_data.eq(Mux(cap_now, src.data, trk_data)), exp_n.eq(Mux(cap_now, src.pay_n, trk_n))]
        exp_mask = Signal(4, name="exp_mask")
        m.d.comb += exp_mask.eq(Cat(exp_n >= 1, exp_n >= 2, exp_n >= 3, exp_n >= 4))
        mism = Signal(name="trk_mismatch")
        m.d.comb += mism.eq((dut.source.valid != exp_mask) |
                            Cat(*[exp_mask[i] & (dut.source.data[8 * i:8 * i + 8] != exp_data[8 * i:8 * i + 8])
                                  for i in range(4)]).any())
        sent_total = Signal(10, name="sent_total")
        m.d.comb += sent_total.eq(sent_idx + src.ev_pay)
        m.d.comb += [
            # total bytes delivered for the packet == data_length, judged when the verdict window closes
            self.v["length"].eq(win_next & (nbytes_now != src.length)),
            # no payload output outside a received data packet
            self.v["stray_output"].eq(out_ev & ~pend),
            # k-th delivered word == k-th sent word (valid mask and every valid byte); never more delivered than sent
            self.v["payload_word"].eq(pend & out_ev & ((out_idx >= sent_total) |
                                                      ((out_idx == self.kw) & (~(trk_have | cap_now) | mism)))),
        ]

        # ---- covers
        gw = Signal(name="good_in_win")
        m.d.comb += gw.eq(in_win & good & ~bad & src.crc32_ok)
        m.d.comb += [
            self.c["good"].eq(gw),
            self.c["bad_crc32"].eq(in_win & bad & ~good & ~src.crc32_ok),
            self.c["hdr_bad"].eq(src.ev_crc_last & ~pend & ~src.hdr_ok),
            self.c["not_data"].eq(src.ev_crc_last & ~pend & src.hdr_ok),
            self.c["tracked_word"].eq(pend & out_ev & (out_idx == self.kw) & ~mism),
            self.c["second_verdict"].eq(in_win & verdict & (npk == 1) & last_good & bad),
            self.c["partial_word_out"].eq(pend & out_ev & (dut.source.valid != 0xF) & (out_idx == self.kw) & ~mism),
        ]
        with m.If(in_win & verdict):
            m.d.ss += last_good.eq(good)
        return m

    def const_stimulus(self, rng):
        c = super().const_stimulus(rng)
        for k in c:
            if k.endswith(("_m16", "_m5", "_m32")) and rng.random() < 0.8:
                c[k] = 0
            if k.endswith("_dw0") and rng.random() < 0.8:
                c[k] = (c[k] & ~0x1F) | 8
        return c


def _cfgs(tier):
    """(name, packets, covers).  hdr: "ok" = valid header CRCs and type DATA (concrete, so that the DUT's framing
    decisions are concrete and the CRC terms of both sides coincide), "bad" = CRC16/CRC5 masks symbolic, not both
    zero, "notdata" = type field symbolic, not DATA."""
    def P(L, gaps=(), idle=0, hdr="ok"):
        d = dict(length=L, gaps=tuple(gaps), idle_after=idle)
        d.update({"ok": dict(hdr_masks="zero", type=8), "bad": dict(hdr_masks="nonzero", type=8),
                  "notdata": dict(hdr_masks="zero", type="notdata")}[hdr])
        return d
    ok = ["good", "bad_crc32"]
    cf = [
        ("zlp", [P(0, idle=3)], ok),
        ("len1_gap_before_crc", [P(1, gaps=[7], idle=2)], ok + ["tracked_word", "partial_word_out"]),
        ("len2", [P(2, idle=2)], ok + ["partial_word_out"]),
        ("len3_gap_in_header", [P(3, gaps=[3], idle=2)], ok + ["partial_word_out"]),
        ("len4_then_zlp", [P(4), P(0, idle=2)], ok + ["tracked_word", "second_verdict"]),
        ("len5_gap_in_payload", [P(5, gaps=[7], idle=2)], ok + ["tracked_word", "partial_word_out"]),
        # packets whose header the DUT must reject come last: their symbolic reject decision must not sit between
        # two CRC computations (see module docstring)
        ("len1_then_hdrbad_len4", [P(1, gaps=[6]), P(4, hdr="bad", idle=2)], ok + ["hdr_bad"]),
        ("zlp_then_notdata_len2", [P(0, gaps=[6]), P(2, hdr="notdata", idle=2)], ok + ["not_data"]),
        # a valid DATA header without a payload (deferred data packet header), the next packet directly behind it
        ("hp_only_then_len2", [P(None), P(2, idle=2)], ok),
    ]
    if tier == "thorough":
        cf += [("len8_gap_before_dpp", [P(8, gaps=[5, 8], idle=2)], ok + ["tracked_word"]),
               ("hdrbad_len4_then_len1", [P(4, hdr="bad"), P(1, gaps=[6], idle=2)], ok + ["hdr_bad"]),
               ("len7_gap_before_crc", [P(7, gaps=[8], idle=2)], ok + ["partial_word_out"]),
               ("hp_only_then_len4", [P(None), P(4, gaps=[6, 7], idle=2)], ok),
               ("hp_only_x2_then_zlp", [P(None), P(None), P(0, idle=2)], ok),
               ("hdrbad_hp_only_then_len4", [P(None, hdr="bad"), P(4, gaps=[6], idle=2)], ok)]
    if tier == "thorough":
        # every length 0..9 x one invalid cycle at every position of the packet (incl. none)
        for L in range(10):
            nwords = 6 + (L + 3) // 4 + 2
            for g in [None] + list(range(1, nwords)):
                cf.append((f"len{L}_gap{g}", [P(L, gaps=[] if g is None else [g], idle=2)], ok))
        for L in (1, 4, 6):
            cf.append((f"len{L}_gaps_everywhere", [P(L, gaps=list(range(1, 6 + (L + 3) // 4 + 2)), idle=2)], ["good"]))
            cf.append((f"len{L}_x3", [P(L), P(L, gaps=[0]), P(L, idle=2)], ["good", "second_verdict"]))
    return cf


# framing in which a header the DUT must reject precedes a checked packet (the DUT's state after the symbolic reject
# decision is not a constant, so the second header's CRC16 terms no longer coincide): the default pipeline decides
# neither verdict_missing nor length in 300 s; with the engine's "portfolio" the contextual simplifier decides
# verdict_missing in ~25 s.  length stays undecided (320 s; a case split CRC16-mask / CRC5-mask did not help either).
TACTIC = {"hdrbad_len4_then_len1": "portfolio"}


def queries(tier):
    qs = []
    for name, packets, covers in _cfgs(tier):
        f = (lambda packets=packets: DataRxHarness(packets))
        K = f().K
        qs.append(Query(f"bmc_{name}", f, K, covers=covers, split=False, timeout=300, tactic=TACTIC.get(name),
                        desc=f"scripted framing {name}: lengths/gap positions concrete, all data, CRC masks, junk and "
                             "following traffic symbolic"))
    # the maximum data length (1024 bytes): only the head of the packet fits a short bound, which is enough to see that the
    # length field is taken at full width -- no verdict, no end of payload within the first words
    fmax = lambda: DataRxHarness([dict(length=1024, idle_after=2)])
    qs.append(Query("bmc_len1024_head", fmax, 14, asserts=["verdict_time", "verdict_value", "verdict_once", "length"],
                    covers=[], split=False, timeout=300,
                    desc="header + first payload words of a 1024-byte packet (K=14 of its 265 words): nothing is reported early"))
    f2 = lambda: DataRxHarness([dict(length=5, gaps=(7,), hdr_masks="zero", type=8), dict(length=0, idle_after=1),
                                dict(length=8, gaps=(2,), idle_after=2, hdr_masks="zero", type=8)])
    qs.append(Query("cosim", f2, 0, kind="cosim", cosim_cycles=60 if tier == "quick" else 200))
    return qs
