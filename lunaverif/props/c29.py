"""C29 -- multi-byte IN endpoints serialise words little-endian with correct framing.

DUT: luna.gateware.usb.usb2.endpoints.stream.USBMultibyteStreamInEndpoint (real class; the shift FSM is the subject).
The inner byte-wide USBStreamInEndpoint the class constructs in elaborate() is substituted (DESIGN 2.1, "environment
stubs by substitution") by a stub that only exposes its `stream` with a *free* `ready`, so that every byte-endpoint
ready pattern is explored (the real inner endpoint's `ready` is a function of its buffer state; the real inner
endpoint is the subject of C11).

Oracle (from the statement), tracked-element style with a symbolic constant word index k:
  * the bytes the byte endpoint accepts for word k are the k-th accepted word's bytes, least significant first;
  * byte `first` = word's first flag on byte 0 only, byte `last` = word's last flag on byte W-1 only;
  * every byte offered belongs to a word that was accepted before (delivered <= accepted, exactly once);
  * a word is accepted only when all bytes of the previous word have been taken (or its final byte is being taken in
    this very cycle): words are accepted only as fast as the byte endpoint takes them.
"""
from amaranth import *
from ..harness import Harness
from ..engine import Query

PROP = "C29"
# FINDINGS: none -- every clause holds on the original tree (mutation self-test: 4/4 mutants of the shift FSM caught).
ENCODED = ["luna/gateware/usb/usb2/endpoints/stream.py: USBMultibyteStreamInEndpoint.elaborate (IDLE/TRANSMIT shift FSM, "
           "data_shift, first/last latches, bytes_to_send, word ready)"]
ASSUMPTIONS = [
    "inner USBStreamInEndpoint replaced by a stub exposing `stream` (ready free every cycle) and `interface`; the stub "
    "has no logic (the real inner endpoint is checked by C11)",
    "word stream valid/payload/first/last free every cycle (payload need not be stable while not ready)",
]
BOUNDS = "BMC from reset K=3*W+6 (quick) / 5*W+8 (thorough), byte_width W in 2,3,4 (quick) / 1,2,3,4 (thorough); " \
         "tracked word index k symbolic (0..3)"
OUTSIDE = "the inner byte endpoint's own behaviour (C11); byte widths > 4; more words than the depth allows (about K/W)"

ASSERTS = ["byte_value", "first_flag", "last_flag", "accepted_before", "backpressure", "valid_has_word"]
COVERS = ["byte_value_last_pos", "first_flag", "last_flag", "back_to_back", "stalled_byte", "third_word", "idle_gap"]


class _StubByteEndpoint(Elaboratable):
    """stands in for USBStreamInEndpoint: same constructor signature and attributes, no behaviour"""
    instances = []

    def __init__(self, *, endpoint_number, max_packet_size):
        from luna.gateware.stream import StreamInterface
        from luna.gateware.usb.usb2.endpoint import EndpointInterface
        self.stream = StreamInterface()
        self.interface = EndpointInterface()
        self.flush = Signal()
        self.discard = Signal()
        _StubByteEndpoint.instances.append(self)

    def elaborate(self, platform):
        return Module()


class MultibyteHarness(Harness):
    def __init__(self, byte_width=2):
        super().__init__()
        from luna.gateware.usb.usb2.endpoints.stream import USBMultibyteStreamInEndpoint
        self.W = byte_width
        self.dut = USBMultibyteStreamInEndpoint(byte_width=byte_width, endpoint_number=3, max_packet_size=8)
        self.stubs.append("USBStreamInEndpoint (inner byte endpoint) -> stub with free stream.ready")
        w = self.dut.stream
        self.inp("w_valid", signal=w.valid)
        self.inp("w_payload", signal=w.payload)
        self.inp("w_first", signal=w.first)
        self.inp("w_last", signal=w.last)
        self.b_ready = self.inp("b_ready", 1)
        self.k = self.inp("k", 2, const=True)
        self.v = {n: self.viol(n) for n in ASSERTS}
        self.c = {n: self.cover(n) for n in COVERS}

    def stimulus(self, rng, t, consts):
        d = super().stimulus(rng, t, consts)
        d["w_valid"] = int(rng.random() < 0.7)
        d["b_ready"] = int(rng.random() < 0.7)
        return d

    def elaborate(self, platform):
        import luna.gateware.usb.usb2.endpoints.stream as smod
        m = Module()
        W, v, c = self.W, self.v, self.c
        # elaborate the real DUT with the inner endpoint's constructor name substituted
        orig = smod.USBStreamInEndpoint
        smod.USBStreamInEndpoint = _StubByteEndpoint
        try:
            _StubByteEndpoint.instances.clear()
            # the inner endpoint is constructed inside the DUT's elaborate(): run it while the name is substituted
            m.submodules.dut = self.dut.elaborate(platform)
            stub = _StubByteEndpoint.instances[-1]
        finally:
            smod.USBStreamInEndpoint = orig
        b, w = stub.stream, self.dut.stream
        m.d.comb += b.ready.eq(self.b_ready)

        w_acc = Signal(name="g_w_acc")
        b_acc = Signal(name="g_b_acc")
        m.d.comb += [w_acc.eq(w.valid & w.ready), b_acc.eq(b.valid & b.ready)]
        w_count = Signal(4, name="g_w_count")      # words accepted
        w_done = Signal(4, name="g_w_done")        # words whose bytes have all been taken
        b_pos = Signal(range(W + 1), name="g_b_pos")   # position of the next byte within its word
        trk = Signal(8 * W, name="g_trk")
        trk_first = Signal(name="g_trk_first")
        trk_last = Signal(name="g_trk_last")
        with m.If(w_acc):
            m.d.usb += w_count.eq(w_count + 1)
            with m.If(w_count == self.k):
                m.d.usb += [trk.eq(w.payload), trk_first.eq(w.first), trk_last.eq(w.last)]
        final_byte = b_acc & (b_pos == W - 1)
        with m.If(b_acc):
            with m.If(b_pos == W - 1):
                m.d.usb += [b_pos.eq(0), w_done.eq(w_done + 1)]
            with m.Else():
                m.d.usb += b_pos.eq(b_pos + 1)
        trk_seen = w_count > self.k
        exp_byte = Signal(8, name="g_exp_byte")
        with m.Switch(b_pos):
            for i in range(W):
                with m.Case(i):
                    m.d.comb += exp_byte.eq(trk[8 * i: 8 * i + 8])
        at_k = Signal(name="g_at_k")
        m.d.comb += at_k.eq(b_acc & (w_done == self.k))
        idle_seen = Signal(name="g_idle_seen")
        with m.If(~b.valid & (w_count != 0)):
            m.d.usb += idle_seen.eq(1)
        stalled = Signal(name="g_stalled")
        with m.If(b.valid & ~b.ready):
            m.d.usb += stalled.eq(1)
        m.d.comb += [
            v["byte_value"].eq(at_k & trk_seen & (b.payload != exp_byte)),
            c["byte_value_last_pos"].eq(at_k & trk_seen & (b_pos == W - 1) & (self.k == 1) & stalled),
            v["first_flag"].eq(at_k & trk_seen & (b.first != (trk_first & (b_pos == 0)))),
            c["first_flag"].eq(at_k & trk_seen & b.first & (self.k == 1)),
            v["last_flag"].eq(at_k & trk_seen & (b.last != (trk_last & (b_pos == W - 1)))),
            c["last_flag"].eq(at_k & trk_seen & b.last & (self.k == 1)),
            # a byte can only be taken from a word accepted earlier (strictly before this cycle)
            v["accepted_before"].eq(b_acc & (w_count <= w_done)),
            # bytes are only offered while a word is pending
            v["valid_has_word"].eq(b.valid & (w_count <= w_done)),
            # a word is accepted only when the previous one is completely taken (or completes right now)
            v["backpressure"].eq(w_acc & (w_count != w_done + final_byte)),
            c["back_to_back"].eq(w_acc & final_byte & (w_count >= 1)),
            c["stalled_byte"].eq(b.valid & ~b.ready & w.valid & (b_pos == W - 1)),
            c["third_word"].eq(w_acc & (w_count == 2)),
            c["idle_gap"].eq(w_acc & idle_seen & (w_count == 1)),
        ]
        return m


def queries(tier):
    qs = []
    quick = tier == "quick"
    for W in ([2, 3, 4] if quick else [1, 2, 3, 4]):
        f = (lambda W=W: MultibyteHarness(W))
        K = (3 * W + 6) if quick else (5 * W + 8)
        qs.append(Query(f"bmc_w{W}", f, K, timeout=600,
                        desc=f"byte_width={W}: word stream and byte-endpoint ready free every cycle, tracked word k symbolic"))
        qs.append(Query(f"cosim_w{W}", f, 0, kind="cosim", cosim_cycles=120 if quick else 1500))
    return qs
