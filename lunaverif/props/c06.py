"""C06 -- SETUP requests are decoded exactly and survive earlier corrupted packets.

DUT: the real USBControlEndpoint (with its USBSetupDecoder and USBDataPacketDeserializer) wired to the real
USBTokenDetector, USBDataPacketReceiver, USBDataPacketCRC and USBInterpacketTimer the way USBDevice.elaborate wires
them (shared CRC unit and timer; no endpoint multiplexer because there is a single endpoint).  A do-nothing spy
request handler exposes the decoded SetupPacket.

The monitor classifies every packet on the UTMI receive side from its bytes alone (PID check, CRC5, bit-serial CRC16)
and derives what must / may be reported:
  must:  a well-formed SETUP token for (address, endpoint 0) immediately followed by a CRC-valid DATAx packet with
         exactly 8 bytes  =>  `received` strobes once shortly after, with the 8 bytes as fields, and is ACKed once
         inside the response window -- whatever came before (corrupted, short, aborted or unrelated packets).
  may:   `received` only strobes for a CRC-valid 8-byte data packet that directly follows a SETUP token for us (the
         packet before it on the wire), like `must`; originally the monitor allowed any later data packet until the next
         token *for us* -- which is how the implementation behaved and how the defect repaired by the "setup decoder only
         takes the data packet that directly follows the SETUP token" commit stayed invisible to layers a/b.
"""
from amaranth import *
from ..harness import Harness
from ..engine import Query
from ..lib.usb2 import (PacketSpy, crc5_serial, crc16_serial_step, crc16_wire, utmi_rx_contract,
                        PID_SETUP, PID_IN, PID_OUT, PID_PING)
from .c05 import spec_cycles
from ..lib.host import SlottedHost, TxSpy, slot_cubes, KIND_NONE, KIND_SETUP, KIND_IN, KIND_OUT, KIND_SOF, KIND_PING
from ..lib.device import make_device, tie_device

PROP = "C06"
ENCODED = ["luna/gateware/usb/usb2/request.py: USBSetupDecoder", "luna/gateware/usb/usb2/packet.py: "
           "USBDataPacketDeserializer, USBTokenDetector, USBDataPacketReceiver, USBDataPacketCRC, USBInterpacketTimer",
           "luna/gateware/usb/usb2/control.py: USBControlEndpoint (setup path, handshake OR)",
           "wiring replicated from luna/gateware/usb/usb2/device.py:250-320"]
ASSUMPTIONS = [
    "UTMI receive contract: rx_valid only while rx_active and not in the first rx_active cycle",
    "speed constant HIGH or FULL at a 60 MHz UTMI clock; device address constant (symbolic)",
    "the host never sends a SETUP token to a non-control endpoint of the device",
    "after a valid SETUP transaction the host stays silent until the device's handshake or its response deadline",
    "consecutive packets are separated by the USB 2.0 7.1.18 minimum inter-packet delay: >= 4 idle cycles at high speed "
    "(32 bit times), >= 13 at full speed (2 bit times plus the byte spacing this cycle-dense harness does not model)",
    "the monitor's CRC5/CRC16 references are computed with the repo's own step functions (shared definition; C30 proves "
    "them equal to the USB standard, C01/C02 check the receive paths against independent bit-serial references)",
    "the spy request handler never claims the request (the stall-only fallback handler is active)",
    "`received` may follow the end of the data packet by 1..4 cycles (implementation latency is not part of the statement)",
]
BOUNDS = "Transaction layer (cubes): 2 (quick) / 3 (thorough) slotted transactions of pinned kind, all contents symbolic, " \
         "all five clauses.  BMC from reset: free-timing layer K=24/28 (any rx_active/rx_valid/rx_data history); gapless layer " \
         "(rx_valid follows rx_active without byte gaps) K=34/44 which fits an arbitrary prefix packet of up to ~12 bytes " \
         "(any PID, any CRC, aborted or not) followed by a complete SETUP transaction and its ACK at high speed"
OUTSIDE = "prefixes longer than the depth allows; low speed; SETUP tokens to non-control endpoints; full-speed ACK timing " \
          "beyond K (the timer itself is C05)"


class Spy(Elaboratable):
    """request handler that observes and never claims"""

    def __init__(self):
        from luna.gateware.usb.usb2.request import RequestHandlerInterface
        self.interface = RequestHandlerInterface()

    def elaborate(self, platform):
        return Module()


class SetupHarness(Harness):
    def __init__(self, gapless=False):
        super().__init__()
        from luna.gateware.interface.utmi import UTMIInterface
        from luna.gateware.usb.usb2.packet import (USBTokenDetector, USBDataPacketCRC, USBInterpacketTimer,
                                                   USBDataPacketReceiver)
        from luna.gateware.usb.usb2.control import USBControlEndpoint
        self.gapless = gapless
        self.utmi = u = UTMIInterface()
        self.tok = USBTokenDetector(utmi=u)
        self.rxr = USBDataPacketReceiver(utmi=u)
        self.crc = USBDataPacketCRC()
        self.timer = USBInterpacketTimer()
        self.ep = USBControlEndpoint(utmi=u)
        self.spy = Spy()
        self.ep.add_request_handler(self.spy)
        self.crc.add_interface(self.rxr.data_crc)
        self.crc.add_interface(self.ep.interface.data_crc)
        self.timer.add_interface(self.rxr.timer)
        self.timer.add_interface(self.ep.interface.timer)
        self.inp("rx_data", signal=u.rx_data)
        self.inp("rx_active", signal=u.rx_active)
        self.inp("rx_valid", signal=u.rx_valid)
        self.address = self.inp("address", 7, const=True)
        self.speed = self.inp("speed", 2, const=True)
        names = ["missed", "spurious", "fields", "ack_missing", "ack_spurious", "ack_early"]
        self.v = {n: self.viol(n) for n in names}
        self.c = {n: self.cover(n) for n in ["received", "ack", "ack_fs", "after_bad_crc", "after_short_data",
                                             "after_aborted_setup", "wrong_length", "setup_then_in"]}
        self.a = {n: self.assume(n) for n in ["utmi_rx", "speed", "no_setup_other_ep", "host_waits", "gapless",
                                              "min_packet_gap"]}

    def elaborate(self, platform):
        m = Module()
        u, ep, tok, rxr, crc, timer = self.utmi, self.ep, self.tok, self.rxr, self.crc, self.timer
        m.submodules.tok, m.submodules.rxr, m.submodules.crc, m.submodules.timer = tok, rxr, crc, timer
        m.submodules.ep = ep
        itf = ep.interface
        setup = self.spy.interface.setup
        m.d.comb += [
            tok.address.eq(self.address), tok.speed.eq(self.speed), timer.speed.eq(self.speed),
            itf.speed.eq(self.speed), itf.active_address.eq(self.address),
            crc.rx_data.eq(u.rx_data), crc.rx_valid.eq(u.rx_valid), crc.tx_valid.eq(0),
            tok.interface.connect(itf.tokenizer),
            rxr.stream.connect(itf.rx),
            itf.rx_complete.eq(rxr.packet_complete), itf.rx_invalid.eq(rxr.crc_mismatch),
            itf.rx_ready_for_response.eq(rxr.ready_for_response), itf.rx_pid_toggle.eq(rxr.active_pid[3]),
        ]
        # the endpoint's transmit stream is never accepted (nothing transmits in this harness)
        prev_active = Signal()
        m.d.usb += prev_active.eq(u.rx_active)
        m.d.comb += [
            self.a["utmi_rx"].eq(~u.rx_valid | (u.rx_active & prev_active)),
            self.a["speed"].eq(self.speed < 2),
            self.a["gapless"].eq((u.rx_valid == (u.rx_active & prev_active)) if self.gapless else 1),
        ]
        # USB 2.0 7.1.18: consecutive packets are at least 2 bit times apart (10 cycles of 60 MHz at full speed)
        idle = Signal(4)
        with m.If(u.rx_active):
            m.d.usb += idle.eq(0)
        with m.Elif(idle != 15):
            m.d.usb += idle.eq(idle + 1)
        seen_packet = Signal()
        with m.If(u.rx_active):
            m.d.usb += seen_packet.eq(1)
        # (full speed: 2 bit times = 10 cycles, plus margin for the 40-cycle byte spacing this harness does not model:
        # 13; high speed: 32 bit times = 4 cycles)
        m.d.comb += self.a["min_packet_gap"].eq(~(u.rx_active & ~prev_active & seen_packet &
                                                  (idle < Mux(self.speed == 1, 13, 4))))
        # ---- packet classifier
        spy = PacketSpy(m, "usb", u.rx_data, u.rx_active, u.rx_valid, 11)
        b = spy.bytes
        pid = b[0][0:4]
        nibble_ok = (b[0][0:4] == ~b[0][4:8])
        f11 = Signal(11)
        m.d.comb += f11.eq(Cat(b[1], b[2][0:3]))
        from luna.gateware.usb.usb2.packet import USBTokenDetector, USBDataPacketCRC
        c5 = Signal(5, name="ref_crc5")
        m.d.comb += c5.eq(USBTokenDetector._generate_crc_for_token(f11))
        crcgen = USBDataPacketCRC()

        def crc16_step(reg, byte, name):
            st = Signal(16, name=name)
            m.d.comb += st.eq(crcgen._generate_next_crc(reg, byte))
            return st

        def crc16_out(reg, name):
            o = Signal(16, name=name)
            m.d.comb += o.eq(~reg[::-1])
            return o
        tok_ok = Signal()
        is_tok_pid = (pid == PID_IN) | (pid == PID_OUT) | (pid == PID_SETUP) | (pid == PID_PING)
        m.d.comb += tok_ok.eq(spy.end & (spy.count == 3) & nibble_ok & is_tok_pid & (b[2][3:8] == c5) &
                              (f11[0:7] == self.address))
        setup_tok, other_tok, ping_tok = Signal(), Signal(), Signal()
        m.d.comb += [
            setup_tok.eq(tok_ok & (pid == PID_SETUP) & (f11[7:11] == 0)),
            other_tok.eq(tok_ok & (pid != PID_SETUP)),
            ping_tok.eq(tok_ok & (pid == PID_PING) & (f11[7:11] == 0)),
            self.a["no_setup_other_ep"].eq(~(tok_ok & (pid == PID_SETUP) & (f11[7:11] != 0))),
        ]
        reg = Const(0xFFFF, 16)
        for i in range(8):
            reg = crc16_step(reg, b[1 + i], f"rc16_{i}")
        wire8 = crc16_out(reg, "rc16_wire")
        data_pid = nibble_ok & (pid[0:2] == 0b11)
        data8_ok, data_any_ok = Signal(), Signal()
        m.d.comb += data8_ok.eq(spy.end & data_pid & (spy.count == 11) & (wire8 == Cat(b[9], b[10])))
        # any CRC-valid data packet (any length): the device's own receiver is *not* the oracle here; we use the
        # reference CRC over a running window instead
        r0, r1, r2 = Signal(16, init=0xFFFF), Signal(16, init=0xFFFF), Signal(16, init=0xFFFF)
        l1, l2 = Signal(8), Signal(8)
        nb = Signal(5)
        step = crc16_step(r0, u.rx_data, "rc16run")
        with m.If(~u.rx_active):
            m.d.usb += [r0.eq(0xFFFF), r1.eq(0xFFFF), r2.eq(0xFFFF), nb.eq(0)]
        with m.Elif(u.rx_valid & (spy.count != 0)):
            m.d.usb += [r2.eq(r1), r1.eq(r0), r0.eq(step), l2.eq(l1), l1.eq(u.rx_data)]
            with m.If(nb != 31):
                m.d.usb += nb.eq(nb + 1)
        wire_any = crc16_out(r2, "rc16run_wire")
        m.d.comb += data_any_ok.eq(spy.end & data_pid & (nb >= 2) & (wire_any == Cat(l2, l1)))

        must, may = Signal(name="must"), Signal(name="may")
        last_was_setup = Signal()    # the packet that ended most recently was a SETUP token for us
        armed = Signal()             # a SETUP token for us is the last token for us, no valid data packet since
        with m.If(spy.end):
            m.d.usb += [last_was_setup.eq(setup_tok), armed.eq(setup_tok)]
        m.d.comb += [must.eq(data8_ok & last_was_setup), may.eq(data8_ok & armed)]
        for nm, sg in (("armed", armed), ("may", may), ("must", must), ("data8_ok", data8_ok), ("tok_ok", tok_ok),
                       ("setup_tok", setup_tok), ("data_any_ok", data_any_ok), ("count", spy.count)):
            self.obs(nm, sg)

        # ---- expectations on `received` (window of 1..4 cycles after the end of the data packet)
        must_d = [Signal(name=f"must_d{i}") for i in range(5)]
        may_d = [Signal(name=f"may_d{i}") for i in range(5)]
        seen_d = [Signal(name=f"seen_d{i}") for i in range(5)]   # received seen since the end cycle
        m.d.usb += [must_d[0].eq(must), may_d[0].eq(may)]
        for i in range(1, 5):
            m.d.usb += [must_d[i].eq(must_d[i - 1]), may_d[i].eq(may_d[i - 1])]
        got = Signal()      # `received` already strobed for the current window
        with m.If(may):
            m.d.usb += got.eq(0)
        with m.Elif(setup.received):
            m.d.usb += got.eq(1)
        in_window = may_d[0] | may_d[1] | may_d[2] | may_d[3]
        m.d.comb += [
            self.v["spurious"].eq(setup.received & (~in_window | got)),
            self.v["missed"].eq(must_d[3] & ~got & ~setup.received),
        ]
        # fields: latched copy of the 8 bytes at the end of the data packet
        lb = [Signal(8, name=f"lb{i}") for i in range(8)]
        with m.If(may):
            m.d.usb += [lb[i].eq(b[1 + i]) for i in range(8)]
        rt = Cat(setup.recipient, setup.type, setup.is_in_request)
        m.d.comb += self.v["fields"].eq(setup.received & in_window & (
            (rt != lb[0]) | (setup.request != lb[1]) | (setup.value != Cat(lb[2], lb[3])) |
            (setup.index != Cat(lb[4], lb[5])) | (setup.length != Cat(lb[6], lb[7]))))

        # ---- ACK: once per decoded SETUP, not before the inter-packet gap, before the response deadline
        exp = spec_cycles(60e6)
        since = Signal(8, init=0xff)     # cycles since the end of the valid SETUP data packet
        pend = Signal()                  # a decoded SETUP still waits for its ACK
        with m.If(may):
            m.d.usb += [since.eq(0), pend.eq(1)]
        with m.Elif(since != 0xff):
            m.d.usb += since.eq(since + 1)
        ack = itf.handshakes_out.ack
        ping_ctx = Signal()              # last token for us is a PING to endpoint 0 (its ACK is not ours to judge)
        with m.If(spy.end & tok_ok):
            m.d.usb += ping_ctx.eq(ping_tok)
        nmin, nmax = Signal(8), Signal(8)
        with m.If(self.speed == 0):
            m.d.comb += [nmin.eq(min(exp[0][0])), nmax.eq(max(exp[0][1]) + 3)]
        with m.Else():
            m.d.comb += [nmin.eq(min(exp[1][0])), nmax.eq(max(exp[1][1]) + 3)]
        acked = Signal()
        with m.If(may):
            m.d.usb += acked.eq(0)
        with m.Elif(ack & pend):
            m.d.usb += [acked.eq(1), pend.eq(0)]
        with m.If(pend & (since == nmax)):
            m.d.usb += pend.eq(0)
        m.d.comb += [
            self.v["ack_spurious"].eq(ack & ~pend & ~ping_ctx),
            self.v["ack_early"].eq(ack & pend & (since + 1 < nmin)),
            self.v["ack_missing"].eq(pend & (since == nmax) & ~ack & got),
            self.a["host_waits"].eq(~((pend | may_d[0]) & u.rx_active) | may),
        ]
        # ---- covers
        bad_before = Signal()   # a CRC-corrupted data packet (>=2 bytes after PID) was seen earlier
        short_before = Signal()
        aborted_before = Signal()
        wrong_len_before = Signal()
        with m.If(spy.end & data_pid & (nb >= 2) & ~data_any_ok):
            m.d.usb += bad_before.eq(1)
        with m.If(spy.end & data_pid & (nb < 2)):
            m.d.usb += short_before.eq(1)
        with m.If(spy.end & last_was_setup & ~data8_ok):
            m.d.usb += aborted_before.eq(1)
        with m.If(spy.end & data_any_ok & armed & ~data8_ok):
            m.d.usb += wrong_len_before.eq(1)
        m.d.comb += [
            self.c["received"].eq(setup.received),
            self.c["ack"].eq(ack & pend),
            self.c["ack_fs"].eq(ack & pend & (self.speed == 1)),
            self.c["after_bad_crc"].eq(setup.received & bad_before),
            self.c["after_short_data"].eq(setup.received & short_before),
            self.c["after_aborted_setup"].eq(setup.received & aborted_before),
            self.c["wrong_length"].eq(wrong_len_before),
            self.c["setup_then_in"].eq(acked & other_tok),
        ]
        return m

    # ---- co-simulation stimulus: legal packets, many SETUP transactions, some corruption
    def stimulus(self, rng, t, consts):
        if not hasattr(self, "_script"):
            self._script = []
        if not self._script:
            addr = consts["address"]

            def token(pid, a, e):
                f = a | (e << 7)
                reg = 0x1f
                for i in range(11):
                    fb = ((f >> i) & 1) ^ (reg >> 4)
                    reg = ((reg << 1) & 0x1f) ^ (5 if fb else 0)
                c = 0
                for k in range(5):
                    c |= ((~(reg >> (4 - k))) & 1) << k
                return [((~pid & 0xf) << 4) | pid, f & 0xff, (f >> 8) | (c << 3)]

            def data(pid, payload, corrupt=False):
                reg = 0xFFFF
                for byte in payload:
                    for i in range(8):
                        fb = ((byte >> i) & 1) ^ (reg >> 15)
                        reg = ((reg << 1) & 0xFFFF) ^ (0x8005 if fb else 0)
                w = 0
                for i in range(16):
                    w |= ((~(reg >> (15 - i))) & 1) << i
                if corrupt:
                    w ^= 1 << rng.randrange(16)
                return [((~pid & 0xf) << 4) | pid] + payload + [w & 0xff, w >> 8]

            pk = []
            r = rng.random()
            if r < 0.5:
                pk.append(token(PID_SETUP, addr, 0))
                n = 8 if rng.random() < 0.8 else rng.randrange(0, 10)
                pk.append(data(0x3, [rng.randrange(256) for _ in range(n)], rng.random() < 0.15))
            elif r < 0.7:
                pk.append(token(rng.choice([PID_IN, PID_OUT, PID_PING]), addr if rng.random() < 0.7 else 5, rng.randrange(2)))
            elif r < 0.9:
                pk.append(data(rng.choice([0x3, 0xB]), [rng.randrange(256) for _ in range(rng.randrange(0, 4))],
                               rng.random() < 0.5))
            else:
                pk.append([rng.randrange(256) for _ in range(rng.randrange(1, 4))])
            seq = []
            for p in pk:
                seq.append((0, 1, 0))
                for d in p:
                    while (not self.gapless) and rng.random() < 0.2:
                        seq.append((rng.randrange(256), 1, 0))
                    seq.append((d, 1, 1))
                seq += [(0, 0, 0)] * rng.randrange(1, 3)
            seq += [(0, 0, 0)] * 40
            self._script = seq
        d, a, v = self._script.pop(0)
        return dict(rx_data=d, rx_active=a, rx_valid=v, address=consts["address"], speed=consts["speed"])

    def const_stimulus(self, rng):
        return dict(address=rng.randrange(128), speed=rng.randrange(2))


class SetupSlotHarness(Harness):
    """Transaction-level layer: a real USBDevice with one control endpoint (stall-only fallback + observing spy handler)
    driven by the slotted symbolic host.  Every slot is one transaction of a pinned kind (cube) with symbolic address,
    endpoint, data bytes, DATA PID and OUT length; judged at the end of each slot."""

    def __init__(self, nslots):
        super().__init__()
        self.spy = Spy()
        self.utmi, self.dev, self.ep0, _ = make_device(ep0_mps=8, std=False, extra_handlers=(self.spy,))
        self.host = SlottedHost(self, nslots, slot_len=32, ack_t=25, max_out=2, ep_bits=2)
        names = ["missed", "spurious", "fields", "ack_missing", "ack_spurious"]
        self.v = {n: self.viol("slot_" + n) for n in names}
        self.c = {n: self.cover("slot_" + n) for n in ["received_last", "received_after_corrupt", "two_setups"]}
        self.a = {n: self.assume("slot_" + n) for n in ["legal", "no_setup_other_ep"]}

    def elaborate(self, platform):
        m = Module()
        h, u, dev = self.host, self.utmi, self.dev
        m.submodules.dev = dev
        h.build(m, "usb")
        spy = TxSpy(m, "usb", h, u.tx_valid, u.tx_data, nbytes=2, name="tx")
        h.add_in_ack(m, "usb", spy.is_data & ~u.tx_valid)
        tie_device(m, u, dev, h)
        setup = self.spy.interface.setup
        # per-slot bookkeeping
        nrecv = Signal(2, name="g_nrecv")
        lat = Signal(64, name="g_lat_fields")
        fields = Cat(setup.recipient, setup.type, setup.is_in_request, setup.request, setup.value, setup.index,
                     setup.length)
        with m.If(h.slot_end):
            m.d.usb += nrecv.eq(0)
        with m.Elif(setup.received):
            with m.If(nrecv != 3):
                m.d.usb += nrecv.eq(nrecv + 1)
            with m.If(nrecv == 0):
                m.d.usb += lat.eq(fields)
        # the device address stays 0 (no SET_ADDRESS handler in this device)
        for_us = (h.cur_addr == 0) & (h.cur_ep == 0)
        valid_setup = Signal(name="g_valid_setup")
        m.d.comb += valid_setup.eq((h.cur_kind == KIND_SETUP) & ~h.cur_flag & for_us)
        judge = Signal(name="g_judge")
        m.d.comb += judge.eq(h.slot_end & ~h.done)
        sent_ack = spy.is_hsk & (spy.pid == 0xD2) & (spy.count == 1) & (spy.packets == 1)
        any_ack = spy.is_hsk & (spy.pid == 0xD2)
        # kinds whose handshake is not the subject of this property (answered by the endpoint's data path)
        not_judged = (h.cur_kind == KIND_OUT) | (h.cur_kind == KIND_PING)
        setups_other_ep = Const(0)
        for i in range(h.n):
            setups_other_ep = setups_other_ep | ((h.kind[i] == KIND_SETUP) & (h.addr[i] == 0) & (h.ep[i] != 0))
        m.d.comb += [
            self.a["legal"].eq(h.legal),
            self.a["no_setup_other_ep"].eq(~setups_other_ep),
            self.v["missed"].eq(judge & valid_setup & (nrecv == 0)),
            self.v["spurious"].eq(judge & (Mux(valid_setup, nrecv > 1, nrecv != 0))),
            self.v["fields"].eq(judge & valid_setup & (nrecv != 0) & (lat != h.cur_data)),
            self.v["ack_missing"].eq(judge & valid_setup & ~sent_ack),
            self.v["ack_spurious"].eq(judge & ~valid_setup & ~not_judged & any_ack),
        ]
        seen_corrupt = Signal(name="g_seen_corrupt")
        seen_setup = Signal(name="g_seen_setup")
        with m.If(judge & (h.cur_kind == KIND_SETUP) & h.cur_flag & for_us):
            m.d.usb += seen_corrupt.eq(1)
        with m.If(judge & valid_setup & (nrecv == 1)):
            m.d.usb += seen_setup.eq(1)
        last = h.slot == h.n - 1
        m.d.comb += [
            self.c["received_last"].eq(judge & last & valid_setup & (nrecv == 1) & sent_ack),
            self.c["received_after_corrupt"].eq(judge & valid_setup & (nrecv == 1) & seen_corrupt),
            self.c["two_setups"].eq(judge & valid_setup & (nrecv == 1) & seen_setup),
        ]
        return m

    def stimulus(self, rng, t, consts):
        return dict(consts)

    def const_stimulus(self, rng):
        d = {}
        for i in range(self.host.n):
            k = rng.choice([KIND_SETUP, KIND_SETUP, KIND_IN, KIND_OUT, KIND_NONE, KIND_SOF, KIND_PING, 7])
            d.update({f"s{i}_kind": k, f"s{i}_ep": 0 if k == KIND_SETUP else rng.randrange(4),
                      f"s{i}_addr": 0 if rng.random() < 0.8 else rng.randrange(128),
                      f"s{i}_data": rng.getrandbits(64), f"s{i}_flag": int(rng.random() < 0.3),
                      f"s{i}_dpid": rng.randrange(2), f"s{i}_olen": rng.randrange(3)})
        return d


FAST = ["fields", "ack_early", "ack_missing"]          # decided on the free-timing layers within minutes
HARD = ["missed", "spurious", "ack_spurious"]          # need the reference CRC16 over free packet shapes: hours


def queries(tier):
    qs = []
    quick = tier == "quick"
    free = lambda: SetupHarness(gapless=False)
    gapless = lambda: SetupHarness(gapless=True)
    hs = {"*": {"speed": 0}}
    Kf = 24 if quick else 28
    qs.append(Query("bmc_free", free, Kf, timeout=1500, hints=hs, asserts=FAST,
                    covers=["received", "ack"],
                    desc=f"free UTMI timing, K={Kf}: one complete SETUP transaction with arbitrary byte gaps"))
    Kg = 34 if quick else 44
    qs.append(Query("bmc_gapless", gapless, Kg, timeout=1500, hints=hs, asserts=FAST,
                    covers=["received", "ack", "after_bad_crc", "after_short_data", "after_aborted_setup", "wrong_length"] +
                           ([] if quick else ["setup_then_in"]),
                    desc=f"no byte gaps inside packets, K={Kg}: arbitrary prefix packet(s) then a SETUP transaction"))
    # the exactly-once / nothing-spurious clauses over *free* packet shapes are cheap as long as no complete 8-byte data
    # packet fits behind a token (K=20: seconds; K=24: no answer in 900 s): runts, aborted packets, garbage after a token
    for nm, fac in (("free", free), ("gapless", gapless)):
        qs.append(Query(f"bmc_{nm}_short", fac, 20, timeout=900, hints=hs, asserts=["spurious", "ack_spurious"], covers=[],
                        desc=f"{nm} layer, K=20: nothing is reported or ACKed after tokens followed by runt / aborted / "
                             "garbage packets (no complete SETUP transaction fits)"))
        if not quick:
            qs.append(Query(f"bmc_{nm}_short22", fac, 22, timeout=1800, hints=hs, asserts=["spurious", "ack_spurious"],
                            covers=[], required=False, desc=f"{nm} layer, K=22 (best effort)"))
    # transaction-level layer (cubes): exactly-once decoding, silence for everything else, after every kind of prefix
    s2 = lambda: SetupSlotHarness(2)
    s3 = lambda: SetupSlotHarness(3)
    SLOT = ["slot_missed", "slot_spurious", "slot_fields", "slot_ack_missing", "slot_ack_spurious"]
    # OUT data packets are enumerated by length (a symbolic length makes the framing symbolic: > 300 s instead of 0.05 s)
    # the payload of a *corrupted* data packet is pinned (a SET_CONFIGURATION(1)-shaped SETUP payload / two OUT bytes): with a
    # symbolic payload the solver has to refute "corrupted CRC == computed CRC" over 64 free bits before it can reason
    # about the next transaction (unknown after 900 s; 0.05 s with the payload pinned)
    LEN = {"0": dict(kind=KIND_OUT, flag=0, olen=0), "1": dict(kind=KIND_OUT, flag=0, olen=1),
           "2": dict(kind=KIND_OUT, flag=0, olen=2), "o": dict(kind=KIND_OUT, flag=1, olen=2, data=0xC3A5),
           "s": dict(kind=KIND_SETUP, flag=1, data=0x0000000000010900)}
    for name, layer in slot_cubes(2, "SsTIi012oNGFf", table=LEN):
        if quick and name[1] not in "Ss":
            continue
        qs.append(Query(f"bmc_2slots_{name}", s2, 66, layer=layer, asserts=SLOT, covers=[], timeout=900, split=False,
                        tactic="ctx-first" if "s" in name or "o" in name else "portfolio",
                        desc=f"transactions {name} (address, endpoint, data, PIDs, OUT length symbolic): the SETUP is "
                             "reported exactly once with its 8 bytes and ACKed; nothing else is"))
    hints = {"slot_received_last": {}, "slot_received_after_corrupt": {"s0_kind": KIND_SETUP, "s0_flag": 1},
             "slot_two_setups": {"s0_kind": KIND_SETUP, "s0_flag": 0}}
    for hd in hints.values():
        for i in range(2):
            hd.setdefault(f"s{i}_kind", KIND_SETUP); hd.setdefault(f"s{i}_flag", 0)
            hd.update({f"s{i}_addr": 0, f"s{i}_ep": 0, f"s{i}_olen": 0})
    qs.append(Query("covers_2slots", s2, 66, asserts=[], hints=hints, timeout=900, split=False,
                    covers=["slot_received_last", "slot_received_after_corrupt", "slot_two_setups"], desc="witnesses"))
    if not quick:
        for name, layer in slot_cubes(3, "SsT2oiN", table=LEN):
            if name[2] in "Ss":
                qs.append(Query(f"bmc_3slots_{name}", s3, 98, layer=layer, asserts=SLOT, covers=[], timeout=1800,
                                split=False, tactic="ctx-first" if "s" in name or "o" in name else "portfolio",
                                desc=f"transactions {name}"))
        qs.append(Query("bmc_gapless_fs", gapless, 50, timeout=1500, layer={"speed": 1},
                        asserts=["ack_missing", "ack_early"], covers=["ack_fs"],
                        desc="full speed, gapless, K=50: ACK exactly inside the FS response window"))
        qs.append(Query("bmc_gapless_hard", gapless, 34, timeout=3000, hints=hs, asserts=HARD, covers=[], required=False,
                        desc="best effort: exactly-once / no spurious report over arbitrary packet shapes (the monitor's "
                             "CRC16 over free framing; usually undecided within the time limit)"))
    qs.append(Query("cosim_free", free, 0, kind="cosim", cosim_cycles=300 if quick else 3000))
    qs.append(Query("cosim_gapless", gapless, 0, kind="cosim", cosim_cycles=300 if quick else 3000))
    qs.append(Query("cosim_slots", s3, 0, kind="cosim", cosim_cycles=100 if quick else 400))
    return qs
