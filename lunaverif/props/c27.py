"""C27 -- constant-stream generators emit exactly the requested slice.

DUTs: luna.gateware.stream.generator.ConstantStreamGenerator (byte wide and 32 bit wide with per-byte
valid bits, little/big endian, with/without max_length) and StreamSerializer (run-time data array).

Oracle (independent ghost, derived from the statement, not from the DUT's position/bytes_sent logic):
at an accepted start the monitor latches the start word index and the number of BYTES that must be
sent, n = min(max_length, total_bytes - bytes_per_word*start_position).  It then counts bytes down:
every presented word must carry the constant word of the ghost index in its valid lanes, `first` exactly
on the first word, `last` exactly on the word that exhausts n, valid mask = the low min(left, bytes/word)
lanes, `done` exactly in the cycle after the last word was accepted, and no valid otherwise (which
contains the "nothing when max_length == 0" clause).
"""
from amaranth import *
from ..harness import Harness
from ..engine import Query

# FINDINGS (genuine defects found by this check on the original tree, fixed in /repo)
#   977c80c "fix: ConstantStreamGenerator elaborates without a max_length limit again"
#       ConstantStreamGenerator(data) with the default max_length_width=None raised AttributeError during elaboration
#       (bytes_sent / max_length are plain ints there).  Caught by: probe_elab_nomax assert:elaborates_without_max_length
#       (the *_maxnone configurations then exercise the repaired path: payload/first/last/valid_mask/silent/done).

PROP = "C27"
ENCODED = [
    "luna/gateware/stream/generator.py: ConstantStreamGenerator (_get_initializer_value, start_position clamp, "
    "on_first/on_last, valid mask, max_length latch, output_length, FSM IDLE/STREAMING/DONE)",
    "luna/gateware/stream/generator.py: StreamSerializer (same FSM over a run-time Array)",
]
ASSUMPTIONS = [
    "start_position at an accepted start lies within the data (word index < number of ROM words)",
    "start_position is held from the accepted start until the last word has been accepted (all in-repo users do; "
    "`first` is computed from the live input)",
    "StreamSerializer only: max_length and data[] are held while the serializer is streaming (it does not latch them)",
    "`start` pulses while the generator is busy (streaming or pulsing done) are legal and must be ignored",
    "ROM contents are elaboration-time constants: enumerated concrete byte strings with pairwise distinct bytes",
    "big endian words: valid lanes are the low lanes of int.from_bytes(chunk, 'big') (the class's own convention)",
]
BOUNDS = "BMC from reset, K = 2*words+8 (two back-to-back transmissions fit), start/ready/max_length/start_position " \
         "free every cycle; constants of 1..6 bytes (8 bit) and 2..12 bytes (32 bit, 4 valid bits; incl. one-word ROMs), little/big endian, " \
         "with and without max_length; serializer lengths 1..4 with and without max_length"
OUTSIDE = "start_position beyond the data (clamped by the DUT; behaviour unspecified by the statement); " \
          "output_length is only checked for start_position == 0 (its documentation ignores start_position; " \
          "for start_position > 0 it reports min(max_length, total length), not the number of bytes sent); " \
          "data widths other than 8/32; non-bytes initialisers; constants longer than 12 bytes"


def _words(data, bpw, endian):
    out = []
    for i in range(0, len(data), bpw):
        out.append(int.from_bytes(bytes(data[i:i + bpw]), endian))
    return out


class GenHarness(Harness):
    domains = ("usb",)

    def __init__(self, kind="const", data=b"\x11\x22\x33", width=8, endian="little", maxw=None, nser=None):
        super().__init__()
        from luna.gateware.stream.generator import ConstantStreamGenerator, StreamSerializer
        from luna.gateware.usb.stream import SuperSpeedStreamInterface, USBInStreamInterface
        self.kind = kind
        self.maxw = maxw
        self.width = width
        self.bpw = width // 8
        if kind == "const":
            st = SuperSpeedStreamInterface if width == 32 else USBInStreamInterface
            self.dut = ConstantStreamGenerator(bytes(data), domain="usb", stream_type=st, max_length_width=maxw,
                                               data_width=(None if width == 32 else 8), data_endianness=endian)
            self.total = len(data)
            self.words = _words(data, self.bpw, endian)
        else:
            self.dut = StreamSerializer(nser, domain="usb", data_width=8, stream_type=USBInStreamInterface,
                                        max_length_width=maxw)
            self.total = nser
            self.words = None
            self.data_in = [self.inp(f"d{i}", 8) for i in range(nser)]
        self.nwords = (self.total + self.bpw - 1) // self.bpw
        self.vw = len(self.dut.stream.valid)
        self.start = self.inp("start", 1)
        self.ready = self.inp("ready", 1)
        self.spw = len(self.dut.start_position)
        self.sp = self.inp("start_position", self.spw) if self.spw else Const(0, 1)
        self.ml = self.inp("max_length", maxw) if maxw else None

        names = ["payload", "first", "last", "valid_mask", "silent", "done", "zero_len"]
        if maxw and kind == "const":
            names.append("output_length")
        self.v = {n: self.viol(n) for n in names}
        cov = ["first", "last", "done", "stall_last", "restart", "end_by_data"]
        if self.nwords > 1:
            cov += ["sp_nonzero"]
        if self.nwords > 2:
            cov += ["middle"]
        if maxw:
            cov += ["zero_len"]
            if self.total >= 2:
                cov += ["end_by_max"]
        if self.vw > 1 and (maxw or self.total % self.bpw):
            cov += ["partial_mask"]
        self.c = {n: self.cover(n) for n in cov}
        self.a_within = self.assume("sp_within")
        self.a_stable = self.assume("stable")

    def elaborate(self, platform):
        m = Module()
        m.submodules.dut = dut = self.dut
        s = dut.stream
        bpw, total, nwords = self.bpw, self.total, self.nwords
        m.d.comb += [dut.start.eq(self.start), s.ready.eq(self.ready)]
        if self.spw:
            m.d.comb += dut.start_position.eq(self.sp)
        if self.ml is not None:
            m.d.comb += dut.max_length.eq(self.ml)
        if self.kind == "ser":
            for i, d in enumerate(self.data_in):
                m.d.comb += dut.data[i].eq(d)

        # ---- ghost
        IDLE, STREAM, DONE = 0, 1, 2
        st = Signal(2, name="g_state")
        bw = max(total, (1 << self.maxw) - 1 if self.maxw else 0).bit_length() + 1
        g_left = Signal(bw, name="g_left")          # bytes still to be sent, including the presented word
        g_idx = Signal(range(nwords + 1), name="g_idx")
        g_first = Signal(name="g_first")
        g_sp = Signal(max(self.spw, 1), name="g_sp")
        g_ml = Signal(max(self.maxw or 1, 1), name="g_ml")
        g_bymax = Signal(name="g_bymax")
        g_ran = Signal(name="g_ran")
        g_zero = Signal(name="g_zero")
        self.obs("g_state", st); self.obs("g_left", g_left); self.obs("g_idx", g_idx)

        ml_now = self.ml if self.ml is not None else Const(total)
        rem = Signal(bw, name="rem_now")             # bytes from start_position to the end of the data
        m.d.comb += rem.eq(Array([Const(max(total - bpw * i, 0), bw) for i in range(1 << max(self.spw, 1))])[self.sp])
        n_now = Signal(bw, name="n_now")
        m.d.comb += n_now.eq(Mux(ml_now < rem, ml_now, rem))
        idle = st == IDLE
        acc_start = Signal(name="acc_start")
        m.d.comb += acc_start.eq(self.start & idle & (ml_now > 0))
        m.d.comb += self.a_within.eq(~(self.start & idle) | (self.sp < nwords))

        streaming = st == STREAM
        exp_last = g_left <= bpw
        accept = Signal(name="accept")
        m.d.comb += accept.eq(streaming & self.ready)     # the monitor's own notion: a word is taken when ready

        m.d.usb += g_zero.eq(self.start & idle & (ml_now == 0))
        with m.Switch(st):
            with m.Case(IDLE):
                with m.If(acc_start):
                    m.d.usb += [st.eq(STREAM), g_left.eq(n_now), g_idx.eq(self.sp), g_first.eq(1), g_sp.eq(self.sp),
                                g_ml.eq(ml_now), g_bymax.eq(ml_now < rem)]
            with m.Case(STREAM):
                with m.If(accept):
                    m.d.usb += g_first.eq(0)
                    with m.If(exp_last):
                        m.d.usb += st.eq(DONE)
                    with m.Else():
                        m.d.usb += [g_left.eq(g_left - bpw), g_idx.eq(g_idx + 1)]
            with m.Case(DONE):
                m.d.usb += [st.eq(IDLE), g_ran.eq(1)]

        # held-input contract
        stable = self.sp == g_sp
        if self.kind == "ser":
            if self.ml is not None:
                stable = stable & (self.ml == g_ml)
            for i, d in enumerate(self.data_in):
                lat = Signal(8, name=f"g_d{i}")
                with m.If(acc_start):
                    m.d.usb += lat.eq(d)
                stable = stable & (d == lat)
        m.d.comb += self.a_stable.eq(~streaming | stable)

        # ---- expected word
        exp_word = Signal(self.width, name="exp_word")
        if self.kind == "const":
            m.d.comb += exp_word.eq(Array([Const(w, self.width) for w in self.words] + [Const(0, self.width)])[g_idx])
        else:
            m.d.comb += exp_word.eq(Array(list(self.data_in) + [Const(0, 8)])[g_idx])
        nb = Signal(range(bpw + 1), name="exp_nbytes")
        m.d.comb += nb.eq(Mux(g_left < bpw, g_left, bpw))
        exp_mask = Signal(self.vw, name="exp_mask")
        if self.vw == 1:
            m.d.comb += exp_mask.eq(1)
        else:
            with m.Switch(nb):
                for i in range(1, bpw + 1):
                    with m.Case(i):
                        m.d.comb += exp_mask.eq((1 << i) - 1)
        lane_bad = Signal(bpw, name="lane_bad")
        for i in range(bpw):
            lane_valid = exp_mask[i] if self.vw > 1 else Const(1)
            m.d.comb += lane_bad[i].eq(lane_valid & (s.payload[8 * i:8 * i + 8] != exp_word[8 * i:8 * i + 8]))

        v = self.v
        m.d.comb += [
            v["payload"].eq(streaming & lane_bad.any()),
            v["first"].eq(streaming & (s.first != g_first)),
            v["last"].eq(streaming & (s.last != exp_last)),
            v["valid_mask"].eq(streaming & (s.valid != exp_mask)),
            v["silent"].eq(~streaming & (s.valid != 0)),
            # a start with max_length == 0 is allowed to pulse done or not; everything else must match exactly
            v["done"].eq((dut.done != (st == DONE)) & ~g_zero),
            v["zero_len"].eq(g_zero & ((s.valid != 0) | (st != IDLE))),
        ]
        if "output_length" in v:
            exp_ol = Mux(g_ml < total, g_ml, total)
            m.d.comb += v["output_length"].eq(streaming & (g_sp == 0) & (dut.output_length != exp_ol))

        c = self.c
        m.d.comb += [
            c["first"].eq(accept & s.first & (s.valid != 0)),
            c["last"].eq(accept & s.last & (s.valid != 0)),
            c["done"].eq(dut.done & (st == DONE)),
            c["stall_last"].eq(streaming & exp_last & ~self.ready & s.last),
            c["restart"].eq(acc_start & g_ran),
            c["end_by_data"].eq(accept & exp_last & ~g_bymax),
        ]
        if "sp_nonzero" in c:
            m.d.comb += c["sp_nonzero"].eq(dut.done & (g_sp != 0))
        if "middle" in c:
            m.d.comb += c["middle"].eq(accept & ~g_first & ~exp_last)
        if "zero_len" in c:
            m.d.comb += c["zero_len"].eq(g_zero)
        if "end_by_max" in c:
            m.d.comb += c["end_by_max"].eq(accept & exp_last & g_bymax)
        if "partial_mask" in c:
            m.d.comb += c["partial_mask"].eq(accept & exp_last & (nb != bpw) & (s.valid == exp_mask))
        return m

    def stimulus(self, rng, t, consts):
        d = super().stimulus(rng, t, consts)
        d["start"] = int(rng.random() < 0.3)
        d["ready"] = int(rng.random() < 0.6)
        if self.spw and rng.random() < 0.7:
            d["start_position"] = 0 if rng.random() < 0.5 else rng.randrange(self.nwords)
        return d


class ElabProbe(Harness):
    """The class documents max_length_width as optional (default None).  This probe elaborates the real class
    without it; an exception during elaboration is reported as a violation (constant viol output)."""
    domains = ("usb",)

    def __init__(self, width=8):
        super().__init__()
        self.failed = _elab_error(width)
        self.v = self.viol("elaborates_without_max_length")
        self.c = self.cover("probe_ran")
        self.tick = self.inp("tick", 1)

    def elaborate(self, platform):
        m = Module()
        ctr = Signal(2, name="probe_ctr")
        m.d.usb += ctr.eq(ctr + self.tick)
        m.d.comb += [self.v.eq(1 if self.failed else 0), self.c.eq(ctr == 1)]
        return m


def _elab_error(width=8):
    from amaranth.hdl import Fragment
    from luna.gateware.stream.generator import ConstantStreamGenerator
    from luna.gateware.usb.stream import SuperSpeedStreamInterface, USBInStreamInterface
    try:
        st = SuperSpeedStreamInterface if width == 32 else USBInStreamInterface
        Fragment.get(ConstantStreamGenerator(b"\x01\x02\x03\x04\x05", domain="usb", stream_type=st), None)
        return None
    except Exception as e:                       # noqa: any elaboration failure is the finding
        return f"{type(e).__name__}: {e}"


def _bytes(n, seed):
    # pairwise distinct, non-zero
    return bytes(((seed + 37 * i) % 251) + 1 for i in range(n))


def _configs(tier):
    cfgs = []
    # (length, max_length_width) / (length, endianness, max_length_width)
    q8 = [(5, 4), (6, None), (1, 2)]
    q32 = [(7, "little", 4), (6, "big", None), (8, "little", 4), (11, "big", 4), (3, "little", 3)]
    qser = [(2, 2), (3, None), (4, 3)]
    if tier != "quick":
        q8 += [(2, None), (2, 2), (3, 3), (4, None), (6, 3), (3, 2), (1, None)]
        q32 += [(5, "little", 4), (5, "big", None), (6, "little", None), (8, "big", 4), (10, "little", 4),
                (11, "big", 4), (12, "little", None), (12, "big", 4), (5, "little", 2), (9, "big", 4), (4, "big", 3), (2, "little", None)]
        qser += [(1, 1), (1, None), (2, None), (3, 3), (4, None)]
    seen = set()
    for n, mw in q8:
        if ("c8", n, mw) in seen:
            continue
        seen.add(("c8", n, mw))
        cfgs.append((f"const8_len{n}_max{mw or 'none'}",
                     dict(kind="const", data=_bytes(n, 0x40 + n), width=8, maxw=mw), n))
    for n, e, mw in q32:
        if ("c32", n, e, mw) in seen:
            continue
        seen.add(("c32", n, e, mw))
        cfgs.append((f"const32_len{n}_{e}_max{mw or 'none'}",
                     dict(kind="const", data=_bytes(n, 0x90 + n), width=32, endian=e, maxw=mw), (n + 3) // 4))
    for n, mw in qser:
        if ("ser", n, mw) in seen:
            continue
        seen.add(("ser", n, mw))
        cfgs.append((f"ser_len{n}_max{mw or 'none'}", dict(kind="ser", nser=n, maxw=mw), n))
    return cfgs


def queries(tier):
    qs = [Query("probe_elab_nomax", ElabProbe, 2,
                desc="ConstantStreamGenerator(max_length_width=None) -- the constructor default -- must elaborate")]
    for tag, kw, nwords in _configs(tier):
        f = (lambda kw=kw: GenHarness(**kw))
        K = 2 * nwords + (8 if tier == "quick" else 10)
        qs.append(Query(f"bmc_{tag}", f, K, timeout=300, split=False,
                        desc=f"{tag}: start/ready/start_position/max_length free every cycle, two transmissions fit"))
        if tier != "quick" or tag.split("_")[1] in ("len5", "len7", "len4"):
            qs.append(Query(f"cosim_{tag}", f, 0, kind="cosim", cosim_cycles=150 if tier == "quick" else 600))
    return qs
