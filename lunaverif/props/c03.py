"""C03 -- USB2 transmitted data packets are correctly framed with a valid CRC16.

DUT: real USBDataPacketGenerator + real USBDataPacketCRC wired as luna/gateware/usb/usb2/device.py:363-364
(crc.tx_valid = tx.valid & tx_ready, crc.tx_data = tx.data); second configuration: USBDataPacketGenerator(standalone=True)
with its internal CRC unit.

Environment: a stream producer obeying the USBInStreamInterface contract, built from free per-cycle choices
(start a packet / request a ZLP / payload byte / last flag); `tx.ready` and `data_pid` free in every cycle.

Monitor: decodes the bytes the PHY accepts (tx.valid & tx.ready) into PID / payload / CRC-low / CRC-high phases using
only the stream's `last` flag and acceptance, and compares every phase with the statement.  The reference CRC is
accumulated over the accepted payload with the repo's CRC step function (shared definition; C30 proves that function
equal to the bit-serial USB CRC16 for all states and bytes), output mapping (complement, reflect, low byte first) is
the monitor's own.
"""
from amaranth import *

from ..harness import Harness
from ..engine import Query
from ..lib.usb2 import PID_DATA0, PID_DATA1, PID_DATA2, PID_MDATA, pid_byte

PROP = "C03"
ENCODED = ["luna/gateware/usb/usb2/packet.py: USBDataPacketGenerator (FSM IDLE/SEND_PID/SEND_PAYLOAD/SEND_CRC_FIRST/SECOND, "
           "remaining_crc capture, PID table)",
           "luna/gateware/usb/usb2/packet.py: USBDataPacketCRC (as wired for transmit)",
           "luna/gateware/usb/usb2/device.py:363-364 (CRC advance = accepted transmit bytes) -- replicated wiring"]
ASSUMPTIONS = [
    "stream producer (USBInStreamInterface contract): a data packet starts with valid & first, valid stays high up to "
    "and including the byte flagged last, payload/last stable while the byte is not accepted (valid & ~ready), first "
    "marks byte 0 only; the next packet's first byte may be offered as soon as the previous last byte was accepted",
    "a ZLP request is a one-cycle pulse valid & last & ~first given while the generator is idle (no packet in flight), "
    "as USBInTransferManager produces it",
    "tx.ready free in every cycle; data_pid free in every cycle, the PID requested is its value in the request cycle",
    "device wiring harness: crc.rx_valid tied 0 (UTMI is half duplex: nothing is received while the device transmits)",
    "a packet is 'requested' in a cycle in which no packet is in flight and the stream shows valid & (first | last); "
    "the PID must be offered from the next cycle on (the latency the repo's own test pins)",
]
BOUNDS = "BMC from reset, all inputs free per cycle; quick = device-wiring configuration only, thorough = both. " \
         "Framing assertions: K=14 quick / K=22 thorough (+K=34 with " \
         "tx.ready=1). CRC assertions: K=7 quick / K=9 thorough (payloads up to 3/5 bytes; K=10 free and K=13 with tx.ready=1 best effort)"
OUTSIDE = "payloads longer than the depth allows; producers that drop valid inside a packet; the multiplexer between " \
          "this generator and the handshake generator (C20)"

PIDS = [PID_DATA0, PID_DATA1, PID_DATA2, PID_MDATA]       # data_pid 0..3


class TxHarness(Harness):
    domains = ("usb",)

    def __init__(self, standalone=False, free_bits=8):
        super().__init__()
        self.free_bits = free_bits
        from luna.gateware.usb.usb2.packet import USBDataPacketGenerator, USBDataPacketCRC
        self.standalone = standalone
        self.dut = g = USBDataPacketGenerator(standalone=standalone)
        self.refcrc = USBDataPacketCRC()          # never elaborated: only its step function is called (shared definition)
        if not standalone:
            self.crc = USBDataPacketCRC()
            self.crc.add_interface(g.crc)
        # free choices
        self.want_start = self.inp("want_start", 1)
        self.want_zlp = self.inp("want_zlp", 1)
        if free_bits == 8:
            self.free_payload = self.inp("payload", 8)
        else:
            # restricted data layer: `free_bits` low bits free per cycle, the upper bits one symbolic constant
            lo = self.inp("payload", free_bits)
            hi = self.inp("payload_hi", 8 - free_bits, const=True)
            self.free_payload = Cat(lo, hi)
            self.restrictions.append(f"payload bytes: low {free_bits} bit(s) free per byte, upper bits one symbolic constant")
        self.free_last = self.inp("last", 1)
        self.inp("tx_ready", signal=g.tx.ready)
        self.inp("data_pid", signal=g.data_pid)
        names = ("pid", "payload", "crc_low", "crc_high", "valid_continuous", "idle_quiet", "exactly_once")
        self.v = {n: self.viol(n) for n in names}
        cov = ("packet_3_bytes_stalled", "zlp_sent", "single_byte_packet", "early_next_packet", "second_packet",
               "crc_stalled", "pid_data0", "pid_data1", "pid_data2", "pid_mdata")
        self.c = {n: self.cover(n) for n in cov}
        self.phase = Signal(3, name="mon_phase")
        self.obs("phase", self.phase)
        self.obs("tx_valid", g.tx.valid), self.obs("tx_data", g.tx.data), self.obs("stream_ready", g.stream.ready)

    def stimulus(self, rng, t, consts):
        d = dict(want_start=int(rng.random() < 0.4), want_zlp=int(rng.random() < 0.2),
                 payload=rng.getrandbits(self.free_bits),
                 last=int(rng.random() < 0.3), tx_ready=int(rng.random() < 0.7), data_pid=rng.getrandbits(2))
        if "payload_hi" in consts:
            d["payload_hi"] = consts["payload_hi"]
        return d

    def elaborate(self, platform):
        m = Module()
        m.submodules.dut = g = self.dut
        st, tx = g.stream, g.tx
        if not self.standalone:
            m.submodules.crc = crc = self.crc
            m.d.comb += [crc.tx_valid.eq(tx.valid & tx.ready), crc.tx_data.eq(tx.data), crc.rx_valid.eq(0), crc.rx_data.eq(0)]

        IDLE, PID, PAYLOAD, CRC_LO, CRC_HI = range(5)
        phase = self.phase
        idle = phase == IDLE

        # ---------------- stream producer (environment)
        active = Signal(name="env_active")          # a data packet is being offered
        held = Signal(name="env_held")              # the current byte was offered before and not accepted yet
        held_payload = Signal(8, name="env_held_payload")
        held_last = Signal(name="env_held_last")
        idx0 = Signal(init=1, name="env_first")     # the byte on offer is byte 0
        start = ~active & self.want_start
        zlp = ~active & ~self.want_start & self.want_zlp & idle
        offering = active | start
        payload = Mux(held, held_payload, self.free_payload)
        last = Mux(held, held_last, self.free_last)
        m.d.comb += [
            st.valid.eq(offering | zlp),
            st.first.eq(offering & idx0),
            st.last.eq(zlp | (offering & last)),
            st.payload.eq(payload),
        ]
        with m.If(offering):
            with m.If(st.ready):
                m.d.usb += [held.eq(0), idx0.eq(0), active.eq(1)]
                with m.If(last):
                    m.d.usb += [active.eq(0), idx0.eq(1)]
            with m.Else():
                m.d.usb += [active.eq(1), held.eq(1), held_payload.eq(payload), held_last.eq(last)]

        # ---------------- monitor
        exp_pid = Signal(8, name="mon_exp_pid")
        is_zlp = Signal(name="mon_is_zlp")
        ref = Signal(16, init=0xFFFF, name="mon_ref_crc")
        nbytes = Signal(4, name="mon_nbytes")
        stalled = Signal(name="mon_stalled")
        crc_stalled = Signal(name="mon_crc_stalled")
        npackets = Signal(2, name="mon_npackets")
        early = Signal(name="mon_early")
        ref_next = Signal(16, name="mon_ref_next")
        m.d.comb += ref_next.eq(self.refcrc._generate_next_crc(ref, tx.data))
        wire = Signal(16, name="mon_crc_wire")                       # complemented, highest power first, low byte first
        m.d.comb += wire.eq(~Cat(*[ref[15 - i] for i in range(16)]))
        pid_table = Array([Const(pid_byte(p), 8) for p in PIDS])
        accepted = tx.valid & tx.ready
        request = idle & st.valid & (st.first | st.last)

        with m.Switch(phase):
            with m.Case(IDLE):
                with m.If(request):
                    m.d.usb += [phase.eq(PID), exp_pid.eq(pid_table[g.data_pid]), is_zlp.eq(~st.first),
                                ref.eq(0xFFFF), nbytes.eq(0), stalled.eq(0), crc_stalled.eq(0)]
            with m.Case(PID):
                with m.If(tx.ready):
                    m.d.usb += phase.eq(Mux(is_zlp, CRC_LO, PAYLOAD))
            with m.Case(PAYLOAD):
                with m.If(tx.ready):
                    m.d.usb += [ref.eq(ref_next), nbytes.eq(nbytes + (nbytes != 15))]
                    with m.If(st.last):
                        m.d.usb += phase.eq(CRC_LO)
                with m.Else():
                    m.d.usb += stalled.eq(1)
            with m.Case(CRC_LO):
                with m.If(tx.ready):
                    m.d.usb += phase.eq(CRC_HI)
                with m.Else():
                    m.d.usb += crc_stalled.eq(1)
            with m.Case(CRC_HI):
                with m.If(tx.ready):
                    m.d.usb += [phase.eq(IDLE), npackets.eq(npackets + (npackets != 3))]
        with m.If((phase == CRC_LO) | (phase == CRC_HI)):
            with m.If(start):
                m.d.usb += early.eq(1)
        with m.If(idle & ~request):
            m.d.usb += early.eq(0)

        in_packet = ~idle
        m.d.comb += [
            # every packet starts with the DATA PID selected in the request cycle
            self.v["pid"].eq((phase == PID) & (tx.data != exp_pid)),
            # payload bytes in order: the byte on offer is the byte on the bus
            self.v["payload"].eq((phase == PAYLOAD) & (tx.data != st.payload)),
            # CRC16 of exactly the accepted payload, low byte first (0x0000 for a ZLP)
            self.v["crc_low"].eq((phase == CRC_LO) & (tx.data != wire[0:8])),
            self.v["crc_high"].eq((phase == CRC_HI) & (tx.data != wire[8:16])),
            # the packet is one uninterrupted UTMI transmission
            self.v["valid_continuous"].eq(in_packet & ~tx.valid),
            # nothing is transmitted that was not requested
            self.v["idle_quiet"].eq(idle & tx.valid),
            # a payload byte is consumed from the stream exactly when the PHY accepts it, and never otherwise
            self.v["exactly_once"].eq(st.ready != ((phase == PAYLOAD) & tx.ready)),
        ]
        done = (phase == CRC_HI) & accepted
        m.d.comb += [
            self.c["packet_3_bytes_stalled"].eq(done & (nbytes >= 3) & stalled & ~is_zlp),
            self.c["zlp_sent"].eq(done & is_zlp & (nbytes == 0) & (tx.data == 0)),
            self.c["single_byte_packet"].eq(done & (nbytes == 1) & ~is_zlp),
            self.c["early_next_packet"].eq((phase == PID) & early & accepted),
            self.c["second_packet"].eq(done & (npackets >= 1)),
            self.c["crc_stalled"].eq(done & crc_stalled & (nbytes >= 1)),
        ]
        for i, n in enumerate(("pid_data0", "pid_data1", "pid_data2", "pid_mdata")):
            m.d.comb += self.c[n].eq((phase == PID) & accepted & (tx.data == pid_byte(PIDS[i])))
        return m


CRC_ASSERTS = ["crc_low", "crc_high"]
FRAMING_ASSERTS = ["pid", "payload", "valid_continuous", "idle_quiet", "exactly_once"]


def queries(tier):
    """quick: the device-wiring configuration only -- framing family K=14, CRC family K=7, cover twins, short cosim
    (4 processes).  thorough: both configurations, deeper, plus the restricted tx.ready=1 layers."""
    thorough = tier != "quick"
    qs = []
    cfgs = (("device_wiring", False), ("standalone", True)) if thorough else (("device_wiring", False),)
    for tag, sa in cfgs:
        f = (lambda sa=sa: TxHarness(standalone=sa))
        K = 22 if thorough else 14
        qs.append(Query(f"bmc_{tag}", f, K, asserts=FRAMING_ASSERTS, covers=[], timeout=900, split=False,
                        desc=f"{tag}: PID / payload order / continuity / exactly-once; producer choices, payload, last, "
                             "data_pid and tx.ready free every cycle"))
        qs.append(Query(f"cover_{tag}", f, 14, asserts=[], timeout=900,
                        desc=f"{tag}: reachability twins (stalled 3-byte packet, ZLP, 1-byte packet, early next packet, "
                             "second packet, stalled CRC, all four PIDs)"))
        # the two CRC assertions compare two independently gated CRC accumulations; cost grows steeply with depth
        # (K=7 2-13 s, K=9 35-150 s, K=12 > 100 s on a loaded machine), so they get their own shallower free layer
        Kc = 9 if thorough else 7
        qs.append(Query(f"bmc_crc_{tag}", f, Kc, asserts=CRC_ASSERTS, covers=[], timeout=900, split=thorough,
                        desc=f"{tag}: CRC16 low/high byte of the accepted payload; everything free every cycle "
                             f"(packets of up to {Kc - 4} bytes, or fewer with stalls)"))
        if thorough:
            qs.append(Query(f"bmc_crc_k10_{tag}", f, 10, asserts=CRC_ASSERTS, covers=[], timeout=900, required=False,
                            desc=f"{tag}: CRC16 assertions, everything free, K=10 (best effort; not measured to completion)"))
            qs.append(Query(f"bmc_crc_ready1_{tag}", f, 13, asserts=CRC_ASSERTS, covers=[], layer={"tx_ready": 1},
                            timeout=900, required=False,
                            desc=f"{tag}: restricted layer tx.ready = 1 (no stalls), payloads up to 9 bytes"))
            qs.append(Query(f"bmc_ready1_{tag}", f, 34, asserts=FRAMING_ASSERTS, covers=[], layer={"tx_ready": 1},
                            timeout=900, split=False,
                            desc=f"{tag}: restricted layer tx.ready = 1, longer payloads / more packets (framing assertions)"))
        qs.append(Query(f"cosim_{tag}", f, 0, kind="cosim", cosim_cycles=150 if not thorough else 2000))
    return qs
