"""C17 -- status (signal) IN endpoints report the latched value consistently.

DUT: luna.gateware.usb.usb2.endpoints.status.USBSignalInEndpoint (real class) for several widths and both byte orders.
Environment: the interface-level host of lib/inhost.py (tokens for any endpoint / other devices, response strobe,
ACK delivered or lost, host-side reception failures, broadcast ACKs for other devices' data, PHY ready pattern);
the monitored `signal` is free in every cycle.
Oracle (from the statement): a poll that is not a retry samples `signal` in the cycle the request is answered
(ready_for_response for an IN token naming this endpoint); every packet until the next visible ACK carries exactly
that value, ceil(width/8) bytes in the configured order (unused top bits zero), with the same PID; the PID advances
exactly with ACKs of the endpoint's own packets; `status_read_complete` strobes exactly with those ACKs.
"""
from amaranth import *
from ..harness import Harness
from ..engine import Query
from ..lib.inhost import InHostMixin, HOST_ASSUMPTIONS

PROP = "C17"
# FINDINGS (genuine defect found by this check on the original tree, now fixed in /repo):
#   "fix: USBSignalInEndpoint only accepts an ACK for its own IN transaction" (827caba)
#       WAIT_FOR_ACK took any handshakes_in.ack: report sent but not received by the host, token for another device address,
#       broadcast ACK -> status_read_complete strobed, toggle flipped, the next poll sent a *new* sample as DATA1 which the
#       host (still expecting the DATA0 retry) drops.  Caught by: read_complete, pid_seq, value (scenario
#       kf_foreign_ack_taken; layer fack=0 held).
ENCODED = ["luna/gateware/usb/usb2/endpoints/status.py: USBSignalInEndpoint (latch, byte mux/endianness, retransmit FSM, toggle)"]
ASSUMPTIONS = HOST_ASSUMPTIONS + [
    "signal_domain='usb' (no synchronizer); `signal` free every cycle",
    "'sampled when the request arrived' = the cycle of ready_for_response for an IN token naming this endpoint",
]
BOUNDS = "BMC from reset, K=18 quick / 26 thorough (3+ polls incl. retries); widths 1, 8, 12, 16 (quick: 8 little, 12 big, " \
         "16 little/big), both byte orders; endpoint number 3"
OUTSIDE = "signal_domain != 'usb' (FFSynchronizer path); widths > 16; behaviour after an illegal host sequence"

ASSERTS = ["value", "length", "pid_seq", "host_sync", "respond", "quiet", "framing", "read_complete"]
COVERS = ["value", "retry_same_value", "retry_lost_ack", "pid_advanced", "read_complete", "second_poll_new_value",
          "foreign_ack_pending", "other_endpoint"]


class SignalInHarness(InHostMixin, Harness):
    EP = 3

    def __init__(self, width=8, endianness="little"):
        super().__init__()
        from luna.gateware.usb.usb2.endpoints.status import USBSignalInEndpoint
        self.width, self.endianness = width, endianness
        self.nbytes = (width + 7) // 8
        self.dut = USBSignalInEndpoint(width=width, endpoint_number=self.EP, endianness=endianness)
        self.host_inputs()
        self.inp("signal", signal=self.dut.signal)
        self.kf_fack = self.kf("foreign_ack_taken")
        self.v = {n: self.viol(n) for n in ASSERTS}
        self.v_any = self.viol("any")
        self.c = {n: self.cover(n) for n in COVERS}

    def stimulus(self, rng, t, consts):
        d = super().stimulus(rng, t, consts)
        return self.host_stimulus(rng, d, self.EP)

    def elaborate(self, platform):
        m = Module()
        m.submodules.dut = dut = self.dut
        itf = dut.interface
        tx = itf.tx
        n, v, c = self.nbytes, self.v, self.c
        H = self.host_model(m, itf.tokenizer, itf.handshakes_in, tx, itf.tx_pid_toggle, self.EP, n)
        m.d.comb += self.kf_fack.eq(H.fack_taken)

        # value the host must receive: sampled at a fresh (non-retry) poll
        exp = Signal(n * 8, name="g_exp")
        exp_prev = Signal(n * 8, name="g_exp_prev")
        have = Signal(name="g_have")
        polls = Signal(2, name="g_polls")
        with m.If(H.itr & ~H.prev_valid):
            m.d.usb += [exp.eq(dut.signal), exp_prev.eq(exp), have.eq(1)]
            with m.If(polls != 3):
                m.d.usb += polls.eq(polls + 1)
        # expected byte at position pos
        exp_byte = Signal(8, name="g_exp_byte")
        with m.Switch(H.pos):
            for i in range(n):
                src = i if self.endianness == "little" else n - 1 - i
                with m.Case(i):
                    m.d.comb += exp_byte.eq(exp[8 * src: 8 * src + 8])
        acked_once = Signal(name="g_acked_once")
        with m.If(H.ack_ev):
            m.d.usb += acked_once.eq(1)
        m.d.comb += [
            # every byte of every packet is the corresponding byte of the sampled value
            v["value"].eq(H.byte_xfer & ((tx.payload != exp_byte) | ~have | (H.pos >= n))),
            c["value"].eq(H.host_accept & (H.p_len == n) & (exp != 0) & (exp != (1 << (n * 8)) - 1 if n > 1 or self.width > 1 else 1)),
            # exactly ceil(width/8) bytes; never a ZLP
            v["length"].eq((H.pkt_end & (H.p_len != n)) | H.is_zlp),
            # first on the first byte, last on the last one, valid held in between
            v["framing"].eq((H.pkt_active & tx.valid & ((tx.first != (H.pos == 0)) | (tx.last != (H.pos == n - 1))))
                            | (H.in_packet & ~tx.valid)),
            # PID: DATA0 first, advances exactly with each ACK of an own packet (a retry keeps it)
            v["pid_seq"].eq(H.pkt_start & (itf.tx_pid_toggle != Cat(H.d_exp, Const(0, 1)))),
            # a fresh report carries the toggle the host expects (else the host would drop it as a duplicate)
            v["host_sync"].eq(H.pkt_start & ~H.prev_valid & ~H.acceptable),
            # each poll is answered with a data packet starting in the next cycle
            v["respond"].eq(H.itr_d & ~(tx.valid & tx.first)),
            # nothing else is ever driven
            v["quiet"].eq((H.pkt_start & ~H.itr_d) | itf.handshakes_out.ack | itf.handshakes_out.nak
                          | itf.handshakes_out.stall | itf.handshakes_out.nyet),
            # status_read_complete strobes exactly when the host's ACK of an own packet arrives
            v["read_complete"].eq(dut.status_read_complete != H.ack_ev),
            c["read_complete"].eq(dut.status_read_complete & H.ack_ev),
            c["retry_same_value"].eq(H.host_accept & H.prev_valid & ~H.prev_acc & (exp != dut.signal)),
            c["retry_lost_ack"].eq(H.pkt_end & H.prev_valid & H.prev_acc),
            c["pid_advanced"].eq(H.pkt_start & H.d_exp),
            c["second_poll_new_value"].eq(H.host_accept & (polls >= 2) & (exp != exp_prev)),
            c["foreign_ack_pending"].eq(H.fack_ev & H.prev_valid),
            c["other_endpoint"].eq(H.rfr_ev & ~H.itr & H.prev_valid),
        ]
        m.d.comb += self.v_any.eq(Cat(*[s for k, s in self._viols.items() if k != "any"]).any())
        return m


def _cfgs(tier):
    if tier == "quick":
        return [(16, "little", True), (16, "big", False), (12, "big", False), (8, "little", False)]
    return [(16, "little", True), (16, "big", True), (12, "little", False), (12, "big", False), (8, "little", False),
            (8, "big", False), (1, "little", False), (1, "big", False)]


def queries(tier):
    """primary configurations: one query per clause; the others: the disjunction `any` in one solver call"""
    qs = []
    quick = tier == "quick"
    for width, end, primary in _cfgs(tier):
        tag = f"w{width}_{end}"
        f = (lambda width=width, end=end: SignalInHarness(width, end))
        K = 18 if quick else 26
        qs.append(Query(f"bmc_{tag}", f, K, timeout=900, asserts=ASSERTS if primary else ["any"],
                        covers=COVERS if primary else ["value", "retry_same_value"],
                        desc=f"width={width} {end}-endian: everything free (host events incl. broadcast ACKs, rx_ok, tx.ready, signal)"))
        if primary and width == 16 and end == "little" and not quick:
            qs.append(Query(f"bmc_nofack_{tag}", f, K, timeout=900, asserts=["any"], covers=[], layer={"fack": 0},
                            desc=f"width={width} {end}: restricted layer: no broadcast ACKs for other devices/endpoints"))
        qs.append(Query(f"cosim_{tag}", f, 0, kind="cosim", cosim_cycles=80 if quick else 1000))
    return qs
