"""C25 -- the gateware full-speed PHY encodes and decodes USB line signalling.

Part (a), decided here for all inputs: the control/termination clauses of the statement --
  * in the UTMI non-driving operating mode (op_mode = 1) the PHY never drives D+/D- (oe = 0), whatever tx_valid/tx_data;
  * the pull-up output follows term_select; the pull-down output follows dp_pulldown | dm_pulldown;
  * line_state mirrors D+/D-.
These are combinational (plus the transmitter's output-enable register path), checked over K steps from reset with
every input free.

Part (b), transmit encoding (TxLineHarness): with the real 4:1 usb_io : usb clock ratio, a UTMI producer hands 1..4 symbolic
bytes to the PHY and an independent line monitor decodes D+/D- (SYNC, NRZI, bit-stuffing, LSB-first bytes, SE0-SE0-J) and
compares every byte; tx_ready must strobe exactly once per byte.
Part (c), receive decoding / clock-data recovery, is outside the claim (see OUTSIDE).
"""
from amaranth import *
from amaranth.hdl.rec import Record
from ..harness import Harness
from ..engine import Query

PROP = "C25"
ENCODED = ["luna/gateware/interface/gateware_phy/phy.py: GatewarePHY (op-mode decoding, pull-up/pull-down, line state, clock strobe)",
           "luna/gateware/interface/gateware_phy/transmitter.py: TxPipeline, TxShifter, TxBitstuffer, TxNRZIEncoder",
           "luna/gateware/interface/gateware_phy/receiver.py: RxPipeline (elaborated as part of the PHY; not asserted on)"]
ASSUMPTIONS = [
    "transmit harness: op_mode = 0, full-speed transceiver select, the producer offers one packet of 1..4 bytes whose first byte "
    "is a PID (check nibble valid) and holds each byte until tx_ready; the usb clock ticks on every 4th usb_io edge with a "
    "fixed phase (phase 0 in quick, all four phases in thorough)",
    "control clauses: the usb (12 MHz) and usb_io (48 MHz) domains tick together in this harness (the asserted relations "
    "are combinational in the op-mode / pull-up inputs, so the clock ratio is irrelevant to them)",
]
BOUNDS = "control: BMC from reset K=12 (single rate) and K=24 (4:1) with every PHY input free per cycle.  transmit: BMC K=226 " \
         "usb_io steps from reset, all values of up to 4 bytes (so every run of ones, including a stuffed bit at a byte boundary)"
OUTSIDE = "receive decoding and clock-data recovery under +-0.25 % drift (part c); packets longer than 4 bytes; tx_valid dropped mid-packet"


def make_io():
    return Record([
        ("d_p", [("i", 1), ("o", 1), ("oe", 1)]),
        ("d_n", [("i", 1), ("o", 1), ("oe", 1)]),
        ("pullup", [("o", 1)]),
        ("pulldown", [("o", 1)]),
    ])


class CtrlHarness(Harness):
    domains = ("usb", "usb_io")

    def __init__(self):
        super().__init__()
        from luna.gateware.interface.gateware_phy import GatewarePHY
        self.io = make_io()
        self.dut = GatewarePHY(io=self.io)
        d = self.dut
        for n in ("tx_data", "tx_valid", "xcvr_select", "term_select", "op_mode", "dp_pulldown", "dm_pulldown"):
            self.inp(n, signal=getattr(d, n))
        self.inp("d_p_i", signal=self.io.d_p.i)
        self.inp("d_n_i", signal=self.io.d_n.i)
        self.v = {n: self.viol(n) for n in ["nondriving_never_drives", "pullup_follows_term_select",
                                            "pulldown_follows_requests", "line_state"]}
        self.c = {n: self.cover(n) for n in ["drives_in_normal_mode", "nondriving_with_tx_valid", "pulldown_requested"]}

    def elaborate(self, platform):
        m = Module()
        # both domains tick together in this harness (the missing domains become top-level clock ports)
        m.submodules.dut = d = self.dut
        io = self.io
        m.d.comb += [
            self.v["nondriving_never_drives"].eq((d.op_mode == 1) & (io.d_p.oe | io.d_n.oe)),
            self.v["pullup_follows_term_select"].eq(io.pullup.o != d.term_select),
            self.v["pulldown_follows_requests"].eq(io.pulldown.o != (d.dp_pulldown | d.dm_pulldown)),
            self.v["line_state"].eq(d.line_state != Cat(io.d_n.i, io.d_p.i)),
            self.c["drives_in_normal_mode"].eq((d.op_mode == 0) & io.d_p.oe),
            self.c["nondriving_with_tx_valid"].eq((d.op_mode == 1) & d.tx_valid),
            self.c["pulldown_requested"].eq(d.dp_pulldown & ~d.term_select & io.pulldown.o),
        ]
        return m


class TxLineHarness(Harness):
    """(b) transmit encoding: a UTMI producer (usb domain) hands N symbolic bytes to the real GatewarePHY; a line monitor
    (usb_io domain) decodes D+/D-: bit period of four 48 MHz cycles from the first driven bit, NRZI, bit-stuffing after six
    ones, SYNC, LSB-first bytes, SE0-SE0-J end of packet -- and compares every decoded byte with the byte handed over."""
    domains = ("usb", "usb_io")

    def __init__(self, nbytes=3, phase=0):
        super().__init__()
        from luna.gateware.interface.gateware_phy import GatewarePHY
        self.clocks = {"usb_io": (1, 0), "usb": (4, phase)}
        self.n = nbytes
        self.io = make_io()
        self.dut = GatewarePHY(io=self.io)
        self.data = [self.inp(f"byte{i}", 8, const=True) for i in range(nbytes)]
        self.count = self.inp("count", range(nbytes + 1).stop.bit_length(), const=True)   # bytes in the packet (1..n)
        self.start = self.inp("start", 1)                                                   # producer start request (free)
        names = ["sync", "byte_value", "stuffing", "eop", "byte_count", "se1", "oe_pair", "glitch", "ready_only_when_valid",
                 "accepted_once", "drives_only_for_packet"]
        self.v = {n: self.viol(n) for n in names}
        self.c = {n: self.cover(n) for n in ["packet_done", "stuffed_bit", "three_bytes", "stuff_at_byte_end", "ff_byte"]}
        self.a = {n: self.assume(n) for n in ["count_legal", "first_byte_is_pid"]}

    def elaborate(self, platform):
        m = Module()
        m.submodules.dut = d = self.dut
        io = self.io
        n = self.n
        m.d.comb += [d.op_mode.eq(0), d.xcvr_select.eq(1), d.term_select.eq(1), io.d_p.i.eq(1), io.d_n.i.eq(0),
                     self.a["count_legal"].eq((self.count >= 1) & (self.count <= n)),
                     # every USB packet starts with a PID byte (low nibble, complemented high nibble); with it the
                     # question whether the final 1 of SYNC counts towards the first run of ones is unobservable
                     self.a["first_byte_is_pid"].eq(self.data[0][0:4] == ~self.data[0][4:8])]
        # ---- UTMI producer (usb domain): one packet, bytes held until accepted
        idx = Signal(range(n + 1))
        sending = Signal()
        done = Signal()
        accepted = Signal(range(n + 2))
        cur = Signal(8)
        with m.Switch(idx):
            for i in range(n):
                with m.Case(i):
                    m.d.comb += cur.eq(self.data[i])
        m.d.comb += [d.tx_valid.eq(sending), d.tx_data.eq(cur)]
        with m.If(~sending & ~done & self.start):
            m.d.usb += sending.eq(1)
        with m.If(sending & d.tx_ready):
            m.d.usb += [idx.eq(idx + 1), accepted.eq(accepted + 1)]
            with m.If(idx + 1 == self.count):
                m.d.usb += [sending.eq(0), done.eq(1)]
        with m.If(~sending & d.tx_ready & (accepted != n + 1)):
            m.d.usb += accepted.eq(accepted + 1)
        # ---- line monitor (usb_io domain)
        lvl = Signal(2)
        oe = Signal()
        m.d.comb += [lvl.eq(Cat(io.d_n.o, io.d_p.o)), oe.eq(io.d_p.oe)]
        J, K, SE0 = 0b10, 0b01, 0b00
        prev_oe = Signal()
        cnt = Signal(2)
        first = Signal()          # first 48 MHz cycle of a bit
        m.d.usb_io += prev_oe.eq(oe)
        rising = oe & ~prev_oe
        m.d.comb += first.eq(rising | (oe & prev_oe & (cnt == 0)))
        with m.If(rising):
            m.d.usb_io += cnt.eq(1)
        with m.Else():
            m.d.usb_io += cnt.eq(cnt + 1)
        held = Signal(2)          # level sampled in the bit's first cycle
        prev_lvl = Signal(2, init=J)
        ones = Signal(3)
        bitpos = Signal(3)
        cur_byte = Signal(8)
        nbytes = Signal(range(n + 2))
        st = Signal(3)            # 0 idle, 1 sync, 2 data, 3 after first SE0, 4 after second SE0, 5 after J, 6 finished
        packets = Signal(2)
        stuffed_seen = Signal()
        stuff_at_end = Signal()
        exp_byte = Signal(8)
        with m.Switch(nbytes):
            for i in range(n):
                with m.Case(i):
                    m.d.comb += exp_byte.eq(self.data[i])
        bit = Signal()
        m.d.comb += bit.eq(lvl == prev_lvl)
        byte_done = Signal(8)
        m.d.comb += byte_done.eq(cur_byte | (bit << bitpos))
        with m.If(first):
            m.d.usb_io += held.eq(lvl)
            with m.If(rising):
                m.d.usb_io += packets.eq(Mux(packets == 3, 3, packets + 1))
            st_now = Signal(3)
            m.d.comb += st_now.eq(Mux(rising, 1, st))
            with m.If(lvl == 0b11):
                m.d.comb += self.v["se1"].eq(1)
            with m.Elif((st_now == 1) | (st_now == 2)):
                with m.If(rising):
                    m.d.usb_io += [st.eq(1)]
                with m.If(lvl == SE0):
                    # end of packet may only start on a byte boundary, in the data phase, with no stuff bit owed
                    m.d.comb += self.v["eop"].eq(~((st_now == 2) & (bitpos == 0) & (ones != 6)))
                    m.d.usb_io += st.eq(3)
                with m.Else():
                    m.d.usb_io += prev_lvl.eq(lvl)
                    with m.If(~rising & (ones == 6)):
                        # this bit must be a stuffed zero, and it is not data
                        m.d.comb += self.v["stuffing"].eq(bit)
                        m.d.usb_io += [ones.eq(0), stuffed_seen.eq(1)]
                        with m.If(bitpos == 0):
                            m.d.usb_io += stuff_at_end.eq(1)
                    with m.Else():
                        m.d.usb_io += ones.eq(Mux(bit, ones + 1, 0))
                        m.d.usb_io += [cur_byte.eq(byte_done), bitpos.eq(bitpos + 1)]
                        with m.If(bitpos == 7):
                            m.d.usb_io += cur_byte.eq(0)
                            with m.If(st_now == 1):
                                m.d.comb += self.v["sync"].eq(byte_done != 0x80)
                                m.d.usb_io += st.eq(2)
                            with m.Else():
                                m.d.comb += [self.v["byte_value"].eq((nbytes >= self.count) | (byte_done != exp_byte))]
                                m.d.usb_io += nbytes.eq(Mux(nbytes == n + 1, n + 1, nbytes + 1))
            with m.Elif(st_now == 3):
                m.d.comb += self.v["eop"].eq(lvl != SE0)
                m.d.usb_io += st.eq(4)
            with m.Elif(st_now == 4):
                m.d.comb += self.v["eop"].eq(lvl != J)
                m.d.usb_io += st.eq(5)
            with m.Elif(st_now == 5):
                m.d.comb += self.v["eop"].eq(1)          # still driving after SE0 SE0 J
        # the driver must be released one bit time after the J of the end of packet, and only then
        with m.If(~oe & prev_oe):
            m.d.comb += [self.v["eop"].eq(st != 5), self.v["byte_count"].eq(nbytes != self.count)]
            m.d.usb_io += [st.eq(6), ones.eq(0), bitpos.eq(0), prev_lvl.eq(J), nbytes.eq(0)]
        m.d.comb += [
            self.v["oe_pair"].eq(io.d_p.oe != io.d_n.oe),
            self.v["glitch"].eq(oe & prev_oe & ~first & (lvl != held)),
            self.v["drives_only_for_packet"].eq(rising & (packets != 0)),        # the producer sends exactly one packet
        ]
        # ---- UTMI side (usb domain)
        m.d.comb += [
            self.v["ready_only_when_valid"].eq(d.tx_ready & ~d.tx_valid),
            self.v["accepted_once"].eq(accepted > self.count),
            self.c["packet_done"].eq(st == 6),
            self.c["stuffed_bit"].eq((st == 6) & stuffed_seen),
            self.c["three_bytes"].eq((st == 6) & (self.count == 3)),
            self.c["stuff_at_byte_end"].eq((st == 6) & stuff_at_end & (self.count == 3)),
            self.c["ff_byte"].eq((st == 6) & (self.data[1] == 0xFF) & (self.count == 3)),
        ]
        return m

    def stimulus(self, rng, t, consts):
        d = dict(consts)
        d["start"] = int(t > 6)
        return d

    def const_stimulus(self, rng):
        out = {f"byte{i}": rng.choice([0xFF, 0xFC, 0x00, 0x7E, rng.randrange(256)]) for i in range(self.n)}
        out["byte0"] = rng.choice([0xC3, 0x4B, 0xD2, 0x5A, 0x1E, 0x0F])
        out["count"] = rng.randrange(1, self.n + 1)
        return out


class CtrlHarness4(CtrlHarness):
    """same harness with the real 4:1 clock ratio (usb ticks on every 4th usb_io edge)"""
    clocks = {"usb_io": (1, 0), "usb": (4, 0)}


def queries(tier):
    f = lambda: CtrlHarness()
    K = 12 if tier == "quick" else 40
    return [Query("bmc_ctrl", f, K, timeout=900, desc="control clauses, all inputs free per cycle"),
            Query("cosim_ctrl", f, 0, kind="cosim", cosim_cycles=200),
            Query("cosim_ctrl_4to1", lambda: CtrlHarness4(), 0, kind="cosim", cosim_cycles=400),
            Query("bmc_ctrl_4to1", lambda: CtrlHarness4(), 24, timeout=900, covers=[],
                  desc="control clauses with the real 4:1 usb_io:usb clock ratio")] + tx_queries(tier)


def tx_queries(tier):
    qs = []
    phases = [0] if tier == "quick" else [0, 1, 2, 3]
    for ph in phases:
        f = (lambda ph=ph: TxLineHarness(4, ph))
        hints = {"*": {"byte0": 0xC3}, "stuffed_bit": {"byte0": 0xC3, "byte1": 0xFF, "count": 2},
                 "stuff_at_byte_end": {"byte0": 0xC3, "byte1": 0xFC, "count": 3}, "ff_byte": {"byte1": 0xFF, "count": 3},
                 "three_bytes": {"count": 3}}
        for hd in hints.values():
            hd.setdefault("start", lambda t: 1)
        qs.append(Query(f"bmc_tx_phase{ph}", f, 226, timeout=1500, hints=hints, split=False, layer={"start": lambda t: 1},
                        desc=f"transmit encoding: 1..4 symbolic bytes, usb clock phase {ph} of 4 relative to the bit strobe, "
                             "producer starts at once"))
        qs.append(Query(f"cosim_tx_phase{ph}", f, 0, kind="cosim", cosim_cycles=260))
    return qs
