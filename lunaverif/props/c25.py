"""C25 -- the gateware full-speed PHY encodes and decodes USB line signalling.

Part (a), decided here for all inputs: the control/termination clauses of the statement --
  * in the UTMI non-driving operating mode (op_mode = 1) the PHY never drives D+/D- (oe = 0), whatever tx_valid/tx_data;
  * the pull-up output follows term_select; the pull-down output follows dp_pulldown | dm_pulldown;
  * line_state mirrors D+/D-.
These are combinational (plus the transmitter's output-enable register path), checked over K steps from reset with
every input free.

Parts (b)/(c) (NRZI / bit-stuffing / EOP encoding of transmitted bytes and clock-data recovery of received packets) need
the two-clock (usb 12 MHz / usb_io 48 MHz) schedule; see the TX/RX harnesses below.
"""
from amaranth import *
from amaranth.hdl.rec import Record
from ..harness import Harness
from ..engine import Query

PROP = "C25"
ENCODED = ["luna/gateware/interface/gateware_phy/phy.py: GatewarePHY (op-mode decoding, pull-up/pull-down, line state)",
           "luna/gateware/interface/gateware_phy/transmitter.py: TxPipeline (output enable path)"]
ASSUMPTIONS = [
    "control clauses: the usb (12 MHz) and usb_io (48 MHz) domains tick together in this harness (the asserted relations "
    "are combinational in the op-mode / pull-up inputs, so the clock ratio is irrelevant to them)",
]
BOUNDS = "BMC from reset K=12 with every PHY input free per cycle (op_mode, term_select, pull-down requests, tx_valid, tx_data, D+/D- inputs)"
OUTSIDE = "encoding/decoding of packets on D+/D- (parts b/c)"


def make_io():
    return Record([
        ("d_p", [("i", 1), ("o", 1), ("oe", 1)]),
        ("d_n", [("i", 1), ("o", 1), ("oe", 1)]),
        ("pullup", [("o", 1)]),
        ("pulldown", [("o", 1)]),
    ])


class CtrlHarness(Harness):
    domains = ("usb", "usb_io")

    def __init__(self):
        super().__init__()
        from luna.gateware.interface.gateware_phy import GatewarePHY
        self.io = make_io()
        self.dut = GatewarePHY(io=self.io)
        d = self.dut
        for n in ("tx_data", "tx_valid", "xcvr_select", "term_select", "op_mode", "dp_pulldown", "dm_pulldown"):
            self.inp(n, signal=getattr(d, n))
        self.inp("d_p_i", signal=self.io.d_p.i)
        self.inp("d_n_i", signal=self.io.d_n.i)
        self.v = {n: self.viol(n) for n in ["nondriving_never_drives", "pullup_follows_term_select",
                                            "pulldown_follows_requests", "line_state"]}
        self.c = {n: self.cover(n) for n in ["drives_in_normal_mode", "nondriving_with_tx_valid", "pulldown_requested"]}

    def elaborate(self, platform):
        m = Module()
        # both domains tick together in this harness (the missing domains become top-level clock ports)
        m.submodules.dut = d = self.dut
        io = self.io
        m.d.comb += [
            self.v["nondriving_never_drives"].eq((d.op_mode == 1) & (io.d_p.oe | io.d_n.oe)),
            self.v["pullup_follows_term_select"].eq(io.pullup.o != d.term_select),
            self.v["pulldown_follows_requests"].eq(io.pulldown.o != (d.dp_pulldown | d.dm_pulldown)),
            self.v["line_state"].eq(d.line_state != Cat(io.d_n.i, io.d_p.i)),
            self.c["drives_in_normal_mode"].eq((d.op_mode == 0) & io.d_p.oe),
            self.c["nondriving_with_tx_valid"].eq((d.op_mode == 1) & d.tx_valid),
            self.c["pulldown_requested"].eq(d.dp_pulldown & ~d.term_select & io.pulldown.o),
        ]
        return m


class CtrlHarness4(CtrlHarness):
    """same harness with the real 4:1 clock ratio (usb ticks on every 4th usb_io edge)"""
    clocks = {"usb_io": (1, 0), "usb": (4, 0)}


def queries(tier):
    f = lambda: CtrlHarness()
    K = 12 if tier == "quick" else 40
    return [Query("bmc_ctrl", f, K, timeout=900, desc="control clauses, all inputs free per cycle"),
            Query("cosim_ctrl", f, 0, kind="cosim", cosim_cycles=200),
            Query("cosim_ctrl_4to1", lambda: CtrlHarness4(), 0, kind="cosim", cosim_cycles=400),
            Query("bmc_ctrl_4to1", lambda: CtrlHarness4(), 24, timeout=900, covers=[],
                  desc="control clauses with the real 4:1 usb_io:usb clock ratio")]
