"""C25 -- the gateware full-speed PHY encodes and decodes USB line signalling.

Part (a), decided here for all inputs: the control/termination clauses of the statement --
  * in the UTMI non-driving operating mode (op_mode = 1) the PHY never drives D+/D- (oe = 0), whatever tx_valid/tx_data;
  * the pull-up output follows term_select; the pull-down output follows dp_pulldown | dm_pulldown;
  * line_state mirrors D+/D-.
These are combinational (plus the transmitter's output-enable register path), checked over K steps from reset with
every input free.

Part (b), transmit encoding (TxLineHarness): with the real 4:1 usb_io : usb clock ratio, a UTMI producer hands 1..4 symbolic
bytes to the PHY and an independent line monitor decodes D+/D- (SYNC, NRZI, bit-stuffing, LSB-first bytes, SE0-SE0-J) and
compares every byte; tx_ready must strobe exactly once per byte.
Part (c), receive decoding / clock-data recovery (RxLineHarness): an independent reference encoder puts one packet (SYNC, NRZI,
bit stuffing, SE0-SE0-J) on D+/D- with a symbolic start phase and at most one 3- or 5-cycle bit cell (+-0.25 % drift as the
48 MHz sampler sees it); the UTMI monitor compares the delivered bytes, the rx_active framing and rx_error.  The solver cannot
decide the full product bytes x phase x odd cell for this design (see rx_queries), so part (c) is decided in LAYERS: all
2-byte packets with ideal timing; concrete stuffing-heavy packets with every start phase and an odd cell; stuffing violations.
Finding (repaired by findings/C25_rx_error_cdc.patch): rx_error was a single 48 MHz strobe that the 12 MHz UTMI side sees in
only one of four packet alignments.
"""
from amaranth import *
from amaranth.hdl.rec import Record
from ..harness import Harness
from ..engine import Query

PROP = "C25"
ENCODED = ["luna/gateware/interface/gateware_phy/phy.py: GatewarePHY (op-mode decoding, pull-up/pull-down, line state, clock strobe)",
           "luna/gateware/interface/gateware_phy/transmitter.py: TxPipeline, TxShifter, TxBitstuffer, TxNRZIEncoder",
           "luna/gateware/interface/gateware_phy/receiver.py: RxPipeline, RxClockDataRecovery, RxNRZIDecoder, RxPacketDetect, "
           "RxBitstuffRemover, RxShifter and the two AsyncFIFOBuffered crossings, observed at GatewarePHY rx_data / rx_valid / "
           "rx_active / rx_error"]
ASSUMPTIONS = [
    "transmit harness: op_mode = 0, full-speed transceiver select, the producer offers one packet of 1..4 bytes whose first byte "
    "is a PID (check nibble valid) and holds each byte until tx_ready; the usb clock ticks on every 4th usb_io edge with a "
    "fixed phase (phase 0 in quick, all four phases in thorough)",
    "control clauses: the usb (12 MHz) and usb_io (48 MHz) domains tick together in this harness (the asserted relations "
    "are combinational in the op-mode / pull-up inputs, so the clock ratio is irrelevant to them)",
    "receive harness: the PHY is not transmitting (tx_valid = 0, op_mode = 0); usb ticks on every 4th usb_io edge; D+/D- change "
    "synchronously to usb_io (no metastability, no SE1, no glitches, no jitter other than the one odd cell); ONE packet after "
    "reset: idle J, first edge at usb_io step 6 + sphase (sphase = 0..3), SYNC KJKJKJKK, bytes LSB first, NRZI, a stuffed 0 after "
    "six 1s counting the last SYNC bit, also after the last data bit, SE0 for two cells, J for the rest of the run; first byte "
    "is a PID (high nibble = complement of low nibble); every cell lasts 4 usb_io cycles except at most one cell (any cell "
    "from the first SYNC bit to the second SE0) that lasts 3 or 5: the effect of a +-0.25 % line clock offset on a packet of "
    "< 100 bits as seen by a 48 MHz sampler (accumulated drift < 1 sample)",
    "receive monitor: rx_* are observed at usb clock edges (UTMI is a 12 MHz interface); 'falls after EOP' is asserted as: at "
    "most 24 usb_io cycles (6 bit times) after the J that ends EOP, rx_active has risen once and fallen once and exactly N "
    "bytes were delivered; rx_error for a correct packet is asserted while rx_active only (rx_error strobes on an idle bus "
    "on the unrepaired tree: the bit-stuff remover is never reset, its ResetInserter maps `sync` only); a stuffing "
    "violation = one stuffed bit sent as a seventh 1 (no transition), must be seen as rx_error at a usb edge before the deadline",
]
BOUNDS = "control: BMC from reset K=12 (single rate) and K=24 (4:1) with every PHY input free per cycle.  transmit: BMC K=226 " \
         "usb_io steps from reset, all values of up to 4 bytes (so every run of ones, including a stuffed bit at a byte boundary).  " \
         "receive: BMC K=150 usb_io steps from reset, N=2 bytes (PID + one data byte); layers: (1) ALL byte values, ideal cells, " \
         "start phase 0 (quick; byte_value and byte_count) / phases 0..3 and every assertion (thorough); (2) packets C3 FF (stuffed " \
         "bit inside) and D2 FC (stuffed bit after the last data bit), start phases 0..3, one 3- or 5-cycle cell at two chosen " \
         "cells each (a transition-rich cell and a cell inside / at the end of the run of 1s, resp. the last 1 and the second " \
         "SE0), thorough also C3 FF with the odd cell at ANY cell (symbolic index, best effort); (3) the same two packets with the stuffed bit sent as " \
         "a seventh 1, phases 0..3; thorough also all 2-byte packets and any stuffed bit, phases 0..3 (best effort)"
OUTSIDE = "transmit: packets longer than 4 bytes; tx_valid dropped mid-packet.  receive: the full product of all byte values x start " \
          "phase x odd cell (only the layers listed in BOUNDS are decided; the unrestricted query did not finish one assertion in " \
          "25 CPU minutes); packets longer than 2 bytes; several packets / inter-packet gaps (so a stale error level or FIFO " \
          "residue from a previous packet is not examined); jitter, SE1, glitches and metastability on D+/D-; truly asynchronous " \
          "usb / usb_io clocks; receive while the transmitter releases the bus; rx_error strobes on an idle bus (observed, not " \
          "asserted); the unmapped ResetInserter(sync-only) wrappers in RxPipeline (resets of packet detector / bit-stuff remover " \
          "never fire; unobservable for packets that start with a PID)"


def make_io():
    return Record([
        ("d_p", [("i", 1), ("o", 1), ("oe", 1)]),
        ("d_n", [("i", 1), ("o", 1), ("oe", 1)]),
        ("pullup", [("o", 1)]),
        ("pulldown", [("o", 1)]),
    ])


class CtrlHarness(Harness):
    domains = ("usb", "usb_io")

    def __init__(self):
        super().__init__()
        from luna.gateware.interface.gateware_phy import GatewarePHY
        self.io = make_io()
        self.dut = GatewarePHY(io=self.io)
        d = self.dut
        for n in ("tx_data", "tx_valid", "xcvr_select", "term_select", "op_mode", "dp_pulldown", "dm_pulldown"):
            self.inp(n, signal=getattr(d, n))
        self.inp("d_p_i", signal=self.io.d_p.i)
        self.inp("d_n_i", signal=self.io.d_n.i)
        self.v = {n: self.viol(n) for n in ["nondriving_never_drives", "pullup_follows_term_select",
                                            "pulldown_follows_requests", "line_state"]}
        self.c = {n: self.cover(n) for n in ["drives_in_normal_mode", "nondriving_with_tx_valid", "pulldown_requested"]}

    def elaborate(self, platform):
        m = Module()
        # both domains tick together in this harness (the missing domains become top-level clock ports)
        m.submodules.dut = d = self.dut
        io = self.io
        m.d.comb += [
            self.v["nondriving_never_drives"].eq((d.op_mode == 1) & (io.d_p.oe | io.d_n.oe)),
            self.v["pullup_follows_term_select"].eq(io.pullup.o != d.term_select),
            self.v["pulldown_follows_requests"].eq(io.pulldown.o != (d.dp_pulldown | d.dm_pulldown)),
            self.v["line_state"].eq(d.line_state != Cat(io.d_n.i, io.d_p.i)),
            self.c["drives_in_normal_mode"].eq((d.op_mode == 0) & io.d_p.oe),
            self.c["nondriving_with_tx_valid"].eq((d.op_mode == 1) & d.tx_valid),
            self.c["pulldown_requested"].eq(d.dp_pulldown & ~d.term_select & io.pulldown.o),
        ]
        return m


class TxLineHarness(Harness):
    """(b) transmit encoding: a UTMI producer (usb domain) hands N symbolic bytes to the real GatewarePHY; a line monitor
    (usb_io domain) decodes D+/D-: bit period of four 48 MHz cycles from the first driven bit, NRZI, bit-stuffing after six
    ones, SYNC, LSB-first bytes, SE0-SE0-J end of packet -- and compares every decoded byte with the byte handed over."""
    domains = ("usb", "usb_io")

    def __init__(self, nbytes=3, phase=0):
        super().__init__()
        from luna.gateware.interface.gateware_phy import GatewarePHY
        self.clocks = {"usb_io": (1, 0), "usb": (4, phase)}
        self.n = nbytes
        self.io = make_io()
        self.dut = GatewarePHY(io=self.io)
        self.data = [self.inp(f"byte{i}", 8, const=True) for i in range(nbytes)]
        self.count = self.inp("count", range(nbytes + 1).stop.bit_length(), const=True)   # bytes in the packet (1..n)
        self.start = self.inp("start", 1)                                                   # producer start request (free)
        names = ["sync", "byte_value", "stuffing", "eop", "byte_count", "se1", "oe_pair", "glitch", "ready_only_when_valid",
                 "accepted_once", "drives_only_for_packet"]
        self.v = {n: self.viol(n) for n in names}
        self.c = {n: self.cover(n) for n in ["packet_done", "stuffed_bit", "three_bytes", "stuff_at_byte_end", "ff_byte"]}
        self.a = {n: self.assume(n) for n in ["count_legal", "first_byte_is_pid"]}

    def elaborate(self, platform):
        m = Module()
        m.submodules.dut = d = self.dut
        io = self.io
        n = self.n
        m.d.comb += [d.op_mode.eq(0), d.xcvr_select.eq(1), d.term_select.eq(1), io.d_p.i.eq(1), io.d_n.i.eq(0),
                     self.a["count_legal"].eq((self.count >= 1) & (self.count <= n)),
                     # every USB packet starts with a PID byte (low nibble, complemented high nibble); with it the
                     # question whether the final 1 of SYNC counts towards the first run of ones is unobservable
                     self.a["first_byte_is_pid"].eq(self.data[0][0:4] == ~self.data[0][4:8])]
        # ---- UTMI producer (usb domain): one packet, bytes held until accepted
        idx = Signal(range(n + 1))
        sending = Signal()
        done = Signal()
        accepted = Signal(range(n + 2))
        cur = Signal(8)
        with m.Switch(idx):
            for i in range(n):
                with m.Case(i):
                    m.d.comb += cur.eq(self.data[i])
        m.d.comb += [d.tx_valid.eq(sending), d.tx_data.eq(cur)]
        with m.If(~sending & ~done & self.start):
            m.d.usb += sending.eq(1)
        with m.If(sending & d.tx_ready):
            m.d.usb += [idx.eq(idx + 1), accepted.eq(accepted + 1)]
            with m.If(idx + 1 == self.count):
                m.d.usb += [sending.eq(0), done.eq(1)]
        with m.If(~sending & d.tx_ready & (accepted != n + 1)):
            m.d.usb += accepted.eq(accepted + 1)
        # ---- line monitor (usb_io domain)
        lvl = Signal(2)
        oe = Signal()
        m.d.comb += [lvl.eq(Cat(io.d_n.o, io.d_p.o)), oe.eq(io.d_p.oe)]
        J, K, SE0 = 0b10, 0b01, 0b00
        prev_oe = Signal()
        cnt = Signal(2)
        first = Signal()          # first 48 MHz cycle of a bit
        m.d.usb_io += prev_oe.eq(oe)
        rising = oe & ~prev_oe
        m.d.comb += first.eq(rising | (oe & prev_oe & (cnt == 0)))
        with m.If(rising):
            m.d.usb_io += cnt.eq(1)
        with m.Else():
            m.d.usb_io += cnt.eq(cnt + 1)
        held = Signal(2)          # level sampled in the bit's first cycle
        prev_lvl = Signal(2, init=J)
        ones = Signal(3)
        bitpos = Signal(3)
        cur_byte = Signal(8)
        nbytes = Signal(range(n + 2))
        st = Signal(3)            # 0 idle, 1 sync, 2 data, 3 after first SE0, 4 after second SE0, 5 after J, 6 finished
        packets = Signal(2)
        stuffed_seen = Signal()
        stuff_at_end = Signal()
        exp_byte = Signal(8)
        with m.Switch(nbytes):
            for i in range(n):
                with m.Case(i):
                    m.d.comb += exp_byte.eq(self.data[i])
        bit = Signal()
        m.d.comb += bit.eq(lvl == prev_lvl)
        byte_done = Signal(8)
        m.d.comb += byte_done.eq(cur_byte | (bit << bitpos))
        with m.If(first):
            m.d.usb_io += held.eq(lvl)
            with m.If(rising):
                m.d.usb_io += packets.eq(Mux(packets == 3, 3, packets + 1))
            st_now = Signal(3)
            m.d.comb += st_now.eq(Mux(rising, 1, st))
            with m.If(lvl == 0b11):
                m.d.comb += self.v["se1"].eq(1)
            with m.Elif((st_now == 1) | (st_now == 2)):
                with m.If(rising):
                    m.d.usb_io += [st.eq(1)]
                with m.If(lvl == SE0):
                    # end of packet may only start on a byte boundary, in the data phase, with no stuff bit owed
                    m.d.comb += self.v["eop"].eq(~((st_now == 2) & (bitpos == 0) & (ones != 6)))
                    m.d.usb_io += st.eq(3)
                with m.Else():
                    m.d.usb_io += prev_lvl.eq(lvl)
                    with m.If(~rising & (ones == 6)):
                        # this bit must be a stuffed zero, and it is not data
                        m.d.comb += self.v["stuffing"].eq(bit)
                        m.d.usb_io += [ones.eq(0), stuffed_seen.eq(1)]
                        with m.If(bitpos == 0):
                            m.d.usb_io += stuff_at_end.eq(1)
                    with m.Else():
                        m.d.usb_io += ones.eq(Mux(bit, ones + 1, 0))
                        m.d.usb_io += [cur_byte.eq(byte_done), bitpos.eq(bitpos + 1)]
                        with m.If(bitpos == 7):
                            m.d.usb_io += cur_byte.eq(0)
                            with m.If(st_now == 1):
                                m.d.comb += self.v["sync"].eq(byte_done != 0x80)
                                m.d.usb_io += st.eq(2)
                            with m.Else():
                                m.d.comb += [self.v["byte_value"].eq((nbytes >= self.count) | (byte_done != exp_byte))]
                                m.d.usb_io += nbytes.eq(Mux(nbytes == n + 1, n + 1, nbytes + 1))
            with m.Elif(st_now == 3):
                m.d.comb += self.v["eop"].eq(lvl != SE0)
                m.d.usb_io += st.eq(4)
            with m.Elif(st_now == 4):
                m.d.comb += self.v["eop"].eq(lvl != J)
                m.d.usb_io += st.eq(5)
            with m.Elif(st_now == 5):
                m.d.comb += self.v["eop"].eq(1)          # still driving after SE0 SE0 J
        # the driver must be released one bit time after the J of the end of packet, and only then
        with m.If(~oe & prev_oe):
            m.d.comb += [self.v["eop"].eq(st != 5), self.v["byte_count"].eq(nbytes != self.count)]
            m.d.usb_io += [st.eq(6), ones.eq(0), bitpos.eq(0), prev_lvl.eq(J), nbytes.eq(0)]
        m.d.comb += [
            self.v["oe_pair"].eq(io.d_p.oe != io.d_n.oe),
            self.v["glitch"].eq(oe & prev_oe & ~first & (lvl != held)),
            self.v["drives_only_for_packet"].eq(rising & (packets != 0)),        # the producer sends exactly one packet
        ]
        # ---- UTMI side (usb domain)
        m.d.comb += [
            self.v["ready_only_when_valid"].eq(d.tx_ready & ~d.tx_valid),
            self.v["accepted_once"].eq(accepted > self.count),
            self.c["packet_done"].eq(st == 6),
            self.c["stuffed_bit"].eq((st == 6) & stuffed_seen),
            self.c["three_bytes"].eq((st == 6) & (self.count == 3)),
            self.c["stuff_at_byte_end"].eq((st == 6) & stuff_at_end & (self.count == 3)),
            self.c["ff_byte"].eq((st == 6) & (self.data[1] == 0xFF) & (self.count == 3)),
        ]
        return m

    def stimulus(self, rng, t, consts):
        d = dict(consts)
        d["start"] = int(t > 6)
        return d

    def const_stimulus(self, rng):
        out = {f"byte{i}": rng.choice([0xFF, 0xFC, 0x00, 0x7E, rng.randrange(256)]) for i in range(self.n)}
        out["byte0"] = rng.choice([0xC3, 0x4B, 0xD2, 0x5A, 0x1E, 0x0F])
        out["count"] = rng.randrange(1, self.n + 1)
        return out


class RxLineHarness(Harness):
    """(c) receive decoding: an independent reference encoder (usb_io domain) puts ONE full-speed packet of N symbolic bytes
    on D+/D- of the real GatewarePHY: idle J, SYNC, LSB-first bytes, NRZI (0 = transition), a stuffed 0 after six 1s (the last
    1 of SYNC counts), SE0 for two bit times, J.  A bit cell lasts four 48 MHz cycles; ONE cell of the packet (const index
    `dcell`, any cell from the first SYNC bit to the second SE0, or none) lasts three (`dlong` = 0) or five (`dlong` = 1)
    cycles: what a +-0.25 % line clock offset does to the edges as seen by the 48 MHz sampler over a packet of < 100 bits
    (accumulated drift < 1 sampler cycle -> at most one cell boundary slips by one sample).  The first edge comes at usb_io step
    BASE + sphase, sphase = 0..3 symbolic, i.e. every alignment to the 12 MHz usb clock (which ticks at steps = 0 mod 4).
    corrupt=True: the stuffed bit number `bad_stuff` of the packet is sent as a seventh 1 (no transition) instead of a 0.
    The monitor (usb domain = the UTMI side) sees rx_* only at usb clock edges."""
    domains = ("usb", "usb_io")
    BASE = 6
    IDLE, DATA, SE0A, SE0B, DONE = range(5)

    def __init__(self, nbytes=2, corrupt=False, deadline=24):
        super().__init__()
        from luna.gateware.interface.gateware_phy import GatewarePHY
        self.clocks = {"usb_io": (1, 0), "usb": (4, 0)}
        self.n = nbytes
        self.corrupt = corrupt
        self.deadline = deadline
        self.io = make_io()
        self.dut = GatewarePHY(io=self.io)
        self.data = [self.inp(f"byte{i}", 8, const=True) for i in range(nbytes)]
        self.sphase = self.inp("sphase", 2, const=True)      # first edge at step BASE + sphase
        self.dcell = self.inp("dcell", 6, const=True)        # index of the one cell that is not 4 cycles long (>= #cells: none)
        self.dlong = self.inp("dlong", 1, const=True)        # that cell lasts 5 (1) or 3 (0) cycles
        if corrupt:
            self.bad = self.inp("bad_stuff", 2, const=True)  # which stuffed bit of the packet becomes a seventh 1
        names = ["byte_value", "byte_count", "valid_outside_active", "active_before_packet", "active_twice",
                 "active_falls_before_eop", "delivered_by_deadline", "false_error", "stuff_error_reported"]
        self.v = {n: self.viol(n) for n in names}
        self.c = {n: self.cover(n) for n in ["delivered", "stuffed_bit", "stuff_at_packet_end", "ff_byte", "short_cell",
                                             "long_cell", "stuff_error_reported", "deadline_worst_case"]}
        self.a = {n: self.assume(n) for n in ["first_byte_is_pid"]}

    def elaborate(self, platform):
        m = Module()
        m.submodules.dut = d = self.dut
        io = self.io
        n = self.n
        IDLE, DATA, SE0A, SE0B, DONE = self.IDLE, self.DATA, self.SE0A, self.SE0B, self.DONE
        m.d.comb += [d.op_mode.eq(0), d.xcvr_select.eq(1), d.term_select.eq(1), d.tx_valid.eq(0), d.tx_data.eq(0),
                     self.a["first_byte_is_pid"].eq(self.data[0][0:4] == ~self.data[0][4:8])]
        # ---- reference encoder (usb_io domain)
        tcnt = Signal(range(self.BASE + 8))
        st = Signal(3)
        cyc = Signal(3)                 # cycles left in the current cell (including this one)
        cell = Signal(7)                # index of the NEXT cell
        nbyte = Signal(range(n + 3))    # position of the next data bit; byte 0 is SYNC (0x80), bytes 1..n the packet
        nbit = Signal(3)
        ones = Signal(3)                # consecutive 1s sent, including the current cell
        level = Signal(init=1)          # 1 = J (D+ high), 0 = K
        se0 = Signal()
        stuffs = Signal(3)              # stuffed bits sent so far
        stuffed_seen = Signal()
        stuff_at_end = Signal()
        corrupted = Signal()
        used_short = Signal()
        used_long = Signal()
        fin = Signal(range(self.deadline + 2))
        m.d.comb += [io.d_p.i.eq(level & ~se0), io.d_n.i.eq(~level & ~se0)]
        m.d.usb_io += tcnt.eq(Mux(tcnt == self.BASE + 7, tcnt, tcnt + 1))
        stream_bit = Signal()
        with m.Switch(nbyte):
            with m.Case(0):
                m.d.comb += stream_bit.eq(nbit == 7)                      # SYNC = 0000 0001 on the wire (KJKJKJKK)
            for i in range(n):
                with m.Case(i + 1):
                    m.d.comb += stream_bit.eq(self.data[i].bit_select(nbit, 1))
        advance = Signal()
        m.d.comb += advance.eq(((st == IDLE) & (tcnt == self.BASE + self.sphase)) |
                               (((st == DATA) | (st == SE0A) | (st == SE0B)) & (cyc == 1)))
        bad_now = Signal()
        if self.corrupt:
            m.d.comb += bad_now.eq(stuffs == self.bad)
        with m.If(advance):
            odd = Signal()
            m.d.comb += odd.eq(cell == self.dcell)
            m.d.usb_io += cell.eq(cell + 1)
            with m.If((st == IDLE) | (st == DATA)):
                m.d.usb_io += [st.eq(DATA), cyc.eq(Mux(odd, Mux(self.dlong, 5, 3), 4))]
                with m.If(odd):
                    m.d.usb_io += [used_short.eq(~self.dlong), used_long.eq(self.dlong)]
                with m.If(ones == 6):
                    # a stuffed 0 is due (also after the last data bit); the corrupting encoder sends a seventh 1 instead
                    m.d.usb_io += [ones.eq(0), stuffs.eq(stuffs + 1)]
                    with m.If(bad_now):
                        m.d.usb_io += corrupted.eq(1)
                    with m.Else():
                        m.d.usb_io += [level.eq(~level), stuffed_seen.eq(1)]
                        with m.If(nbyte == n + 1):
                            m.d.usb_io += stuff_at_end.eq(1)
                with m.Elif(nbyte == n + 1):
                    m.d.usb_io += [st.eq(SE0A), se0.eq(1)]
                with m.Else():
                    m.d.usb_io += [level.eq(Mux(stream_bit, level, ~level)), ones.eq(Mux(stream_bit, ones + 1, 0)),
                                   nbit.eq(nbit + 1)]
                    with m.If(nbit == 7):
                        m.d.usb_io += nbyte.eq(nbyte + 1)
            with m.Elif(st == SE0A):
                m.d.usb_io += [st.eq(SE0B), cyc.eq(Mux(odd, Mux(self.dlong, 5, 3), 4))]
                with m.If(odd):
                    m.d.usb_io += [used_short.eq(~self.dlong), used_long.eq(self.dlong)]
            with m.Else():
                m.d.usb_io += [st.eq(DONE), se0.eq(0), level.eq(1)]
        with m.Else():
            m.d.usb_io += cyc.eq(cyc - 1)
        with m.If((st == DONE) & (fin != self.deadline + 1)):
            m.d.usb_io += fin.eq(fin + 1)
        # ---- UTMI monitor (usb domain: everything is seen at usb clock edges only)
        got = Signal(range(n + 2))
        prev_active = Signal()
        rises = Signal(2)
        falls = Signal(2)
        err_in_pkt = Signal()
        err_seen = Signal()
        exp = Signal(8)
        with m.Switch(got):
            for i in range(n):
                with m.Case(i):
                    m.d.comb += exp.eq(self.data[i])
        rise = d.rx_active & ~prev_active
        fall = ~d.rx_active & prev_active
        m.d.usb += prev_active.eq(d.rx_active)
        with m.If(d.rx_valid & (got != n + 1)):
            m.d.usb += got.eq(got + 1)
        with m.If(rise & (rises != 3)):
            m.d.usb += rises.eq(rises + 1)
        with m.If(fall & (falls != 3)):
            m.d.usb += falls.eq(falls + 1)
        with m.If(d.rx_error):
            m.d.usb += err_seen.eq(1)
            with m.If(d.rx_active):
                m.d.usb += err_in_pkt.eq(1)
        delivered = Signal()
        at_deadline = Signal()
        m.d.comb += [
            delivered.eq((falls + fall == 1) & (rises == 1) & (got == n) & ~d.rx_active),
            at_deadline.eq(fin == self.deadline),
            self.v["byte_value"].eq(d.rx_valid & ((got >= n) | (d.rx_data != exp))),
            self.v["byte_count"].eq(fall & (got != n)),
            self.v["valid_outside_active"].eq(d.rx_valid & ~d.rx_active),
            self.v["active_before_packet"].eq(d.rx_active & (st == IDLE)),
            self.v["active_twice"].eq(rise & (rises != 0)),
            self.v["active_falls_before_eop"].eq(fall & (st == DATA)),
            self.v["delivered_by_deadline"].eq(at_deadline & ~delivered),
            self.v["false_error"].eq(err_in_pkt),
            self.v["stuff_error_reported"].eq(at_deadline & corrupted & ~err_seen),
            self.c["delivered"].eq(delivered),
            self.c["stuffed_bit"].eq(delivered & stuffed_seen),
            self.c["stuff_at_packet_end"].eq(delivered & stuff_at_end),
            self.c["ff_byte"].eq(delivered & (self.data[n - 1] == 0xFF)),
            self.c["short_cell"].eq(delivered & used_short),
            self.c["long_cell"].eq(delivered & used_long),
            self.c["stuff_error_reported"].eq(corrupted & err_seen),
            # the longest packet the bound admits (every possible stuffed bit, a five-cycle cell, the latest start) still
            # reaches the step in which delivered_by_deadline / stuff_error_reported are evaluated
            self.c["deadline_worst_case"].eq(at_deadline & (stuffs == self.max_stuffs(n)) & used_long & (self.sphase == 3)),
        ]
        self.obs("env_st", st)
        self.obs("env_cell", cell)
        line = Signal(2)
        m.d.comb += line.eq(Cat(io.d_n.i, io.d_p.i))
        self.obs("line", line)
        self.obs("rx_active", d.rx_active)
        self.obs("rx_valid", d.rx_valid)
        self.obs("rx_data", d.rx_data)
        self.obs("rx_error", d.rx_error)
        self.obs("got", got)
        return m

    @staticmethod
    def max_stuffs(n):
        # a PID ends in at most four 1s (its high nibble is the complement of the low one); then 8 (n - 1) data bits
        return (4 + 8 * (n - 1)) // 6

    @classmethod
    def depth(cls, n, deadline=24):
        cells = 8 + 8 * n + cls.max_stuffs(n) + 2
        return cls.BASE + 3 + 1 + 4 * cells + 1 + deadline + 3

    def stimulus(self, rng, t, consts):
        return dict(consts)

    def const_stimulus(self, rng):
        out = {f"byte{i}": rng.choice([0xFF, 0xFC, 0x00, 0x7E, 0x3F, rng.randrange(256)]) for i in range(self.n)}
        out["byte0"] = rng.choice([0xC3, 0x4B, 0xD2, 0x5A, 0x1E, 0x0F, 0xE1, 0x2D])
        out["sphase"] = rng.randrange(4)
        out["dcell"] = rng.randrange(64)
        out["dlong"] = rng.randrange(2)
        if self.corrupt:
            out["bad_stuff"] = rng.randrange(2)
        return out


class CtrlHarness4(CtrlHarness):
    """same harness with the real 4:1 clock ratio (usb ticks on every 4th usb_io edge)"""
    clocks = {"usb_io": (1, 0), "usb": (4, 0)}


def queries(tier):
    f = lambda: CtrlHarness()
    K = 12 if tier == "quick" else 40
    return [Query("bmc_ctrl", f, K, timeout=900, desc="control clauses, all inputs free per cycle"),
            Query("cosim_ctrl", f, 0, kind="cosim", cosim_cycles=200),
            Query("cosim_ctrl_4to1", lambda: CtrlHarness4(), 0, kind="cosim", cosim_cycles=400),
            Query("bmc_ctrl_4to1", lambda: CtrlHarness4(), 24, timeout=900, covers=[],
                  desc="control clauses with the real 4:1 usb_io:usb clock ratio")] + tx_queries(tier) + rx_queries(tier)


def tx_queries(tier):
    qs = []
    phases = [0] if tier == "quick" else [0, 1, 2, 3]
    for ph in phases:
        f = (lambda ph=ph: TxLineHarness(4, ph))
        hints = {"*": {"byte0": 0xC3}, "stuffed_bit": {"byte0": 0xC3, "byte1": 0xFF, "count": 2},
                 "stuff_at_byte_end": {"byte0": 0xC3, "byte1": 0xFC, "count": 3}, "ff_byte": {"byte1": 0xFF, "count": 3},
                 "three_bytes": {"count": 3}}
        for hd in hints.values():
            hd.setdefault("start", lambda t: 1)
        qs.append(Query(f"bmc_tx_phase{ph}", f, 226, timeout=1500, hints=hints, split=False, layer={"start": lambda t: 1},
                        desc=f"transmit encoding: 1..4 symbolic bytes, usb clock phase {ph} of 4 relative to the bit strobe, "
                             "producer starts at once"))
        qs.append(Query(f"cosim_tx_phase{ph}", f, 0, kind="cosim", cosim_cycles=260))
    return qs


RX_ASSERTS = ["byte_value", "byte_count", "valid_outside_active", "active_before_packet", "active_twice",
              "active_falls_before_eop", "delivered_by_deadline", "false_error"]
RX_COVERS = ["delivered", "stuffed_bit", "stuff_at_packet_end", "ff_byte", "short_cell", "long_cell", "deadline_worst_case"]


def rx_queries(tier):
    """Cost facts (measured, 4 jobs on a loaded machine): a query with EVERYTHING symbolic (bytes x start phase x odd cell) did
    not decide one assertion in 25 CPU minutes: the recovered-clock control of the PHY depends on the data, nothing folds and
    the CNF has 2.3 M clauses.  Symbolic bytes with concrete timing: ~220 s per assertion; concrete bytes with a symbolic odd
    cell: ~150 s per assertion; everything concrete: ~1 s.  Hence the layers below."""
    n = 2
    K = RxLineHarness.depth(n)
    f = lambda: RxLineHarness(n, False)
    fb = lambda: RxLineHarness(n, True)
    NONE = 63
    qs = []
    worst = {"byte0": 0xF0, "byte1": 0xFF, "sphase": 3, "dlong": 1, "dcell": 3}
    # cover witnesses are fully scripted (an unguided witness search over bytes x timing takes minutes)
    ideal = {"sphase": 0, "dlong": 0, "dcell": NONE}
    hints = {"delivered": dict(ideal, byte0=0xC3, byte1=0x5A), "stuffed_bit": dict(ideal, byte0=0xC3, byte1=0xFF),
             "ff_byte": dict(ideal, byte0=0xC3, byte1=0xFF, sphase=1), "stuff_at_packet_end": dict(ideal, byte0=0xD2, byte1=0xFC),
             "short_cell": {"byte0": 0xC3, "byte1": 0xFF, "sphase": 2, "dlong": 0, "dcell": 19},
             "long_cell": {"byte0": 0xC3, "byte1": 0xFF, "sphase": 3, "dlong": 1, "dcell": 19}, "deadline_worst_case": worst}
    qs.append(Query("bmc_rx_covers", f, K, asserts=[], covers=RX_COVERS, hints=hints, timeout=900, split=False,
                    desc="receive decoding, reachability twins (everything symbolic)"))
    qs.append(Query("bmc_rx_badstuff_covers", fb, K, asserts=[], covers=["stuff_error_reported", "deadline_worst_case"],
                    hints={"stuff_error_reported": dict(ideal, byte0=0xC3, byte1=0xFF, bad_stuff=0, sphase=1),
                           "deadline_worst_case": dict(worst, bad_stuff=1)}, timeout=900, split=False,
                    desc="bit-stuffing violation, reachability twins"))
    qs.append(Query("cosim_rx", f, 0, kind="cosim", cosim_cycles=K))
    qs.append(Query("cosim_rx_badstuff", fb, 0, kind="cosim", cosim_cycles=K))
    # layer 1: every packet of a PID and one data byte, ideal 4-cycle cells, one start phase per query
    HEAVY = ["byte_value", "byte_count", "delivered_by_deadline", "false_error"]     # ~200 s each; the others follow the same cone
    for sp in ([0] if tier == "quick" else [0, 1, 2, 3]):
        qs.append(Query(f"bmc_rx_data_sp{sp}", f, K, asserts=HEAVY[:2] if tier == "quick" else HEAVY,
                        covers=[], layer={"sphase": sp, "dcell": NONE, "dlong": 0}, timeout=2400, tactic="portfolio",
                        required=(sp == 0),
                        desc=f"layer: ALL 2-byte packets (PID + data byte), start phase {sp}, every cell 4 cycles"))
    # layer 2: concrete packets (stuffing in the packet / at its end), one 3- or 5-cycle cell: scripted cubes (cheap, both tiers)
    pkts = {"c3ff": {"byte0": 0xC3, "byte1": 0xFF}, "d2fc": {"byte0": 0xD2, "byte1": 0xFC}}
    for pn, cells in (("c3ff", [12, 19]), ("d2fc", [23, 26])):
        for sp in range(4):
            for dl in (0, 1):
                for dc in cells:
                    qs.append(Query(f"bmc_rx_drift_{pn}_sp{sp}_{'long' if dl else 'short'}{dc}", f, K, asserts=RX_ASSERTS,
                                    covers=[], layer=dict(pkts[pn], sphase=sp, dlong=dl, dcell=dc), timeout=900, split=False,
                                    desc=f"layer: packet {pn}, start phase {sp}, cell {dc} lasts {5 if dl else 3} cycles"))
    if tier != "quick":
        # ... and with the odd cell ANYWHERE (symbolic index; measured ~150 s per assertion); best effort
        for sp in range(4):
            for dl in (0, 1):
                qs.append(Query(f"bmc_rx_drift_c3ff_sp{sp}_{'long' if dl else 'short'}_any", f, K,
                                asserts=["byte_value", "delivered_by_deadline", "false_error"], covers=[],
                                layer=dict(pkts["c3ff"], sphase=sp, dlong=dl), timeout=2400, tactic="portfolio", required=False,
                                desc=f"layer: packet c3ff, start phase {sp}, ANY one cell lasts {5 if dl else 3} cycles"))
    # layer 3: a stuffed bit replaced by a seventh 1 (in the packet / as its last bit)
    for pn in pkts:
        for sp in range(4):
            qs.append(Query(f"bmc_rx_badstuff_{pn}_sp{sp}", fb, K, asserts=["stuff_error_reported"], covers=[],
                            layer=dict(pkts[pn], sphase=sp, dlong=0, dcell=NONE, bad_stuff=0), timeout=900, split=False,
                            desc=f"layer: packet {pn} with its first stuffed bit sent as a seventh 1, start phase {sp}"))
    if tier != "quick":
        for sp in range(4):
            qs.append(Query(f"bmc_rx_badstuff_data_sp{sp}", fb, K, asserts=["stuff_error_reported"], covers=[],
                            layer={"sphase": sp, "dlong": 0, "dcell": NONE}, timeout=2400, tactic="portfolio", required=False,
                            desc=f"layer: ALL 2-byte packets, any stuffed bit sent as a seventh 1, start phase {sp}, 4-cycle cells"))
    return qs
