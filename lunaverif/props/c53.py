"""C53 -- HyperRAM transactions use the correct command and never contend the bus.

DUT: luna.gateware.interface.psram.HyperRAMInterface(phy=HyperBusPHY())  -- the generic 2:1 PHY record, no ECP5
primitives.  One sync cycle with clk_en=1 while cs=1 is one HyperBus clock (16 DQ bits, 2 RWDS bits).

Oracle (HyperBus protocol + the class docstring, no FSM knowledge): a transaction is accepted in a cycle with
`idle & start_transfer`; address/register_space/perform_write/single_page of that cycle define it.  Clocks are
counted from there (clock k = k-th cycle with cs & clk_en).
  ca_word        clocks 0,1,2 carry CA[47:32], CA[31:16], CA[15:0] with DQ driven, where
                 CA = {R/W#=read, AS=register space, burst=linear(not single_page), address[31:3], 13'b0, address[2:0]}
  cs_hold        CS stays asserted from the first clock up to and including the cycle of the last data word
  cs_release     after the end of a transaction CS is de-asserted within 2 cycles
  latency        memory writes and all reads wait the latency count: the first write word is on the bus exactly at
                 clock 2+14 (latency counted from the third CA clock, 2 x 7 clocks: the class's fixed-latency mode),
                 register writes have zero latency (first word at clock 3); read data is never accepted
                 (`read_ready`) before clock 15
  dq_drive       DQ is driven exactly in the CA clocks and in the cycles that carry a write word -- never during the
                 latency period, never in read transactions after the CA, never when idle
  rwds_drive     RWDS is driven only in cycles that carry a memory-space write word (never during CA/latency/reads,
                 where the memory drives it; never for register writes)
  write_clocked  every write word is clocked (clk_en) with CS asserted; write_ready only in write transactions,
                 read_ready only in read transactions

Finding on the unchanged tree (scenario predicate kf_request_right_after_register_write): register writes return to
IDLE without passing RECOVERY; if start_transfer is high in that first idle cycle the next transaction starts with CS
still asserted (CS is never released between the two transactions).
"""
from amaranth import *
from ..harness import Harness
from ..engine import Query
from ..lib.periph import VS, in_vsync

PROP = "C53"

# FINDINGS
#   fixed in /repo by 66a47ca "fix: release HyperRAM chip-select after a register write":
#     a register write returned from WRITE_DATA straight to IDLE (no RECOVERY); with start_transfer high in that first
#     idle cycle the next transaction was started with CS still asserted, i.e. CS was never released between the two
#     transactions.  Caught by cs_release (bmc_free_command).
#   The scenario predicate kf_request_right_after_register_write describes that finding; no entry is open.
#   Not in scope (not checked): HyperRAMDQSInterface contains the same register-write shortcut.
ENCODED = ["luna/gateware/interface/psram.py: HyperRAMInterface.elaborate (ca layout, IDLE/LATCH_RWDS/SHIFT_COMMANDx/"
           "HANDLE_LATENCY/READ_DATA/WRITE_DATA/RECOVERY FSM, registered phy outputs)"]
LAT = 14          # 2 x 7 clocks: the fixed (always doubled) latency the class documents
ASSUMPTIONS = [
    "controller inputs (start_transfer, address, register_space, perform_write, single_page, final_word, write_data) "
    "are free in every cycle; a request counts when start_transfer is high while `idle` is high",
    "memory side (phy.rwds.i, phy.dq.i) is free in every cycle (any RWDS behaviour)",
    "the latency count is 2 x 7 = 14 clocks, counted from the third command-address clock (HyperBus), i.e. the "
    "first data clock is clock 16; the acceptance window for read data may open one clock earlier (PHY input "
    "pipeline alignment is outside this class)",
    "a transaction ends with the word for which final_word is set (register writes: after their single word)",
]
BOUNDS = "BMC from reset, K covers one complete memory transaction plus the start of the next (quick) / two complete " \
         "transactions (thorough); all 32 address bits, all operation types, final_word free per cycle"
OUTSIDE = "HyperRAMPHY / ECP5 primitives, HyperRAMDQSInterface; correctness of read data re-alignment; values of write " \
          "data; refresh/recovery timing (tRWR), CS maximum low time"


class HyperRamHarness(Harness):
    domains = (VS,)

    def __init__(self):
        super().__init__()
        from luna.gateware.interface.psram import HyperBusPHY, HyperRAMInterface
        self.phy = phy = HyperBusPHY()
        self.dut = dut = HyperRAMInterface(phy=phy)
        for n in ("address", "register_space", "perform_write", "single_page", "start_transfer", "final_word",
                  "write_data"):
            self.inp(n, signal=getattr(dut, n))
        self.inp("rwds_i", signal=phy.rwds.i)
        self.inp("dq_i", signal=phy.dq.i)
        names = ("ca_word", "cs_hold", "cs_release", "latency", "dq_drive", "rwds_drive", "write_clocked")
        self.v = {n: self.viol(n) for n in names}
        self.k_merge = self.kf("request_right_after_register_write")
        cov = ("mem_write_2words", "mem_read_done", "reg_write_done", "reg_read_done", "second_transaction",
               "ca_addr_bits", "read_ignored_in_latency")
        self.c = {n: self.cover(n) for n in cov}

    def elaborate(self, platform):
        m = Module()
        dut, phy = self.dut, self.phy
        m.submodules.dut = in_vsync(dut)
        sync = m.d[VS]
        cs, clk_en = phy.cs, phy.clk_en
        dq_e, dq_o, rwds_e = phy.dq.e, phy.dq.o, phy.rwds.e

        accept = Signal(name="g_accept")
        m.d.comb += accept.eq(dut.idle & dut.start_transfer)
        in_txn = Signal(name="g_in_txn")
        g_addr = Signal(32, name="g_addr")
        g_reg = Signal(name="g_reg")
        g_write = Signal(name="g_write")
        g_single = Signal(name="g_single")
        clk_idx = Signal(5, name="g_clk_idx")           # clocks issued so far in this transaction (saturating)
        first_data = Signal(name="g_first_data")        # a write word has been on the bus already
        nwords = Signal(2, name="g_nwords")
        ntxn = Signal(2, name="g_ntxn")
        for n, s in dict(in_txn=in_txn, clk_idx=clk_idx, g_write=g_write, g_reg=g_reg, nwords=nwords).items():
            self.obs(n, s)
        self.obs("cs", cs), self.obs("clk_en", clk_en), self.obs("dq_e", dq_e), self.obs("rwds_e", rwds_e)
        self.obs("dq_o", dq_o), self.obs("idle", dut.idle)

        clock = Signal(name="g_clock")                  # this cycle is a HyperBus clock
        m.d.comb += clock.eq(cs & clk_en)

        ca = Signal(48, name="g_ca")
        m.d.comb += ca.eq(Cat(g_addr[0:3], Const(0, 13), g_addr[3:32], ~g_single, g_reg, ~g_write))
        ca_words = [ca[32:48], ca[16:32], ca[0:16]]

        # end of transaction event (interface level)
        end_ev = Signal(name="g_end_ev")
        m.d.comb += end_ev.eq(in_txn & Mux(g_write, dut.write_ready & (g_reg | dut.final_word),
                                           dut.read_ready & dut.final_word))
        p_end = Signal(name="g_p_end")
        ended = Signal(name="g_ended")                  # the last word's cycle is over
        rel_pending = Signal(name="g_rel_pending")
        rel_age = Signal(2, name="g_rel_age")
        p_write_ready = Signal(name="g_p_write_ready")  # this cycle carries a write word
        p_wr_mem = Signal(name="g_p_wr_mem")
        sync += [p_end.eq(end_ev), p_write_ready.eq(dut.write_ready), p_wr_mem.eq(dut.write_ready & ~g_reg)]

        with m.If(accept):
            sync += [in_txn.eq(1), g_addr.eq(dut.address), g_reg.eq(dut.register_space),
                     g_write.eq(dut.perform_write), g_single.eq(dut.single_page),
                     clk_idx.eq(0), first_data.eq(0), ended.eq(0), nwords.eq(0)]
            with m.If(ntxn != 3):
                sync += ntxn.eq(ntxn + 1)
        with m.Else():
            with m.If(clock & (clk_idx != 31)):
                sync += clk_idx.eq(clk_idx + 1)
            with m.If(p_write_ready):
                sync += first_data.eq(1)
                with m.If(nwords != 3):
                    sync += nwords.eq(nwords + 1)
            with m.If(p_end):
                sync += [ended.eq(1), in_txn.eq(0)]
        # CS release tracking is independent of a new request
        with m.If(p_end):
            sync += [rel_pending.eq(1), rel_age.eq(0)]
        with m.Elif(rel_pending):
            with m.If(~cs):
                sync += rel_pending.eq(0)
            with m.Elif(rel_age != 3):
                sync += rel_age.eq(rel_age + 1)

        # scenario predicate of the recorded finding: a request is accepted in the very cycle that carries the last
        # word of the previous transaction (only possible after a register write, which skips RECOVERY)
        merged = Signal(name="g_merged")
        with m.If(accept & p_end):
            sync += merged.eq(1)
        with m.Elif(~cs):
            sync += merged.eq(0)
        m.d.comb += self.k_merge.eq(merged)

        is_ca = Signal(name="g_is_ca")
        m.d.comb += is_ca.eq(in_txn & clock & (clk_idx < 3))
        exp_word = Signal(16, name="g_exp_word")
        for k in range(3):
            with m.If(clk_idx == k):
                m.d.comb += exp_word.eq(ca_words[k])
        wstart = Signal(5, name="g_wstart")
        m.d.comb += wstart.eq(Mux(g_reg, 3, 2 + LAT))

        m.d.comb += [
            self.v["ca_word"].eq(is_ca & (~dq_e | (dq_o != exp_word))),
            # CS must stay asserted once clocks have started, until the last word's cycle (p_end) inclusive
            self.v["cs_hold"].eq((in_txn | p_end) & (clk_idx != 0) & ~ended & ~cs),
            self.v["cs_release"].eq(rel_pending & cs & (rel_age >= 1)),
            self.v["latency"].eq((p_write_ready & ~first_data & (clk_idx != wstart)) |
                                 (dut.read_ready & (clk_idx < 2 + LAT - 1))),
            self.v["dq_drive"].eq(dq_e != (is_ca | p_write_ready)),
            self.v["rwds_drive"].eq(rwds_e != p_wr_mem),
            self.v["write_clocked"].eq((p_write_ready & ~clock) |
                                       (dut.write_ready & ~(in_txn & g_write)) |
                                       (dut.read_ready & ~(in_txn & ~g_write))),
        ]
        seen_early_rwds = Signal(name="g_seen_early_rwds")
        with m.If(accept):
            sync += seen_early_rwds.eq(0)
        with m.Elif(in_txn & ~g_write & (clk_idx >= 3) & (clk_idx < 10) & (phy.rwds.i == 0b10)):
            sync += seen_early_rwds.eq(1)
        m.d.comb += [
            self.c["mem_write_2words"].eq(p_end & g_write & ~g_reg & (nwords == 1) & p_write_ready),
            self.c["mem_read_done"].eq(end_ev & ~g_write & ~g_reg),
            self.c["reg_write_done"].eq(p_end & g_write & g_reg),
            self.c["reg_read_done"].eq(end_ev & ~g_write & g_reg),
            self.c["second_transaction"].eq(is_ca & (ntxn == 2) & (clk_idx == 2)),
            self.c["ca_addr_bits"].eq(is_ca & (clk_idx == 2) & (g_addr == 0x9234_5677) & g_single),
            self.c["read_ignored_in_latency"].eq(end_ev & ~g_write & seen_early_rwds),
        ]
        return m

    def stimulus(self, rng, t, consts):
        return dict(address=rng.getrandbits(32), register_space=int(rng.random() < 0.3),
                    perform_write=rng.getrandbits(1), single_page=rng.getrandbits(1),
                    start_transfer=int(rng.random() < 0.2), final_word=int(rng.random() < 0.3),
                    write_data=rng.getrandbits(16), rwds_i=rng.choice([0, 0, 2, 2, 1, 3]), dq_i=rng.getrandbits(16))


def queries(tier):
    quick = tier == "quick"
    f = lambda: HyperRamHarness()
    K = 32 if quick else 52
    desc = "everything free every cycle: controller requests, final_word, memory RWDS/DQ"
    kw = dict(timeout=900, split=False)
    qs = [Query("bmc_free_command", f, K, asserts=["ca_word", "cs_hold", "cs_release", "latency"], covers=[],
                desc=desc + " [command word / chip select / latency family]", **kw),
          Query("bmc_free_drive", f, K, asserts=["dq_drive", "rwds_drive", "write_clocked"], covers=[],
                desc=desc + " [bus drive enables family]", **kw),
          Query("cover_free", f, K, asserts=[],
                covers=["mem_write_2words", "mem_read_done", "reg_write_done", "reg_read_done", "ca_addr_bits",
                        "read_ignored_in_latency"] + ([] if quick else ["second_transaction"]),
                desc=desc + " [witnesses]", **kw),
          Query("cover_second", f, 34, asserts=[], covers=["second_transaction"], split=False,
                hints={"second_transaction": {"register_space": 1, "perform_write": 1}},
                desc="witness: a second transaction's command phase (after a register write)"),
          Query("cosim", f, 0, kind="cosim", cosim_cycles=200 if quick else 3000)]
    return qs
