"""C15 -- isochronous IN endpoints send exactly the requested bytes per frame.

DUT: luna.gateware.usb.usb2.endpoints.isochronous_stream_in.USBIsochronousStreamInEndpoint (real class).
Environment: interface-level host (SOF strobes, tokens, response strobes), free `bytes_in_frame`, free tx.ready,
free producer stream.
Oracle: a per-frame ghost of the bytes still owed (latched from bytes_in_frame at the SOF) from which the length, the
DATAx label and the termination of every packet follow ([USB 2.0 5.9.2]: N packets are labelled DATA(N-1) .. DATA0).
"""
from amaranth import *
from ..harness import Harness
from ..engine import Query

PROP = "C15"
ENCODED = ["luna/gateware/usb/usb2/endpoints/isochronous_stream_in.py: USBIsochronousStreamInEndpoint.elaborate "
           "(frame latch, next_data_pid, bytes_left_in_frame/packet, SEND_DATA / SEND_ZLP sequencing)"]
ASSUMPTIONS = [
    "interface-level host: SOF (new_frame) and token events only while the endpoint is not transmitting and no "
    "response strobe is outstanding; tokenizer.ready_for_response once per token, >= 1 cycle after it; "
    "foreign-address tokens only zero the pid",
    "bytes_in_frame <= 3 * max_packet_size in the new_frame cycle (free otherwise)",
    "tx.ready free every cycle; a zero-length packet is the one-cycle valid&last&~first strobe and needs no ready",
    "producer stream: valid/payload free, held stable while valid and not ready (amaranth.lib.stream contract)",
    "before the first SOF the frame is empty (bytes owed = 0)",
]
BOUNDS = "BMC from reset; max_packet_size 2 (quick), 1..3 (thorough); all schedules up to K cycles (a 3-packet " \
         "frame plus the start of the next frame)"
OUTSIDE = "the DATAx label of surplus zero-length packets sent after a frame's data is exhausted (the statement " \
          "does not fix it; the DUT's 2-bit label wraps to 3 there); SOF/token arriving mid-transmission; K"

EP = 1
PID_IN = 0x9


class IsoInHarness(Harness):
    domains = ("usb",)

    def __init__(self, mps=2):
        super().__init__()
        from luna.gateware.usb.usb2.endpoints.isochronous_stream_in import USBIsochronousStreamInEndpoint
        self.mps = mps
        self.dut = USBIsochronousStreamInEndpoint(endpoint_number=EP, max_packet_size=mps)
        i = self.inp
        self.tok_go, self.tok_pid, self.tok_ep = i("tok_go"), i("tok_pid", 4), i("tok_ep", 4)
        self.rfr_go, self.sof_go = i("rfr_go"), i("sof_go")
        self.bif = i("bif", 4)
        self.tx_ready = i("tx_ready", signal=self.dut.interface.tx.ready)
        self.s_valid_req, self.s_payload_in = i("s_valid_req"), i("s_payload_in", 8)
        V = ("zlp_expected", "data_expected", "length", "first_mark", "payload", "consume", "pid", "unrequested",
             "gap")
        self.v = {n: self.viol(n) for n in V}
        C = ("frame3_done", "frame2_done", "short_tail", "zlp_empty_frame", "zlp_after_data", "zero_fill",
             "stream_byte", "stalled_byte", "pid2", "pid1", "second_frame_packet", "refetch_less")
        self.c = {n: self.cover(n) for n in C}
        self.a_bif = self.assume("bif_legal")

    def stimulus(self, rng, t, consts):
        r = rng.random
        return dict(tok_go=int(r() < 0.5), tok_pid=rng.choice((PID_IN, PID_IN, PID_IN, 1, 0)),
                    tok_ep=EP if r() < 0.85 else rng.getrandbits(4), rfr_go=int(r() < 0.6), sof_go=int(r() < 0.15),
                    bif=rng.randrange(0, 3 * self.mps + 1), tx_ready=int(r() < 0.6), s_valid_req=int(r() < 0.6),
                    s_payload_in=rng.getrandbits(8))

    def elaborate(self, platform):
        m = Module()
        m.submodules.dut = dut = self.dut
        mps = self.mps
        itf, tk, tx, st = dut.interface, dut.interface.tokenizer, dut.interface.tx, dut.stream
        v, c = self.v, self.c

        # ---- host
        pid_r, ep_r = Signal(4, name="h_pid_r"), Signal(4, name="h_ep_r")
        rfr_pending = Signal(name="h_rfr_pending")
        busy = Signal(name="h_busy")                     # the endpoint was asked for a packet and has not finished it
        token, rfr, sof, data_req = (Signal(name=f"h_{n}") for n in ("token", "rfr", "sof", "data_req"))
        pid, ep = Signal(4, name="h_pid"), Signal(4, name="h_ep")
        m.d.comb += [
            token.eq(self.tok_go & ~busy & ~rfr_pending),
            pid.eq(Mux(token, self.tok_pid, pid_r)),
            ep.eq(Mux(token & (self.tok_pid != 0), self.tok_ep, ep_r)),
            rfr.eq(self.rfr_go & rfr_pending),
            sof.eq(self.sof_go & ~busy & ~rfr_pending & ~token),
            data_req.eq(rfr & (pid == PID_IN) & (ep == EP)),
            tk.pid.eq(pid), tk.endpoint.eq(ep), tk.new_token.eq(token & (self.tok_pid != 0)),
            tk.ready_for_response.eq(rfr), tk.new_frame.eq(sof),
            tk.is_in.eq(pid == PID_IN), tk.is_out.eq(pid == 0x1), tk.is_setup.eq(pid == 0xD), tk.is_ping.eq(pid == 0x4),
            dut.bytes_in_frame.eq(self.bif),
            self.a_bif.eq(~sof | (self.bif <= 3 * mps)),
        ]
        with m.If(token):
            m.d.usb += [pid_r.eq(pid), ep_r.eq(ep), rfr_pending.eq(self.tok_pid != 0)]
        with m.If(rfr):
            m.d.usb += rfr_pending.eq(0)
        # producer stream with the hold rule
        s_hold = Signal(name="s_hold")
        s_pay_r = Signal(8, name="s_pay_r")
        s_valid, s_payload = Signal(name="s_valid"), Signal(8, name="s_payload")
        m.d.comb += [
            s_valid.eq(s_hold | self.s_valid_req),
            s_payload.eq(Mux(s_hold, s_pay_r, self.s_payload_in)),
            st.valid.eq(s_valid), st.payload.eq(s_payload),
        ]
        m.d.usb += [s_hold.eq(s_valid & ~st.ready), s_pay_r.eq(s_payload)]

        # ---- ghost
        g_left = Signal(4, name="g_left")                # bytes of this frame not yet sent
        g_frame_started = Signal(name="g_frame_started")
        g_pkts = Signal(2, name="g_pkts")                # packets sent in this frame (saturating)
        g_bif = Signal(4, name="g_bif")
        g_frames = Signal(2, name="g_frames")
        pkt_cnt = Signal(range(mps + 2), name="g_pkt_cnt")   # bytes accepted in the current packet
        L = Signal(range(mps + 1), name="g_L")           # length the current / next packet must have
        pid_exp = Signal(2, name="g_pid_exp")
        m.d.comb += [
            L.eq(Mux(g_left > mps, mps, g_left)),
            pid_exp.eq(Mux(g_left > 2 * mps, 2, Mux(g_left > mps, 1, 0))),
        ]
        zlp_now = Signal(name="g_zlp_now")               # the endpoint presents a zero-length packet
        data_cyc = Signal(name="g_data_cyc")             # the endpoint presents a data byte
        acc = Signal(name="g_acc")                       # ... and it is accepted
        pend = Signal(name="g_pend")                     # the packet ends in this cycle
        m.d.comb += [
            zlp_now.eq(tx.valid & tx.last & ~tx.first & (pkt_cnt == 0)),
            data_cyc.eq(tx.valid & ~zlp_now),
            acc.eq(data_cyc & tx.ready),
            pend.eq(busy & (zlp_now | (acc & tx.last))),
        ]
        with m.If(data_req):
            m.d.usb += busy.eq(1)
        with m.If(busy & acc & (pkt_cnt != mps + 1)):
            m.d.usb += pkt_cnt.eq(pkt_cnt + 1)
        with m.If(pend):
            m.d.usb += [busy.eq(0), pkt_cnt.eq(0), g_left.eq(g_left - Mux(zlp_now, 0, pkt_cnt + 1))]
            with m.If(g_pkts != 3):
                m.d.usb += g_pkts.eq(g_pkts + 1)
        with m.If(sof):
            m.d.usb += [g_left.eq(self.bif), g_bif.eq(self.bif), g_frame_started.eq(1), g_pkts.eq(0)]
            with m.If(g_frames != 3):
                m.d.usb += g_frames.eq(g_frames + 1)

        m.d.comb += [
            # nothing (left) to send -> zero-length packet; something left -> a data packet
            v["zlp_expected"].eq(busy & data_cyc & (L == 0)),
            v["data_expected"].eq(busy & zlp_now & (L != 0)),
            # every packet carries min(max packet size, bytes left) bytes: `last` exactly on that byte
            v["length"].eq(busy & acc & (L != 0) & (tx.last != (pkt_cnt + 1 == L))),
            v["first_mark"].eq(busy & acc & (tx.first != (pkt_cnt == 0))),
            # bytes come from the stream in order, zero while the stream has nothing
            v["payload"].eq(busy & acc & (tx.payload != Mux(s_valid, s_payload, 0))),
            v["consume"].eq((st.ready & s_valid) != (busy & acc & s_valid)),
            # DATAx label: DATA(packets still needed - 1); an empty frame's packet is DATA0
            v["pid"].eq(busy & g_frame_started & (acc | (zlp_now & (g_bif == 0) & (g_pkts == 0)))
                        & (itf.tx_pid_toggle != pid_exp)),
            v["unrequested"].eq(tx.valid & ~busy),
            v["gap"].eq(busy & ~tx.valid),
        ]
        frame_done = pend & ~zlp_now & (g_left == pkt_cnt + 1) & g_frame_started
        m.d.comb += [
            c["frame3_done"].eq(frame_done & (g_bif > 2 * mps) & (g_pkts == 2)),
            c["frame2_done"].eq(frame_done & (g_bif > mps) & (g_bif <= 2 * mps) & (g_pkts == 1)),
            c["short_tail"].eq(frame_done & (g_pkts != 0) & (pkt_cnt + 1 != mps)) if mps > 1 else c["short_tail"].eq(frame_done),
            c["zlp_empty_frame"].eq(busy & zlp_now & g_frame_started & (g_bif == 0) & (itf.tx_pid_toggle == 0)),
            c["zlp_after_data"].eq(busy & zlp_now & g_frame_started & (g_bif != 0)),
            c["zero_fill"].eq(busy & acc & ~s_valid & (tx.payload == 0) & (pkt_cnt != 0) if mps > 1 else busy & acc & ~s_valid),
            c["stream_byte"].eq(busy & acc & s_valid & st.ready & (tx.payload == s_payload)),
            c["stalled_byte"].eq(busy & acc & s_hold),
            c["pid2"].eq(busy & acc & (itf.tx_pid_toggle == 2) & (pid_exp == 2)),
            c["pid1"].eq(busy & acc & (itf.tx_pid_toggle == 1) & (pid_exp == 1) & (g_pkts == 1)),
            c["second_frame_packet"].eq(busy & acc & (g_frames == 2)),
            c["refetch_less"].eq(sof & (g_left != 0) & (g_pkts != 0)),
        ]
        for n, s in (("busy", busy), ("token", token), ("pid", pid), ("ep", ep), ("rfr", rfr), ("sof", sof),
                     ("g_left", g_left), ("g_pkts", g_pkts), ("pkt_cnt", pkt_cnt), ("tx_valid", tx.valid),
                     ("tx_first", tx.first), ("tx_last", tx.last), ("tx_payload", tx.payload),
                     ("tx_pid", itf.tx_pid_toggle), ("s_valid", s_valid), ("s_payload", s_payload),
                     ("st_ready", st.ready), ("L", L), ("pid_exp", pid_exp)):
            self.obs(n, s)
        return m


def queries(tier):
    qs = []
    quick = tier == "quick"
    for mps in ((2,) if quick else (1, 2, 3)):
        f = (lambda mps=mps: IsoInHarness(mps))
        K = 20 if quick else 26
        qs.append(Query(f"bmc_mps{mps}", f, K, timeout=900,
                        desc=f"mps={mps}: SOF / token / response timing, bytes_in_frame, tx.ready, stream all free"))
        qs.append(Query(f"cosim_mps{mps}", f, 0, kind="cosim", cosim_cycles=150 if quick else 1000))
    return qs
