"""C04 -- USB2 handshakes are generated and detected exactly.

Generator harness: real USBHandshakeGenerator; request strobes and tx.ready free per cycle (at most one request per
cycle).  A ghost (busy flag + expected byte, computed from the PID numbers of the USB spec, check nibble =
complement) says what must be on the transmit interface in every cycle.

Detector harness: real USBHandshakeDetector on a free UTMI receive bus (rx_active / rx_valid / rx_data free per
cycle within the UTMI receive contract).  The monitor counts the bytes of each packet, keeps the first one, and at
the end of the packet knows which strobe (if any) is due in the next cycle; in every other cycle all strobes must be 0.
"""
from amaranth import *
import z3

from ..harness import Harness
from ..engine import Query
from ..lib.usb2 import PID_ACK, PID_NAK, PID_STALL, PID_NYET, pid_byte, utmi_rx_contract

PROP = "C04"
ENCODED = ["luna/gateware/usb/usb2/packet.py: USBHandshakeGenerator (FSM, packet constants)",
           "luna/gateware/usb/usb2/packet.py: USBHandshakeDetector (FSM, PID decode)"]
ASSUMPTIONS = [
    "generator: at most one of issue_ack/issue_nak/issue_stall per cycle (one endpoint answers a transaction; C20 "
    "checks the multiplexer); tx.ready is free in every cycle (a superset of UTMI, where it is meaningful only with valid)",
    "detector: UTMI receive contract -- rx_valid only while rx_active and never in the first rx_active cycle; a packet "
    "is a maximal run of rx_active; rx_data free",
]
BOUNDS = "BMC from reset, every input free per cycle: K=12 quick / K=20 thorough for both units; induction step from an " \
         "arbitrary state with the monitor/DUT correspondence as invariant (all histories)"
OUTSIDE = "simultaneous requests; NYET generation (the generator has no such request); rx_valid in the first RXActive cycle"

HS = {"ack": PID_ACK, "nak": PID_NAK, "stall": PID_STALL, "nyet": PID_NYET}


class GeneratorHarness(Harness):
    domains = ("usb",)

    def __init__(self):
        super().__init__()
        from luna.gateware.usb.usb2.packet import USBHandshakeGenerator
        self.dut = d = USBHandshakeGenerator()
        self.inp("issue_ack", signal=d.issue_ack)
        self.inp("issue_nak", signal=d.issue_nak)
        self.inp("issue_stall", signal=d.issue_stall)
        self.inp("tx_ready", signal=d.tx.ready)
        self.a_one = self.assume("one_request")
        self.v_valid = self.viol("gen_valid")          # valid exactly from the cycle after an idle request to acceptance
        self.v_data = self.viol("gen_data")            # the requested PID with its check nibble, stable while valid
        self.v_once = self.viol("gen_exactly_once")    # packets accepted by the PHY vs. idle requests
        self.c_sent = {n: self.cover(f"gen_{n}_sent") for n in ("ack", "nak", "stall")}
        self.c_stalled = self.cover("gen_backpressured")
        self.c_busyreq = self.cover("gen_request_while_busy")
        self.c_b2b = self.cover("gen_back_to_back")
        self.busy = Signal(name="ghost_busy")
        self.byte = Signal(8, name="ghost_byte")
        self.obs("busy", self.busy), self.obs("byte", self.byte)
        self.obs("tx_valid", d.tx.valid), self.obs("tx_data", d.tx.data)

    def elaborate(self, platform):
        m = Module()
        m.submodules.dut = d = self.dut
        busy, byte = self.busy, self.byte
        reqs = {"ack": d.issue_ack, "nak": d.issue_nak, "stall": d.issue_stall}
        any_req = d.issue_ack | d.issue_nak | d.issue_stall
        m.d.comb += self.a_one.eq((d.issue_ack + d.issue_nak + d.issue_stall) <= 1)

        waited = Signal(2, name="ghost_waited")
        ignored = Signal(name="ghost_ignored")      # a *different* request arrived while busy
        sent_any = Signal(name="ghost_sent_any")
        outstanding = self.outstanding = Signal(2, name="ghost_outstanding")   # idle requests minus packets accepted
        idle_req = ~busy & any_req
        accepted = d.tx.valid & d.tx.ready
        m.d.usb += outstanding.eq(outstanding + idle_req - accepted)
        with m.If(~busy):
            for n, r in reqs.items():
                with m.If(r):
                    m.d.usb += [busy.eq(1), byte.eq(pid_byte(HS[n])), waited.eq(0), ignored.eq(0)]
        with m.Else():
            with m.If(d.tx.ready):
                m.d.usb += [busy.eq(0), sent_any.eq(1)]
            with m.Elif(waited != 3):
                m.d.usb += waited.eq(waited + 1)
            for n, r in reqs.items():
                with m.If(r & (byte != pid_byte(HS[n]))):
                    m.d.usb += ignored.eq(1)

        m.d.comb += [
            self.v_valid.eq(d.tx.valid != busy),
            self.v_data.eq(d.tx.valid & (d.tx.data != byte)),
            # at most one packet in flight, never a packet nobody asked for, every idle request answered
            self.v_once.eq((outstanding > 1) | (accepted & (outstanding == 0)) | (outstanding != busy)),
            self.c_stalled.eq(busy & d.tx.ready & (waited == 3) & d.tx.valid),
            self.c_busyreq.eq(busy & d.tx.ready & ignored & d.tx.valid & (d.tx.data == byte)),
            self.c_b2b.eq(busy & d.tx.ready & sent_any & d.tx.valid),
        ]
        for n in reqs:
            m.d.comb += self.c_sent[n].eq(d.tx.valid & d.tx.ready & (d.tx.data == pid_byte(HS[n])) & busy)
        return m


def _gen_inv(ts, frame, h):
    st = ts.signal_by_name("dut.fsm_state")
    if st is None:
        return None, ["dut.fsm_state"]
    s = frame.sig(st)
    busy, byte = frame.sig(h.busy), frame.sig(h.byte)
    data = frame.sig(h.dut.tx.data)
    outstanding = frame.sig(h.outstanding)
    legal = z3.Or(*[byte == pid_byte(p) for n, p in HS.items() if n != "nyet"])
    return [z3.ZeroExt(s.size() - 1, busy) == s if s.size() > 1 else busy == s,
            z3.Implies(busy == 1, z3.And(data == byte, legal)),
            outstanding == z3.ZeroExt(1, busy)], \
        ["dut.fsm_state==ghost_busy", "busy=>tx.data==ghost_byte in {D2,5A,1E}", "outstanding==busy"]


class DetectorHarness(Harness):
    domains = ("usb",)

    def __init__(self):
        super().__init__()
        from luna.gateware.usb.usb2.packet import USBHandshakeDetector
        from luna.gateware.interface.utmi import UTMIInterface
        self.utmi = u = UTMIInterface()
        self.dut = USBHandshakeDetector(utmi=u)
        self.inp("rx_data", signal=u.rx_data)
        self.inp("rx_active", signal=u.rx_active)
        self.inp("rx_valid", signal=u.rx_valid)
        self.a_utmi = self.assume("utmi_rx")
        self.v = {n: self.viol(f"det_{n}") for n in HS}
        self.c = {n: self.cover(f"det_{n}") for n in HS}
        self.c_long = self.cover("det_long_packet_ignored")
        self.c_badnibble = self.cover("det_bad_check_nibble_ignored")
        self.c_other = self.cover("det_other_pid_ignored")
        self.c_gap = self.cover("det_valid_gap_before_pid")
        self.c_second = self.cover("det_second_packet")
        self.prev_active = Signal(name="mon_prev_active")
        self.count = Signal(2, name="mon_count")
        self.first = Signal(8, name="mon_first")
        self.exp = {n: Signal(name=f"mon_exp_{n}") for n in HS}
        for n in HS:
            self.obs(f"det_{n}", getattr(self.dut.detected, n))

    def stimulus(self, rng, t, consts):
        # legal UTMI traffic: short packets, often handshakes
        if not hasattr(self, "_script") or not self._script:
            n = rng.choice([0, 1, 1, 1, 2, 3])
            pid = rng.choice([PID_ACK, PID_NAK, PID_STALL, PID_NYET, rng.getrandbits(4)])
            first = pid_byte(pid) if rng.random() < 0.8 else rng.getrandbits(8)
            sc = [dict(rx_active=0, rx_valid=0, rx_data=rng.getrandbits(8)) for _ in range(rng.randrange(1, 3))]
            sc.append(dict(rx_active=1, rx_valid=0, rx_data=rng.getrandbits(8)))
            for i in range(n):
                for _ in range(rng.randrange(0, 2)):
                    sc.append(dict(rx_active=1, rx_valid=0, rx_data=rng.getrandbits(8)))
                sc.append(dict(rx_active=1, rx_valid=1, rx_data=first if i == 0 else rng.getrandbits(8)))
            for _ in range(rng.randrange(0, 2)):
                sc.append(dict(rx_active=1, rx_valid=0, rx_data=rng.getrandbits(8)))
            self._script = sc
        return self._script.pop(0)

    def elaborate(self, platform):
        m = Module()
        m.submodules.dut = d = self.dut
        u = self.utmi
        m.d.comb += self.a_utmi.eq(utmi_rx_contract(m, "usb", u.rx_active, u.rx_valid))
        prev_active, count, first = self.prev_active, self.count, self.first
        gap = Signal(name="mon_gap")
        packets = Signal(2, name="mon_packets")
        m.d.usb += prev_active.eq(u.rx_active)
        byte_now = u.rx_active & u.rx_valid
        with m.If(~u.rx_active):
            m.d.usb += [count.eq(0), gap.eq(0)]
        with m.Elif(byte_now):
            with m.If(count == 0):
                m.d.usb += first.eq(u.rx_data)
            with m.If(count != 2):
                m.d.usb += count.eq(count + 1)
        with m.Elif(prev_active & (count == 0)):
            m.d.usb += gap.eq(1)

        # packet ends in the first cycle rx_active is low again; the strobe is due in the following cycle
        end = prev_active & ~u.rx_active
        nibble_ok = first[0:4] == (~first[4:8])[0:4]
        one_byte = count == 1
        with m.If(end & (packets != 3)):
            m.d.usb += packets.eq(packets + 1)
        for n, pid in HS.items():
            m.d.usb += self.exp[n].eq(end & one_byte & nibble_ok & (first[0:4] == pid))
            strobe = getattr(d.detected, n)
            m.d.comb += [self.v[n].eq(strobe != self.exp[n]),
                         self.c[n].eq(strobe & self.exp[n])]
        is_hs = Cat(*[first[0:4] == p for p in HS.values()]).any()
        was_long = Signal(name="mon_was_long")
        was_bad = Signal(name="mon_was_bad")
        was_other = Signal(name="mon_was_other")
        was_gap = Signal(name="mon_was_gap")
        m.d.usb += [
            was_long.eq(end & (count == 2) & nibble_ok & is_hs),
            was_bad.eq(end & one_byte & ~nibble_ok & is_hs),
            was_other.eq(end & one_byte & nibble_ok & ~is_hs),
            was_gap.eq(end & one_byte & nibble_ok & is_hs & gap),
        ]
        none = ~Cat(*[getattr(d.detected, n) for n in HS]).any()
        m.d.comb += [
            self.c_long.eq(was_long & none),
            self.c_badnibble.eq(was_bad & none),
            self.c_other.eq(was_other & none),
            self.c_gap.eq(was_gap & ~none),
            self.c_second.eq((packets >= 2) & ~none),
        ]
        return m


def _det_inv(ts, frame, h):
    names = ["dut.fsm_state", "dut.active_pid", "c_prev_rx_active"]
    sigs = [ts.signal_by_name(n) for n in names]
    if any(s is None for s in sigs):
        return None, names
    st, pid, cprev = [frame.sig(s) for s in sigs]
    prev, count, first = frame.sig(h.prev_active), frame.sig(h.count), frame.sig(h.first)
    nib_ok = z3.Extract(3, 0, first) == ~z3.Extract(7, 4, first)
    IDLE, READ_PID, AWAIT, IRRELEVANT = 0, 1, 2, 3       # order of definition in the FSM
    want = z3.If(prev == 0, z3.BitVecVal(IDLE, 2),
                 z3.If(count == 0, z3.BitVecVal(READ_PID, 2),
                       z3.If(z3.And(count == 1, nib_ok), z3.BitVecVal(AWAIT, 2), z3.BitVecVal(IRRELEVANT, 2))))
    conds = [st == want, cprev == prev, z3.ULE(count, 2), z3.Implies(prev == 0, count == 0),
             z3.Implies(st == AWAIT, pid == z3.Extract(3, 0, first))]
    for n in HS:
        conds.append(frame.sig(getattr(h.dut.detected, n)) == frame.sig(h.exp[n]))
    return conds, ["dut.fsm_state==f(monitor)", "active_pid==first[0:4] while awaiting", "strobes==expected"]


def queries(tier):
    thorough = tier != "quick"
    K = 20 if thorough else 12
    qs = [
        Query("bmc_generator", GeneratorHarness, K, timeout=600, split=False,
              desc="generator: requests (<=1 per cycle) and tx.ready free every cycle"),
        Query("ind_generator", GeneratorHarness, 1, kind="ind", invariants=_gen_inv,
              desc="generator: induction step from an arbitrary state with fsm==ghost_busy, data==ghost_byte"),
        Query("cosim_generator", GeneratorHarness, 0, kind="cosim", cosim_cycles=200 if not thorough else 2000),
        Query("bmc_detector", DetectorHarness, K, timeout=600, split=False,
              desc="detector: rx_active/rx_valid/rx_data free every cycle within the UTMI receive contract"),
        Query("ind_detector", DetectorHarness, 1, kind="ind", invariants=_det_inv,
              desc="detector: induction step from an arbitrary state with the FSM/monitor correspondence as invariant"),
        Query("cosim_detector", DetectorHarness, 0, kind="cosim", cosim_cycles=200 if not thorough else 2000),
    ]
    return qs
