"""C19 -- USB2 reset, high-speed handshake and suspend follow the line-state timing rules.

DUT: a subclass of luna.gateware.usb.usb2.reset.USBResetSequencer that overrides only the class-level
_CYCLES_* constants with small values in the same order (the real elaborate() runs unchanged); the
monitor's thresholds are read from the same named constants.  A separate audit harness checks that the
*real* class constants equal the spec times at 60 MHz.

The monitor sees only inputs and outputs (line_state, vbus, restrictions; bus_reset, suspended,
current_speed, operating_mode, termination_select, tx) and keeps its own run-length counters:
  hs_op      := XcvrSelect=HS(0) & OpMode=normal(0) & TermSelect=0   (UTMI+ table 4: HS operation)
  fs_op      := XcvrSelect in {FS(1),LS(2)} & OpMode=normal & TermSelect=1
  chirp_mode := OpMode=2 (bit stuffing/NRZI disabled)
Line states (UTMI): 00 SE0, 01 J, 10 K (J/K swapped at low speed).
"""
from amaranth import *
from ..harness import Harness
from ..engine import Query

# FINDINGS
#   2b14692 "fix: the host-chirp timeout is not overridden by a coinciding line-state edge"
#       AWAIT_HOST_K/J: a K/J edge in the cycle timer == 2.5 ms overrode the timeout; caught by fallback_time
#       (bmc_B_chirp / bmc_A_hs).
#   a08325c "fix: only count a host chirp J that is still present at the 2.5 us mark"
#       IN_HOST_J counted a pair although the J ended in the deciding cycle (K J J J reached HS); caught by hs_entry_pairs
#       (bmc_A_hs).
#   d409c88 "fix: do not start a high-speed handshake from the HS reset window when restricted"
#       DETECT_HS_SUSPEND went to START_HS_DETECTION regardless of full/low_speed_only; caught by no_chirp_restricted
#       (bmc_A_hsreset quick, bmc_A_deep thorough).

PROP = "C19"
ENCODED = ["luna/gateware/usb/usb2/reset.py: USBResetSequencer.elaborate (whole FSM, timer/line_state_time/valid_pairs, "
           "was_hs_pre_suspend) with scaled _CYCLES_* constants",
           "luna/gateware/usb/usb2/reset.py: USBResetSequencer._CYCLES_* (real values, audit against spec times at 60 MHz)"]
ASSUMPTIONS = [
    "time constants are scaled (subclass overriding _CYCLES_*): A = 2.5us:2 5us:3 200us:4 1ms:5 2ms:6 2.5ms:28 3ms:30 "
    "(2.5 ms long enough for three K-J pairs), B = 2.5us:2 5us:3 200us:4 1ms:5 2ms:6 2.5ms:7 3ms:8; order preserved",
    "line_state, vbus_connected, disconnect, low_speed_only, full_speed_only, bus_busy are free in every cycle",
    "implementation latency allowed by the monitor: an input condition must have held for the two preceding cycles and "
    "the current one before 'while restricted' applies (decision -> registered output = 2 cycles)",
    "'K-J pair': a run of K of >= 2.5us and a later run of J of >= 2.5us after the device's own chirp ended (weakest "
    "reading; shorter glitches in between are not counted against the device)",
    "'HS reset': >= 3 ms of SE0 while in HS operation, then a non-J sample >= 200us after HS operation was left",
    "chirp_length (extra, USB2 7.1.7.5 TUCH >= 1 ms) is only asserted when bus_busy was low since the reset was reported",
]
BOUNDS = "quick: constants B K=26 all inputs free (two assertion families); constants A K=43 with reset + device chirp " \
         "scripted in cycles 0..12 and every input free from 13; A K=80 free from cycle 37 after a scripted clean " \
         "handshake; A K=76/68 free from cycle 43 after a scripted first handshake aborted after 1/2 valid pairs + " \
         "timeout (second bus reset free).  thorough: B K=44 and A K=50 all free, A K=56 free from 13, A K=84 free " \
         "from 37, A K=84 free from 43 after the aborted handshake (k=1,2).  Static audit of the real constants"
OUTSIDE = "real-time constants in the sequential clauses (scaled only; the real values are audited statically); " \
          "which of FULL/LOW is selected on fallback; device.py wiring of the restriction inputs; " \
          "resume detection polarity (LS/FS K) while suspended"

CONST_A = dict(T2P5US=2, T5US=3, T200US=4, T1MS=5, T2MS=6, T2P5MS=28, T3MS=30)
CONST_B = dict(T2P5US=2, T5US=3, T200US=4, T1MS=5, T2MS=6, T2P5MS=7, T3MS=8)
NAMES = dict(T2P5US="_CYCLES_2P5_MICROSECONDS", T5US="_CYCLES_5_MICROSECONDS", T200US="_CYCLES_200_MICROSECONDS",
             T1MS="_CYCLES_1_MILLISECONDS", T2MS="_CYCLES_2_MILLISECONDS", T2P5MS="_CYCLES_2P5_MILLISECONDS",
             T3MS="_CYCLES_3_MILLISECONDS")
SPEC_SECONDS = dict(T2P5US=2.5e-6, T5US=5e-6, T200US=200e-6, T1MS=1e-3, T2MS=2e-3, T2P5MS=2.5e-3, T3MS=3e-3)
EXTRA_SPEC = {"_CYCLES_500_NANOSECONDS": 500e-9, "_CYCLES_1_MICROSECOND": 1e-6}

SE0, J, K = 0b00, 0b01, 0b10

ASSERTS = ["hs_entry_chirp", "hs_entry_pairs", "no_chirp_restricted", "leave_hs", "fallback_time", "fallback_state",
           "reset_active", "reset_suspended", "reset_in_hs", "suspend", "chirp_length"]
COVERS = ["hs_entry", "hs_resume", "chirp_start", "restricted_reset", "leave_hs", "fallback", "reset_active",
          "reset_suspended", "reset_hs", "reset_novbus", "suspend_fs", "suspend_hs", "chirp_length", "short_chirp_state",
          "second_chirp", "hs_entry_second"]


def scaled_class(consts):
    from luna.gateware.usb.usb2.reset import USBResetSequencer
    vals = [consts[k] for k in ("T2P5US", "T5US", "T200US", "T1MS", "T2MS", "T2P5MS", "T3MS")]
    assert vals == sorted(vals) and len(set(vals)) == len(vals), "scaled constants must preserve the order"
    return type("ScaledUSBResetSequencer", (USBResetSequencer,), {NAMES[k]: v for k, v in consts.items()})


class ResetHarness(Harness):
    domains = ("usb",)

    def __init__(self, consts):
        super().__init__()
        self.dut = dut = scaled_class(consts)()
        self.restrictions.append(f"scaled _CYCLES_* constants: {consts}")
        self.T = {k: getattr(dut, NAMES[k]) for k in consts}          # the same named constants
        self.line = self.inp("line_state", signal=dut.line_state)
        self.vbus = self.inp("vbus_connected", signal=dut.vbus_connected)
        self.disc = self.inp("disconnect", signal=dut.disconnect)
        self.low = self.inp("low_speed_only", signal=dut.low_speed_only)
        self.full = self.inp("full_speed_only", signal=dut.full_speed_only)
        self.busy = self.inp("bus_busy", signal=dut.bus_busy)
        self.inp("tx_ready", signal=dut.tx.ready)
        self.v = {n: self.viol(n) for n in ASSERTS}
        self.c = {n: self.cover(n) for n in COVERS}
        for n in ("bus_reset", "suspended", "current_speed", "operating_mode", "termination_select"):
            self.obs(n, getattr(dut, n))
        self.obs("tx_valid", dut.tx.valid)

    def elaborate(self, platform):
        m = Module()
        m.submodules.dut = dut = self.dut
        T = self.T
        W = (2 * T["T3MS"] + 8).bit_length()
        MAXC = (1 << W) - 1

        def counter(name):
            s = Signal(W, name=name)
            self.obs(name, s)
            return s

        def inc(c):
            return Mux(c == MAXC, c, c + 1)

        def delayed(sig, name, n=1):
            out = []
            prev = sig
            for i in range(n):
                d = Signal.like(sig, name=f"{name}_d{i + 1}")
                m.d.usb += d.eq(prev)
                out.append(d)
                prev = d
            return out

        line = self.line
        speed, op, term = dut.current_speed, dut.operating_mode, dut.termination_select
        hs_op, fs_op, chirp_mode, restr = (Signal(name=n) for n in ("hs_op", "fs_op", "chirp_mode", "restricted"))
        m.d.comb += [
            hs_op.eq((speed == 0) & (op == 0) & (term == 0)),
            fs_op.eq(((speed == 1) | (speed == 2)) & (op == 0) & (term == 1)),
            chirp_mode.eq(op == 2),
            restr.eq(self.low | self.full),
        ]
        chirp_k = Signal(name="chirp_k")
        m.d.comb += chirp_k.eq(dut.tx.valid & (dut.tx.data == 0) & chirp_mode)
        hs_d1, hs_d2 = delayed(hs_op, "hs_op", 2)
        re_d1, re_d2 = delayed(restr, "restr", 2)
        cm_d1, = delayed(chirp_mode, "chirp_mode")
        su_d1, su_d2 = delayed(dut.suspended, "susp", 2)
        line_d1, = delayed(line, "line")
        hs_rise, hs_fall, chirp_start, susp_rise = (Signal(name=n) for n in ("hs_rise", "hs_fall", "chirp_start", "susp_rise"))
        m.d.comb += [hs_rise.eq(hs_op & ~hs_d1), hs_fall.eq(~hs_op & hs_d1), chirp_start.eq(chirp_mode & ~cm_d1),
                     susp_rise.eq(dut.suspended & ~su_d1)]

        # ---- run-length ghosts (all count cycles strictly before the current one)
        se0_cnt, se0_fs_cnt, se0_hs_cnt, idle_cnt = (counter(n) for n in ("se0_cnt", "se0_fs_cnt", "se0_hs_cnt", "idle_cnt"))
        is_se0 = line == SE0
        m.d.usb += se0_cnt.eq(Mux(is_se0, inc(se0_cnt), 0))
        m.d.usb += se0_fs_cnt.eq(Mux(is_se0 & ~hs_op, inc(se0_fs_cnt), 0))
        m.d.usb += se0_hs_cnt.eq(Mux(is_se0 & hs_op, inc(se0_hs_cnt), 0))
        idle_state = Signal(2, name="idle_state")
        m.d.comb += idle_state.eq(Mux(speed == 0, SE0, Mux(speed == 1, J, K)))   # LS: J is 0b10
        m.d.usb += idle_cnt.eq(Mux(line == idle_state, inc(idle_cnt), 0))
        idle_d1, = delayed(idle_cnt, "idle_cnt")

        # ---- HS reset/suspend discrimination window
        g_hs3 = Signal(name="g_hs3")            # >= 3 ms of SE0 seen while in HS operation
        m.d.usb += g_hs3.eq(hs_op & (g_hs3 | (se0_hs_cnt >= T["T3MS"])))
        g_win = Signal(name="g_win")
        win_cnt = counter("win_cnt")
        with m.If(dut.bus_reset | dut.suspended | hs_op | chirp_mode):
            m.d.usb += g_win.eq(0)
        with m.Elif(hs_fall & g_hs3):
            m.d.usb += [g_win.eq(1), win_cnt.eq(1)]
        with m.Else():
            m.d.usb += win_cnt.eq(inc(win_cnt))
        g_hs_susp = Signal(name="g_hs_susp")    # the current/last suspend was entered from high speed
        with m.If(dut.bus_reset | hs_op | chirp_mode):
            m.d.usb += g_hs_susp.eq(0)
        with m.Elif(susp_rise):
            m.d.usb += g_hs_susp.eq(g_win)

        # ---- handshake ghost: 0 nothing, 1 reset reported, 2 device chirps, 3 listening for host chirps
        ph = Signal(2, name="g_phase")
        chirp_len, g_wait, run_cnt = counter("chirp_len"), counter("g_wait"), counter("run_cnt")
        run_val = Signal(2, name="run_val")
        pairs = Signal(2, name="g_pairs")
        expect_j = Signal(name="g_expect_j")
        g_busy = Signal(name="g_busy")
        g_short = Signal(name="g_short")        # a chirp state shorter than 2.5us was seen while listening
        cur_run = Signal(W, name="cur_run")     # run length of the current line state including this cycle
        m.d.comb += cur_run.eq(Mux(line == run_val, inc(run_cnt), 1))
        chirp_end = Signal(name="chirp_end")
        m.d.comb += chirp_end.eq((ph == 2) & ~dut.tx.valid)
        self.obs("g_phase", ph)
        self.obs("g_pairs", pairs)
        with m.If(dut.bus_reset):
            m.d.usb += [ph.eq(1), g_busy.eq(self.busy)]
        with m.Else():
            m.d.usb += g_busy.eq(g_busy | self.busy)
            with m.If((ph >= 2) & ~chirp_mode):
                m.d.usb += ph.eq(0)
            with m.Elif((ph == 1) & chirp_k):
                m.d.usb += [ph.eq(2), chirp_len.eq(1)]
            with m.Elif((ph == 2) & chirp_k):
                m.d.usb += chirp_len.eq(inc(chirp_len))
            with m.Elif(chirp_end):
                m.d.usb += [ph.eq(3), pairs.eq(0), expect_j.eq(0), g_wait.eq(1), run_val.eq(line), run_cnt.eq(1),
                            g_short.eq(0)]
            with m.Elif(ph == 3):
                m.d.usb += [g_wait.eq(inc(g_wait)), run_val.eq(line), run_cnt.eq(cur_run)]
                with m.If((line != run_val) & (run_cnt < T["T2P5US"]) & ((run_val == K) | (run_val == J))):
                    m.d.usb += g_short.eq(1)
                with m.If(~expect_j & (line == K) & (cur_run >= T["T2P5US"])):
                    m.d.usb += expect_j.eq(1)
                with m.Elif(expect_j & (line == J) & (cur_run >= T["T2P5US"])):
                    m.d.usb += [expect_j.eq(0), pairs.eq(Mux(pairs == 3, 3, pairs + 1))]

        g_fell_back = Signal(name="g_fell_back")   # an earlier handshake ended in the FS/LS fallback
        with m.If(cm_d1 & ~chirp_mode & fs_op):
            m.d.usb += g_fell_back.eq(1)
        self.obs("g_fell_back", g_fell_back)

        # ---- assertions
        v, c = self.v, self.c
        resume_ok = Signal(name="resume_ok")
        m.d.comb += resume_ok.eq(g_hs_susp & su_d2)
        reset_ok_active = Signal(name="reset_ok_active")
        m.d.comb += reset_ok_active.eq((se0_fs_cnt >= T["T5US"]) | (g_win & (win_cnt >= T["T200US"]) & (line != J)))
        susp_ok = Signal(name="susp_ok")
        m.d.comb += susp_ok.eq((idle_d1 >= T["T3MS"]) | (g_win & (win_cnt >= T["T200US"] + 1) & (line_d1 == J)))
        m.d.comb += [
            # HS operation begins only after own chirp + >= 3 valid K-J pairs, or on resume from an HS suspend
            v["hs_entry_chirp"].eq(hs_rise & ~resume_ok & (ph != 3)),
            v["hs_entry_pairs"].eq(hs_rise & ~resume_ok & (ph == 3) & (pairs < 3)),
            # the handshake is not started while restricted to FS/LS
            v["no_chirp_restricted"].eq(chirp_start & restr & re_d1 & re_d2),
            # HS operation is left within two cycles of a restriction
            v["leave_hs"].eq(hs_op & hs_d2 & restr & re_d1 & re_d2),
            # no host chirp in time -> back to FS/LS
            v["fallback_time"].eq((ph == 3) & chirp_mode & (g_wait >= T["T2P5MS"] + 2)),
            v["fallback_state"].eq(cm_d1 & ~chirp_mode & ~hs_op & ~fs_op),
            # bus_reset only with VBUS absent or after enough SE0
            v["reset_active"].eq(dut.bus_reset & self.vbus & ~dut.suspended & ~hs_op & ~reset_ok_active),
            v["reset_suspended"].eq(dut.bus_reset & self.vbus & dut.suspended & (se0_cnt < T["T2P5US"])),
            v["reset_in_hs"].eq(dut.bus_reset & self.vbus & hs_op),
            # suspend only after 3 ms of continuous idle
            v["suspend"].eq(susp_rise & ~susp_ok),
            # extra (spec): device chirp K lasts at least 1 ms
            v["chirp_length"].eq(chirp_end & ~g_busy & (chirp_len < T["T1MS"])),
        ]
        m.d.comb += [
            c["hs_entry"].eq(hs_rise & (ph == 3)),
            c["hs_resume"].eq(hs_rise & resume_ok),
            c["chirp_start"].eq(chirp_start),
            c["restricted_reset"].eq(dut.bus_reset & self.vbus & restr & re_d1 & re_d2),
            c["leave_hs"].eq(~hs_op & hs_d2 & restr & re_d1 & re_d2),
            c["fallback"].eq(cm_d1 & ~chirp_mode & fs_op & (ph == 3)),
            c["reset_active"].eq(dut.bus_reset & self.vbus & ~dut.suspended & ~g_win),
            c["reset_suspended"].eq(dut.bus_reset & self.vbus & dut.suspended),
            c["reset_hs"].eq(dut.bus_reset & self.vbus & g_win),
            c["reset_novbus"].eq(dut.bus_reset & ~self.vbus),
            c["suspend_fs"].eq(susp_rise & ~g_win),
            c["suspend_hs"].eq(susp_rise & g_win),
            c["chirp_length"].eq(chirp_end & ~g_busy),
            c["short_chirp_state"].eq(hs_rise & (ph == 3) & g_short),
            # a later handshake after an earlier one that failed (fell back to FS/LS)
            c["second_chirp"].eq(chirp_end & g_fell_back),
            c["hs_entry_second"].eq(hs_rise & (ph == 3) & g_fell_back),
        ]
        return m

    def stimulus(self, rng, t, consts):
        # slowly changing line state / mostly connected, so that the FSM gets somewhere
        d = super().stimulus(rng, t, consts)
        if not hasattr(self, "_st") or t == 0:
            self._st = dict(line=J, vbus=1)
        if rng.random() < 0.25:
            self._st["line"] = rng.choice([SE0, SE0, J, K, K, 3])
        if rng.random() < 0.03:
            self._st["vbus"] ^= 1
        d["line_state"] = self._st["line"]
        d["vbus_connected"] = self._st["vbus"]
        d["disconnect"] = int(rng.random() < 0.03)
        d["low_speed_only"] = int(rng.random() < 0.05)
        d["full_speed_only"] = int(rng.random() < 0.05)
        d["bus_busy"] = int(rng.random() < 0.1)
        return d


class ConstAuditHarness(Harness):
    """Static audit: the real class constants equal the spec times at the 60 MHz UTMI clock.  No DUT logic is
    elaborated; every comparison is a Python constant exported as a viol_* output so that it appears in the evidence."""
    domains = ("usb",)

    def __init__(self):
        super().__init__()
        from luna.gateware.usb.usb2.reset import USBResetSequencer
        self.cls = USBResetSequencer
        self.tick = self.inp("tick", 1)
        self.items = {}
        for k, sec in SPEC_SECONDS.items():
            self.items[NAMES[k]] = sec
        self.items.update(EXTRA_SPEC)
        self.v = {n: self.viol(n[len("_CYCLES_"):].lower()) for n in self.items}
        self.c_ran = self.cover("audit_ran")

    def elaborate(self, platform):
        m = Module()
        seen = Signal(name="seen")
        m.d.usb += seen.eq(seen | self.tick)
        for n, sec in self.items.items():
            real = getattr(self.cls, n, None)
            m.d.comb += self.v[n].eq(Const(int(real != round(sec * 60e6)), 1) & (seen | ~seen))
        m.d.comb += self.c_ran.eq(seen)
        return m


def _audit_text():
    from luna.gateware.usb.usb2.reset import USBResetSequencer as R
    return ", ".join(f"{n}={getattr(R, n)} (spec {round(s * 60e6)})" for n, s in
                     list((NAMES[k], v) for k, v in SPEC_SECONDS.items()) + list(EXTRA_SPEC.items()))


def _prefix_layer(P):
    """constants A: scripted reset (SE0 from cycle 1, bus_reset at 4), device chirp (cycles 8..12) and, if P > 13, clean
    4-cycle host K/J chirps from cycle 13 (three pairs complete at 36, HS operation at 38); every input is free from cycle P"""
    def line_prefix(t):
        if t >= P:
            return None
        if t == 0:
            return J
        if t < 13:
            return SE0
        return K if ((t - 13) // 4) % 2 == 0 else J
    pin = lambda val: (lambda t: None if t >= P else val)
    return {"line_state": line_prefix, "disconnect": pin(0), "bus_busy": pin(0), "vbus_connected": pin(1),
            "low_speed_only": pin(0), "full_speed_only": pin(0)}


def _aborted_handshake_layer(k):
    """constants A: first reset + device chirp as in _prefix_layer, then a host chirp that is aborted after k in {1,2}
    valid 4-cycle K-J pairs (line returns to SE0), the 2.5 ms timeout (timer == 28 at cycle 41), fallback to full speed
    (IS_LOW_OR_FULL_SPEED at 42 sees J) -- all scripted; every input is free from cycle 43 on (second bus reset)."""
    P = 43
    def line(t):
        if t >= P:
            return None
        if t == 0 or t == 42:
            return J
        if 13 <= t < 13 + 8 * k:
            return K if ((t - 13) // 4) % 2 == 0 else J
        return SE0
    pin = lambda val: (lambda t: None if t >= P else val)
    return {"line_state": line, "disconnect": pin(0), "bus_busy": pin(0), "vbus_connected": pin(1),
            "low_speed_only": pin(0), "full_speed_only": pin(0)}


def queries(tier):
    fa = lambda: ResetHarness(CONST_A)
    fb = lambda: ResetHarness(CONST_B)
    quick = tier == "quick"
    b_reset = ["reset_active", "reset_suspended", "reset_in_hs", "suspend"]
    b_chirp = ["no_chirp_restricted", "fallback_time", "fallback_state", "chirp_length"]
    b_covers = ["chirp_start", "restricted_reset", "fallback", "reset_active", "reset_suspended", "reset_novbus",
                "suspend_fs", "chirp_length"]
    audit = Query("audit_constants", ConstAuditHarness, 2, split=False,
                  desc="real _CYCLES_* vs spec time x 60 MHz: " + _audit_text())
    if quick:
        # light tier: three assertion families, one process each (split=False)
        return [
            audit,
            Query("bmc_B_reset", fb, 26, asserts=b_reset, covers=["reset_active", "reset_suspended", "reset_novbus", "suspend_fs"],
                  split=False, timeout=600,
                  desc="constants B, all inputs free: bus_reset thresholds (FS active, suspended, VBUS) and suspend entry"),
            Query("bmc_B_chirp", fb, 26, asserts=b_chirp, covers=["chirp_start", "restricted_reset", "fallback", "chirp_length"],
                  split=False, timeout=600,
                  desc="constants B, all inputs free: handshake start vs restriction, fallback on chirp timeout, chirp length"),
            Query("bmc_A_hs", fa, 43, asserts=["hs_entry_chirp", "hs_entry_pairs", "leave_hs", "fallback_time"],
                  covers=["hs_entry", "short_chirp_state"], layer=_prefix_layer(13), split=False, timeout=600,
                  desc="constants A, layer: scripted reset + device chirp in cycles 0..12, every input free from cycle 13: "
                       "host chirp counting (glitches, short states), HS entry, timeout, leaving HS on restriction"),
            Query("bmc_A_hsreset", fa, 80, asserts=["no_chirp_restricted", "reset_active", "suspend", "hs_entry_chirp"],
                  covers=["reset_hs", "suspend_hs", "hs_resume"], layer=_prefix_layer(37), split=False, timeout=600,
                  desc="constants A, layer: scripted clean reset + HS handshake in cycles 0..36, every input free from cycle "
                       "37: HS reset vs suspend discrimination, restriction during the window, resume from HS suspend"),
            *[Query(f"bmc_A_second_k{k}", fa, 84 - 8 * k, asserts=["hs_entry_pairs", "hs_entry_chirp"], covers=["second_chirp"],
                    layer=_aborted_handshake_layer(k), split=False, timeout=600,
                    desc=f"constants A, layer: first reset with a host chirp aborted after {k} valid pair(s) and the 2.5 ms "
                         "timeout scripted in cycles 0..42, every input free from cycle 43: state left over from the failed "
                         "handshake must not count in the next bus reset")
              for k in (1, 2)],
            Query("cosim_A", fa, 0, kind="cosim", cosim_cycles=150),
            Query("cosim_B", fb, 0, kind="cosim", cosim_cycles=150),
        ]
    return [
        audit,
        Query("bmc_B", fb, 44, asserts=b_reset + b_chirp, covers=b_covers, timeout=600,
              desc="constants B (short 2.5ms/3ms): FS reset thresholds, suspend, fallback on chirp timeout; all inputs free"),
        Query("bmc_A", fa, 50, covers=["hs_entry", "leave_hs"], timeout=900,
              desc="constants A: full HS handshake from reset, entry conditions, restriction handling; all inputs free"),
        Query("bmc_A_hs", fa, 56, asserts=["hs_entry_chirp", "hs_entry_pairs", "leave_hs", "fallback_time", "fallback_state",
                                            "no_chirp_restricted"],
              covers=["hs_entry", "short_chirp_state", "fallback"], layer=_prefix_layer(13), timeout=900,
              desc="constants A, layer: scripted reset + device chirp in cycles 0..12, every input free from cycle 13"),
        Query("bmc_A_deep", fa, 84, timeout=900, covers=["hs_resume", "reset_hs", "suspend_hs", "leave_hs"],
              layer=_prefix_layer(37),
              desc="constants A, layer: scripted clean reset + HS handshake in cycles 0..36, all inputs free from cycle "
                   "37 to 84: HS reset vs suspend discrimination, resume from HS suspend, restrictions in HS"),
        *[Query(f"bmc_A_second_k{k}", fa, 84, asserts=["hs_entry_pairs", "hs_entry_chirp", "fallback_time", "no_chirp_restricted"],
                covers=["second_chirp", "hs_entry_second"], layer=_aborted_handshake_layer(k), timeout=900,
                desc=f"constants A, layer: first handshake aborted after {k} valid pair(s) + timeout scripted in cycles 0..42, "
                     "every input free from cycle 43 to 84 (second bus reset, full second handshake reachable)")
          for k in (1, 2)],
        Query("cosim_A", fa, 0, kind="cosim", cosim_cycles=1500),
        Query("cosim_B", fb, 0, kind="cosim", cosim_cycles=1500),
    ]
