"""C21 -- frame and microframe numbers track received SOFs.

DUT: the real USBDevice (full speed over UTMI) with a standard control endpoint; the frame logic under test is in
USBDevice.elaborate, fed by the real USBTokenDetector.
Environment: slotted symbolic host with short (8-cycle) slots, each slot one of: nothing, SOF with a symbolic 11-bit
frame number (optionally with a corrupted CRC5), or an IN token to a symbolic address/endpoint.
Oracle: ghost frame / microframe registers updated from the script alone.
"""
from amaranth import *
from ..harness import Harness
from ..engine import Query
from ..lib.host import SlottedHost, KIND_NONE, KIND_SETUP, KIND_IN, KIND_OUT, KIND_SOF, KIND_HSK, KIND_PING
from ..lib.device import make_device, tie_device

PROP = "C21"
ENCODED = ["luna/gateware/usb/usb2/device.py: USBDevice.elaborate (frame_number / microframe_number / new_frame / sof_detected)",
           "luna/gateware/usb/usb2/packet.py: USBTokenDetector (SOF path)"]
ASSUMPTIONS = [
    "full speed over UTMI, line idle, VBUS present; slotted host, 8-cycle slots, packets without byte gaps",
    "other packets interleaved with SOFs are IN tokens (any address/endpoint) and corrupted SOFs; C01 covers arbitrary packet shapes",
]
BOUNDS = "BMC from reset over N = 6 (quick) / 11 (thorough) symbolic slots; all 11-bit frame numbers per SOF (repeats, skips, wrap-around)"
OUTSIDE = "more than N SOFs (microframe wrap 7->0 needs 9 equal SOFs: thorough only); high speed bus timing"

SLOT = 8


class FrameHarness(Harness):
    def __init__(self, nslots):
        super().__init__()
        self.nslots = nslots
        self.utmi, self.dev, self.ep0, _ = make_device()
        self.host = SlottedHost(self, nslots, slot_len=SLOT, ack_t=SLOT - 1, prefix="s", ep_bits=4)
        self.v = {n: self.viol(n) for n in ["frame_number", "microframe_number", "new_frame", "sof_detected"]}
        self.c = {n: self.cover(n) for n in ["repeat", "change_after_repeat", "microframe_2", "corrupt_ignored",
                                             "wrap_number", "microframe_wrap"]}
        self.a = {n: self.assume(n) for n in ["kinds"]}

    def elaborate(self, platform):
        m = Module()
        h, u, dev = self.host, self.utmi, self.dev
        m.submodules.dev = dev
        h.build(m, "usb")
        tie_device(m, u, dev, h)
        ok = Const(1)
        for i in range(self.nslots):
            ok = ok & ((h.kind[i] == KIND_NONE) | (h.kind[i] == KIND_SOF) | (h.kind[i] == KIND_IN) | (h.kind[i] == KIND_PING))
        m.d.comb += self.a["kinds"].eq(ok)
        g_frame, g_micro = Signal(11), Signal(3)
        good_sof = (h.cur_kind == KIND_SOF) & ~h.cur_flag & ~h.done
        num = h.cur_data[0:11]
        # the token ends at t=5 (rx_active low), the detector reports at t=6, the device registers update for t=7
        at_report = good_sof & (h.t == 6)
        changed = Signal()
        m.d.comb += changed.eq(num != g_frame)
        with m.If(at_report):
            m.d.usb += g_frame.eq(num)
            with m.If(changed):
                m.d.usb += g_micro.eq(0)
            with m.Else():
                m.d.usb += g_micro.eq(g_micro + 1)
        m.d.comb += [
            self.v["frame_number"].eq((h.t != 6) & (dev.frame_number != g_frame)),
            self.v["microframe_number"].eq((h.t != 6) & (dev.microframe_number != g_micro)),
            self.v["new_frame"].eq(dev.new_frame != (at_report & changed)),
            self.v["sof_detected"].eq(dev.sof_detected != at_report),
        ]
        repeated = Signal()
        corrupt_seen = Signal()
        with m.If(at_report & ~changed):
            m.d.usb += repeated.eq(1)
        with m.If((h.cur_kind == KIND_SOF) & h.cur_flag & (h.t == 6) & (num != g_frame)):
            m.d.usb += corrupt_seen.eq(1)
        m.d.comb += [
            self.c["repeat"].eq(at_report & ~changed & (g_frame != 0)),
            self.c["change_after_repeat"].eq(at_report & changed & repeated),
            self.c["microframe_2"].eq(dev.microframe_number == 2),
            self.c["corrupt_ignored"].eq(corrupt_seen & h.done),
            self.c["wrap_number"].eq(at_report & (g_frame == 0x7ff) & (num == 0)),
            self.c["microframe_wrap"].eq(at_report & ~changed & (g_micro == 7)),
        ]
        return m

    def const_stimulus(self, rng):
        out = {}
        base = rng.getrandbits(11)
        for name, (sig, const) in self._inputs.items():
            if name.endswith("_kind"):
                out[name] = rng.choice([KIND_SOF, KIND_SOF, KIND_SOF, KIND_IN, KIND_NONE, KIND_PING])
            elif name.endswith("_data"):
                out[name] = (base + rng.choice([0, 0, 1])) & 0x7ff
                base = out[name]
            elif name.endswith("_flag"):
                out[name] = int(rng.random() < 0.15)
            else:
                out[name] = rng.getrandbits(len(sig))
        return out


def queries(tier):
    n = 6 if tier == "quick" else 11
    f = lambda n=n: FrameHarness(n)
    covers = ["repeat", "change_after_repeat", "microframe_2", "corrupt_ignored", "wrap_number"]
    if n >= 10:
        covers.append("microframe_wrap")
    sof_all = {f"s{i}_kind": KIND_SOF for i in range(n)}
    hints = {"microframe_wrap": dict(sof_all, **{f"s{i}_flag": 0 for i in range(n)}), "microframe_2": sof_all}
    return [Query(f"bmc_{n}slots", f, SLOT * n + 3, timeout=1800, covers=covers, hints=hints,
                  desc=f"{n} symbolic slots of SOF / corrupted SOF / IN token / PING token / idle"),
            Query("cosim", lambda: FrameHarness(6), 0, kind="cosim", cosim_cycles=60 if tier == "quick" else 300)]
