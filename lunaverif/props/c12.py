"""C12 -- endpoints only act on tokens for their own endpoint number.

DUT: two real USBDevice instances under the slotted symbolic host.
  device A: control endpoint (EP0, standard handlers), USBStreamInEndpoint EP1, USBStreamOutEndpoint EP1 (same number,
            other direction), USBSignalInEndpoint EP2 -- and it sees the whole script (traffic for all endpoints,
            other addresses, SETUPs, host ACKs of everybody's data);
  device B: ONLY the endpoint under test X (IN EP1 or OUT EP1), and it sees only the slots that carry X's own token
            (number and direction); every other slot is silence for it.
Oracle (non-interference by self-composition): in X's slots device A must put exactly the same bytes on the wire in
every transaction as device B (PID, length, every byte), its OUT stream must deliver the same bytes with the same
first/last marks (count and tracked k-th element), and its IN stream must have consumed the same number of bytes -- so
nothing exchanged with other endpoints (tokens, data, handshakes) changes what X sends next, its data toggle or the
data it delivers.  Directly: device A stays silent in slots whose token names an
endpoint number / direction that does not exist, and answers an IN token for EP1 with data/NAK only (the OUT endpoint of
the same number must not add a handshake), an OUT token for EP1 with a handshake only.
"""
from amaranth import *
from ..harness import Harness
from ..engine import Query
from ..lib.host import SlottedHost, TxSpy, slot_cubes, KIND_NONE, KIND_SETUP, KIND_IN, KIND_OUT, KIND_SOF, KIND_HSK
from ..lib.device import tie_device, small_descriptors

PROP = "C12"
ENCODED = ["luna/gateware/usb/usb2/endpoint.py: USBEndpointMultiplexer (broadcast of tokenizer / handshakes / rx)",
           "luna/gateware/usb/usb2/endpoints/stream.py: USBStreamInEndpoint, USBStreamOutEndpoint (endpoint gating)",
           "luna/gateware/usb/usb2/transfer.py: USBInTransferManager", "luna/gateware/usb/usb2/endpoints/status.py",
           "luna/gateware/usb/usb2/device.py: USBDevice.elaborate (composition)"]
ASSUMPTIONS = [
    "full speed over UTMI, tx_ready = 1, line idle, VBUS present; slotted host with fixed packet timing (32-cycle slots), "
    "host ACKs only data the device sent in that slot, no lone handshakes, no SET_ADDRESS (address stays 0)",
    "legal host: no SETUP token to a non-control endpoint (the control endpoint's setup decoder does not look at the endpoint "
    "number; see C20)",
    "both devices get the same IN stream (always valid, symbolic constant byte, no `last`) and an always-ready OUT consumer",
    "OUT payloads of one byte (IN endpoint under test: zero-length) with DATA0/DATA1 PID and optional CRC corruption",
    "the per-slot (kind, flag, DATA PID) choices are enumerated as separate solver queries (cubes); endpoint numbers 0..3, "
    "addresses and data stay symbolic in every cube",
]
BOUNDS = "BMC from reset over N = 3 (quick) / 4 (thorough) symbolic transactions, endpoint numbers 0..3, all addresses; " \
         "endpoint under test: IN EP1 and OUT EP1"
OUTSIDE = "sequences longer than N transactions; PING (high speed only); tx_ready stalls (C11/C13 unit level)"


def build_devices(x_kind):
    from luna.gateware.interface.utmi import UTMIInterface
    from luna.gateware.usb.usb2.device import USBDevice
    from luna.gateware.usb.usb2.control import USBControlEndpoint
    from luna.gateware.usb.usb2.endpoints.stream import USBStreamInEndpoint, USBStreamOutEndpoint
    from luna.gateware.usb.usb2.endpoints.status import USBSignalInEndpoint
    # device A: everything
    ua = UTMIInterface()
    da = USBDevice(bus=ua, handle_clocking=False)
    ep0 = USBControlEndpoint(utmi=ua, max_packet_size=8)
    ep0.add_standard_request_handlers(small_descriptors())
    a_in = USBStreamInEndpoint(endpoint_number=1, max_packet_size=2)
    a_out = USBStreamOutEndpoint(endpoint_number=1, max_packet_size=2)
    a_sig = USBSignalInEndpoint(width=8, endpoint_number=2)
    for e in (ep0, a_in, a_out, a_sig):
        da.add_endpoint(e)
    # device B: only the endpoint under test
    ub = UTMIInterface()
    db = USBDevice(bus=ub, handle_clocking=False)
    if x_kind == "in":
        b_x = USBStreamInEndpoint(endpoint_number=1, max_packet_size=2)
    else:
        b_x = USBStreamOutEndpoint(endpoint_number=1, max_packet_size=2)
    db.add_endpoint(b_x)
    return (ua, da, a_in, a_out, a_sig), (ub, db, b_x)


class IsoHarness(Harness):
    def __init__(self, nslots, x_kind):
        super().__init__()
        self.nslots, self.x_kind = nslots, x_kind
        (self.ua, self.da, self.a_in, self.a_out, self.a_sig), (self.ub, self.db, self.b_x) = build_devices(x_kind)
        self.hostA = SlottedHost(self, nslots, prefix="s")
        self.hostB = SlottedHost(self, nslots, prefix="sb", share=self.hostA)
        self.in_byte = self.inp("in_byte", 8, const=True)
        self.sig_value = self.inp("sig_value", 8, const=True)
        self.k = self.inp("k", 3, const=True)             # index of the tracked delivered byte
        self.v = {n: self.viol(n) for n in ["same_bytes", "same_stream", "nonexistent_silent", "in_token_answer",
                                            "out_token_answer"]}
        self.c = {n: self.cover(n) for n in ["x_after_other_traffic", "x_data_after_foreign_ack", "x_second_packet",
                                             "out_delivered"]}
        self.a = {n: self.assume(n) for n in ["legal", "no_hsk", "no_set_address", "no_setup_other_ep"]}

    def elaborate(self, platform):
        m = Module()
        hA, hB, ua, ub = self.hostA, self.hostB, self.ua, self.ub
        m.submodules.devA, m.submodules.devB = self.da, self.db
        x_tok = KIND_IN if self.x_kind == "in" else KIND_OUT
        hA.build(m, "usb")
        spyA = TxSpy(m, "usb", hA, ua.tx_valid, ua.tx_data, nbytes=4, name="txA")
        hA.add_in_ack(m, "usb", spyA.is_data & ~ua.tx_valid)
        tie_device(m, ua, self.da, hA)
        is_x_slot_b = (hB.cur_kind == x_tok) & (hB.cur_ep == 1) & (hB.cur_addr == 0)
        hB.build(m, "usb", mute=~is_x_slot_b)
        spyB = TxSpy(m, "usb", hB, ub.tx_valid, ub.tx_data, nbytes=4, name="txB")
        with m.If(is_x_slot_b):
            hB.add_in_ack(m, "usb", spyB.is_data & ~ub.tx_valid)
        tie_device(m, ub, self.db, hB)
        m.d.comb += [
            self.a_in.stream.valid.eq(1), self.a_in.stream.payload.eq(self.in_byte), self.a_in.stream.last.eq(0),
            self.a_out.stream.ready.eq(1), self.a_sig.signal.eq(self.sig_value),
        ]
        if self.x_kind == "in":
            bs = self.b_x.stream
            m.d.comb += [bs.valid.eq(1), bs.payload.eq(self.in_byte), bs.last.eq(0)]
        else:
            m.d.comb += self.b_x.stream.ready.eq(1)
        n = self.nslots
        nohsk, noaddr, nosetup = Const(1), Const(1), Const(1)
        for i in range(n):
            nohsk = nohsk & (hA.kind[i] != KIND_HSK)
            nosetup = nosetup & ~((hA.kind[i] == KIND_SETUP) & (hA.ep[i] != 0))
            noaddr = noaddr & ~((hA.kind[i] == KIND_SETUP) & (hA.data[i][5:7] == 0) & (hA.data[i][8:16] == 5))
        m.d.comb += [self.a["legal"].eq(hA.legal), self.a["no_hsk"].eq(nohsk), self.a["no_set_address"].eq(noaddr),
                     self.a["no_setup_other_ep"].eq(nosetup)]

        live = ~hA.done
        to_us = (hA.cur_addr == 0)
        x_slot = live & (hA.cur_kind == x_tok) & (hA.cur_ep == 1) & to_us
        # what the two devices put on the wire in X's slots is compared per transaction (PID, length, bytes), not cycle by
        # cycle: device A's shared inter-packet timer is also restarted by its control endpoint's packet deserializer, which
        # legitimately moves a handshake by one cycle
        at_end = hA.slot_end & live
        m.d.comb += self.v["same_bytes"].eq(at_end & x_slot & (
            (spyA.count != spyB.count) | (spyA.pid != spyB.pid) | (spyA.packets != spyB.packets) |
            (Cat(*spyA.bytes) != Cat(*spyB.bytes))))
        cntA, cntB = Signal(6), Signal(6)
        trkA, trkB = Signal(11), Signal(11)
        if self.x_kind == "in":
            sa, sb = self.a_in.stream, self.b_x.stream
            with m.If(sa.valid & sa.ready):
                m.d.usb += cntA.eq(cntA + 1)
            with m.If(sb.valid & sb.ready):
                m.d.usb += cntB.eq(cntB + 1)
            m.d.comb += self.v["same_stream"].eq(at_end & (cntA != cntB))
        else:
            sa, sb = self.a_out.stream, self.b_x.stream
            for st, cnt, trk in ((sa, cntA, trkA), (sb, cntB, trkB)):
                with m.If(st.valid & st.ready):
                    m.d.usb += cnt.eq(cnt + 1)
                    with m.If(cnt == self.k):
                        m.d.usb += trk.eq(Cat(st.payload, st.first, st.last, Const(1, 1)))
            m.d.comb += self.v["same_stream"].eq(at_end & ((cntA != cntB) | (trkA != trkB)))
        judge = hA.slot_end & live
        ep = hA.cur_ep
        exists = ((hA.cur_kind == KIND_IN) & ((ep == 0) | (ep == 1) | (ep == 2))) | \
                 ((hA.cur_kind == KIND_OUT) & ((ep == 0) | (ep == 1))) | ((hA.cur_kind == KIND_SETUP) & (ep == 0))
        sent = spyA.count != 0
        m.d.comb += [
            self.v["nonexistent_silent"].eq(judge & sent & ~(exists & to_us)),
            # IN token for EP1: one data packet or one NAK/STALL, nothing from the OUT side (no ACK)
            self.v["in_token_answer"].eq(judge & (hA.cur_kind == KIND_IN) & (ep == 1) & to_us &
                                         ((spyA.packets > 1) | (sent & (spyA.pid == 0xD2)))),
            # OUT token for EP1: at most one handshake, never data
            self.v["out_token_answer"].eq(judge & (hA.cur_kind == KIND_OUT) & (ep == 1) & to_us &
                                          ((spyA.packets > 1) | spyA.is_data)),
        ]
        other_seen = Signal()       # an earlier slot carried traffic for another endpoint of this device
        foreign_ack = Signal()      # an earlier slot had the host ACK data of another endpoint / address
        x_count = Signal(2)
        with m.If(judge):
            with m.If(~x_slot & (hA.cur_kind != KIND_NONE)):
                m.d.usb += other_seen.eq(1)
            with m.If(~x_slot & (hA.cur_kind == KIND_IN) & hA.cur_flag & spyA.is_data):
                m.d.usb += foreign_ack.eq(1)
            with m.If(x_slot & sent & (x_count != 3)):
                m.d.usb += x_count.eq(x_count + 1)
        m.d.comb += [
            self.c["x_after_other_traffic"].eq(judge & x_slot & sent & other_seen),
            self.c["x_data_after_foreign_ack"].eq(judge & x_slot & sent & foreign_ack),
            self.c["x_second_packet"].eq(judge & x_slot & sent & (x_count == 1)),
            self.c["out_delivered"].eq(self.a_out.stream.valid if self.x_kind == "out" else 0),
        ]
        return m

    def const_stimulus(self, rng):
        out = {}
        for name, (sig, const) in self._inputs.items():
            if name.endswith("_kind"):
                out[name] = rng.choice([KIND_IN, KIND_IN, KIND_OUT, KIND_OUT, KIND_SETUP, KIND_SOF])
            elif name.endswith("_ep"):
                out[name] = rng.choice([0, 1, 1, 1, 2, 3])
            elif name.endswith("_addr"):
                out[name] = 0 if rng.random() < 0.9 else rng.randrange(128)
            elif name.endswith("_olen"):
                out[name] = rng.randrange(3)
            else:
                out[name] = rng.getrandbits(len(sig))
        return out


def queries(tier):
    qs = []
    for x in ("in", "out"):
        f3 = (lambda x=x: IsoHarness(3, x))
        f4 = (lambda x=x: IsoHarness(4, x))
        x_tok = KIND_IN if x == "in" else KIND_OUT
        hints = {
            "x_after_other_traffic": {"s0_kind": KIND_IN, "s0_ep": 2, "s0_flag": 0, "s1_kind": x_tok, "s1_ep": 1},
            "x_data_after_foreign_ack": {"s0_kind": KIND_IN, "s0_ep": 2, "s0_flag": 1, "s1_kind": x_tok, "s1_ep": 1},
            "x_second_packet": {"s0_kind": x_tok, "s0_ep": 1, "s0_flag": 1 if x == "in" else 0, "s0_dpid": 0,
                                "s1_kind": x_tok, "s1_ep": 1, "s1_dpid": 1},
            "out_delivered": {"s0_kind": KIND_OUT, "s0_ep": 1, "s0_flag": 0, "s0_dpid": 0, "s0_olen": 1},
        }
        for hd in hints.values():
            for i in range(4):
                hd.setdefault(f"s{i}_kind", KIND_NONE)
                hd.setdefault(f"s{i}_flag", 0)
                hd.setdefault(f"s{i}_addr", 0)
                hd.setdefault(f"s{i}_ep", 0)
                hd.setdefault(f"s{i}_olen", 0)
                hd.setdefault(f"s{i}_dpid", 0)
        covers = ["x_after_other_traffic", "x_data_after_foreign_ack", "x_second_packet"] + (["out_delivered"] if x == "out" else [])
        qs.append(Query(f"covers_{x}_ep1", f3, 32 * 3 + 2, asserts=[], covers=covers, hints=hints, timeout=900, split=False,
                        desc=f"witnesses, endpoint under test {x.upper()} EP1"))
        # one solver process per cube of per-slot (kind, flag) choices; endpoint numbers, addresses, data, PIDs symbolic
        if tier == "quick":
            opts, first = ("IiQ", "Ii") if x == "in" else ("IQo", "Q")
        else:
            opts, first = "SIiQPoN", None
        cubes = list(slot_cubes(3, opts, first=first, defaults=dict(olen=1) if x == "out" else dict(olen=0)))
        if tier == "quick":
            # quick: the third transaction is of X's own kind (first X packet / foreign traffic / next X packet)
            cubes = [c for c in cubes if c[0][2] == ("I" if x == "in" else "Q")]
            # ... plus a control transfer before it: the control endpoint's data stage (another transmitter, another data
            # toggle) directly before X's transaction
            # (with the host's ACK withheld, "i": with it the control transfer's second data packet makes the cube exceed
            #  the memory cap)
            extra = ("SiI",) if x == "in" else ("SiQ",)
            cubes += [c for c in slot_cubes(3, "SIiQ", defaults=dict(olen=1) if x == "out" else dict(olen=0)) if c[0] in extra]
        else:
            # thorough: the last transaction is one of X's own kind (the comparison is made in X's slots), any two before it
            # (7 x 7 x 3 = 147 cubes per endpoint under test instead of 343)
            cubes = [c for c in cubes if c[0][2] in (("I", "i", "Q") if x == "in" else ("Q", "P", "o"))]
        for name, layer in cubes:
            qs.append(Query(f"bmc_{x}_ep1_{name}", f3, 32 * 3 + 2, layer=layer, covers=[], timeout=900, split=False,
                            desc=f"endpoint under test {x.upper()} EP1, transactions {name}: full device vs device with only that endpoint"))
        qs.append(Query(f"cosim_{x}", f3, 0, kind="cosim", cosim_cycles=100 if tier == "quick" else 300))
    return qs
