"""C26 -- stream arbiters forward whole bursts without loss.

DUTs: luna.gateware.stream.arbiter.StreamArbiter (1..4 inputs, domain "sync") and
      luna.gateware.usb.usb3.link.header.HeaderQueueArbiter (2 and 3 producers, domain "ss").
Oracle: two independent groups of assertions.
  * black-box conservation clauses that never mention a "selected" input: per cycle at most one input completes a
    handshake, the output completes a handshake iff exactly one input does and carries that input's word; an input
    whose valid has been held without a gap since its last transferred word is never overtaken by another input
    (bursts are not interleaved);
  * clauses about the selected input, where "selected" is a ghost register that follows the statement: it starts at
    the highest-priority input, keeps its value while the selected input's valid is high, and otherwise moves to the
    highest-priority input that is offering data (if any).  Forwarding, ready routing and idle are checked against it.
"""
from amaranth import *
from ..harness import Harness
from ..engine import Query
import z3

PROP = "C26"
ENCODED = ["luna/gateware/stream/arbiter.py: StreamArbiter.elaborate (output multiplexer, active_stream_index selection, idle)",
           "luna/gateware/usb/usb3/link/header.py: HeaderQueueArbiter (StreamArbiter over HeaderQueue records, domain ss), "
           "HeaderQueue.stream_eq/header_eq"]
ASSUMPTIONS = [
    "none on the environment: valid/first/last/payload of every input and the output's ready are free in every cycle "
    "(producers may even drop valid or change payload while stalled)",
    "the selection after reset is the highest-priority input (the only state the statement can start from)",
    "a selection change takes effect in the cycle after the selected input was seen idle (registered selection)",
]
BOUNDS = "StreamArbiter n=1..4 (default 8-bit streams; a 32-bit stream_type for n=2 in thorough), HeaderQueueArbiter n=2,3 (full 128-bit header); " \
         "BMC from reset K=10 (quick) / 16 (thorough); IND k=1 from an arbitrary selection state with ghost==active_stream_index " \
         "(complete for all histories)"
OUTSIDE = "more than 4 inputs; StreamMultiplexer and HeaderQueueDemultiplexer (no scheduling state; not named by the statement's " \
          "arbiter clauses); stream types with extra fields"


class ArbiterHarness(Harness):
    domains = ("sync",)

    def __init__(self, n=2, kind="stream", width=8):
        super().__init__()
        self.n, self.kind, self.width = n, kind, width
        if kind == "stream":
            from luna.gateware.stream.arbiter import StreamArbiter
            from luna.gateware.stream import StreamInterface
            self.domains = ("sync",)
            if width == 8:
                self.dut = StreamArbiter(domain="sync")          # default stream type: 8-bit payload
            else:
                self.dut = StreamArbiter(domain="sync", stream_type=lambda: StreamInterface(payload_width=width))
            self.sinks = [StreamInterface(payload_width=width) for _ in range(n)]
            for s in self.sinks:
                self.dut.add_stream(s)
            self.dw = width + 2
        else:
            from luna.gateware.usb.usb3.link.header import HeaderQueueArbiter, HeaderQueue
            self.domains = ("ss",)
            self.dut = HeaderQueueArbiter()
            self.sinks = [HeaderQueue() for _ in range(n)]
            for s in self.sinks:
                self.dut.add_producer(s)
            self.dw = len(Value.cast(self.sinks[0].header))
        self.i_valid = [self.inp(f"valid{i}", 1) for i in range(n)]
        self.i_data = [self.inp(f"data{i}", self.dw) for i in range(n)]
        self.i_ready = self.inp("ready", 1)
        self.v = {k: self.viol(k) for k in ("forward", "ready_routing", "idle", "conservation", "burst_interleaved",
                                            "selection")}
        self.c = {k: self.cover(k) for k in ("transfer", "stalled_then_transfer", "idle", "burst_kept",
                                             "low_priority_transfer")}
        if n >= 2:
            self.c["not_idle_gap"] = self.cover("not_idle_gap")    # the dead cycle between two inputs' bursts
            self.c["switch_up"] = self.cover("switch_up")          # to a higher-priority input
            self.c["switch_down"] = self.cover("switch_down")      # to a lower-priority input
        if n >= 3:
            self.c["priority_pick"] = self.cover("priority_pick")  # two others waiting, the higher-priority one is chosen
            self.c["skip_pick"] = self.cover("skip_pick")          # input 1 not waiting, input 2 chosen
        self.g_sel = Signal(range(n), name="g_sel") if n > 1 else Const(0, 1)
        self.g_owner = Signal(range(n), name="g_owner") if n > 1 else Const(0, 1)
        self.g_held = Signal(name="g_held")
        if n > 1:
            self.obs("g_sel", self.g_sel)

    def _fields(self, rec):
        """data of a stream record as one value (same packing as the data inputs)"""
        if self.kind == "stream":
            return Cat(rec.payload, rec.first, rec.last)
        return Value.cast(rec.header)

    def elaborate(self, platform):
        m = Module()
        m.submodules.dut = dut = self.dut
        dom = m.d[self.domain]
        n = self.n
        src = dut.source
        # ---- environment: free producers, free consumer
        for i, s in enumerate(self.sinks):
            m.d.comb += s.valid.eq(self.i_valid[i])
            if self.kind == "stream":
                m.d.comb += [s.payload.eq(self.i_data[i][:self.width]), s.first.eq(self.i_data[i][self.width]),
                             s.last.eq(self.i_data[i][self.width + 1])]
            else:
                m.d.comb += s.header.eq(self.i_data[i])
        m.d.comb += src.ready.eq(self.i_ready)

        valids = Signal(n, name="g_valids")
        readys = Signal(n, name="g_readys")
        m.d.comb += [valids.eq(Cat(*self.i_valid)), readys.eq(Cat(*[s.ready for s in self.sinks]))]
        acc = Signal(n, name="g_acc")
        m.d.comb += acc.eq(valids & readys)
        out_data = Signal(self.dw, name="g_out_data")
        m.d.comb += out_data.eq(self._fields(src))
        out_xfer = Signal(name="g_out_xfer")
        m.d.comb += out_xfer.eq(src.valid & src.ready)
        data_arr = Array(self.i_data)
        valid_arr = Array(self.i_valid)

        # highest-priority input offering data
        any_valid = Signal(name="g_any_valid")
        first_valid = Signal(range(max(n, 2)), name="g_first_valid")
        m.d.comb += any_valid.eq(valids.any())
        for i in reversed(range(n)):
            with m.If(self.i_valid[i]):
                m.d.comb += first_valid.eq(i)

        # ---- ghost selection, straight from the statement
        sel = self.g_sel
        sel_valid = Signal(name="g_sel_valid")
        m.d.comb += sel_valid.eq(valid_arr[sel])
        if n > 1:
            with m.If(~sel_valid & any_valid):
                dom += sel.eq(first_valid)

        # ---- selected-input clauses
        m.d.comb += self.v["forward"].eq((src.valid != sel_valid) | (out_data != data_arr[sel]))
        exp_ready = Signal(n, name="g_exp_ready")
        for i in range(n):
            m.d.comb += exp_ready[i].eq((sel == i) & self.i_ready)
        m.d.comb += self.v["ready_routing"].eq(readys != exp_ready)
        m.d.comb += self.v["idle"].eq(dut.idle != ~any_valid)

        # selection as observed from outside: while the consumer is ready, the input that sees ready is the selected one.
        # "no switch while valid is held" and "highest priority when the current one goes idle", on observed selection.
        obs_known = Signal(name="g_obs_known")            # previous cycle had ready=1 and exactly one input saw it
        obs_prev = Signal(range(max(n, 2)), name="g_obs_prev")
        obs_prev_valid = Signal(name="g_obs_prev_valid")  # that input offered data in the previous cycle
        prev_any = Signal(name="g_prev_any")
        prev_first = Signal(range(max(n, 2)), name="g_prev_first")
        onehot = Signal(name="g_onehot")
        obs_now = Signal(range(max(n, 2)), name="g_obs_now")
        m.d.comb += onehot.eq((readys != 0) & ((readys & (readys - 1)) == 0))
        for i in range(n):
            with m.If(readys[i]):
                m.d.comb += obs_now.eq(i)
        dom += [obs_known.eq(self.i_ready & onehot), obs_prev.eq(obs_now), obs_prev_valid.eq((valids & readys).any()),
                prev_any.eq(any_valid), prev_first.eq(first_valid)]
        with m.If(obs_known & self.i_ready):
            with m.If(~onehot):
                m.d.comb += self.v["selection"].eq(1)
            with m.Elif(obs_prev_valid):
                m.d.comb += self.v["selection"].eq(obs_now != obs_prev)                 # switched while valid held
            with m.Elif(prev_any):
                m.d.comb += self.v["selection"].eq(obs_now != prev_first)               # not the highest-priority waiter
            with m.Else():
                m.d.comb += self.v["selection"].eq(obs_now != obs_prev)                 # nobody waiting: stays

        # ---- black-box conservation: exactly once, from exactly one input, same word
        acc_onehot = Signal(name="g_acc_onehot")
        m.d.comb += acc_onehot.eq((acc != 0) & ((acc & (acc - 1)) == 0))
        acc_idx = Signal(range(max(n, 2)), name="g_acc_idx")
        for i in range(n):
            with m.If(acc[i]):
                m.d.comb += acc_idx.eq(i)
        m.d.comb += self.v["conservation"].eq(
            ((acc != 0) & ~acc_onehot) | (out_xfer != acc_onehot) | (acc_onehot & (out_data != data_arr[acc_idx])))

        # ---- bursts are not interleaved: owner = last input that transferred a word; held = its valid has been high in
        # every cycle since (including now)
        owner, held = self.g_owner, self.g_held
        owner_valid = Signal(name="g_owner_valid")
        m.d.comb += owner_valid.eq(valid_arr[owner])
        m.d.comb += self.v["burst_interleaved"].eq(held & owner_valid & (acc != 0) & (acc_idx != owner))
        with m.If(acc != 0):
            if n > 1:
                dom += owner.eq(acc_idx)
            dom += held.eq(1)
        with m.Elif(~owner_valid):
            dom += held.eq(0)

        # ---- covers
        stalled = Signal(name="g_stalled")
        dom += stalled.eq(src.valid & ~self.i_ready)
        burst2 = Signal(name="g_burst2")
        other_waiting = Signal(name="g_other_waiting")
        m.d.comb += other_waiting.eq((valids & ~(1 << sel)).any() if n > 1 else 0)
        dom += burst2.eq(out_xfer & other_waiting if n > 1 else out_xfer)
        sel_prev = Signal(range(max(n, 2)), name="g_sel_prev")
        dom += sel_prev.eq(sel)
        waiting2 = Signal(name="g_waiting2")
        dom += waiting2.eq(~sel_valid & (valids & (valids - 1)).any())
        c = self.c
        m.d.comb += [
            c["transfer"].eq(out_xfer & (out_data != 0)),
            c["stalled_then_transfer"].eq(stalled & out_xfer),
            c["idle"].eq(dut.idle & (sel != 0) if n > 1 else dut.idle),
            c["burst_kept"].eq(burst2 & out_xfer & other_waiting & (sel == sel_prev) & (sel != 0) if n > 1 else burst2 & out_xfer),
            c["low_priority_transfer"].eq(out_xfer & (sel == n - 1)),
        ]
        if n >= 2:
            m.d.comb += [
                c["not_idle_gap"].eq(~dut.idle & ~src.valid),
                c["switch_up"].eq((sel < sel_prev) & out_xfer),
                c["switch_down"].eq((sel > sel_prev) & out_xfer),
            ]
        if n >= 3:
            m.d.comb += c["priority_pick"].eq(waiting2 & (sel != sel_prev) & out_xfer)
            skip = Signal(name="g_skip")
            dom += skip.eq(~sel_valid & ~self.i_valid[1] & self.i_valid[2] & ~self.i_valid[0])
            m.d.comb += c["skip_pick"].eq(skip & (sel == 2) & out_xfer)
        return m

    def stimulus(self, rng, t, consts):
        out = {"ready": int(rng.random() < 0.7)}
        # bursty valids so that switches, stalls and idle periods all occur
        if not hasattr(self, "_st") or t == 0:
            self._st = [0] * self.n
        for i in range(self.n):
            if rng.random() < 0.3:
                self._st[i] ^= 1
            out[f"valid{i}"] = self._st[i]
            out[f"data{i}"] = rng.getrandbits(self.dw)
        return out


def _inv(ts, frame, h):
    """IND strengthening: ghost selection == DUT active_stream_index (< n); a held burst belongs to the selected input;
    the observed-selection history registers are consistent with the ghost selection."""
    names = ["dut.active_stream_index"]
    n = h.n
    if n == 1:
        s = z3.BitVecVal(0, 1)
        conds = []
    else:
        idx = ts.signal_by_name(names[0])
        if idx is None:
            return None, names
        a = frame.sig(idx)
        s = frame.sig(h.g_sel)
        o = frame.sig(h.g_owner)
        held = frame.sig(h.g_held)
        conds = [a == s, z3.ULT(s, n) if (1 << s.size()) > n else z3.BoolVal(True),
                 z3.ULT(o, n) if (1 << o.size()) > n else z3.BoolVal(True),
                 z3.Implies(held == 1, o == s)]
    g = lambda name: frame.sig(ts.signal_by_name(name))
    known, oprev, opv, pany, pfirst = g("g_obs_known"), g("g_obs_prev"), g("g_obs_prev_valid"), g("g_prev_any"), g("g_prev_first")
    W = oprev.size()
    sx = z3.ZeroExt(W - s.size(), s)
    # what the observed-selection registers say about the present selection
    conds.append(z3.Implies(known == 1,
                            z3.If(opv == 1, sx == oprev, z3.If(pany == 1, sx == pfirst, sx == oprev))))
    return conds, ["g_sel==active_stream_index<n", "held burst owner==selection", "observed-selection history consistent"]


def queries(tier):
    qs = []
    quick = tier == "quick"
    cfgs = [("stream", 1, 8), ("stream", 2, 8), ("stream", 3, 8), ("stream", 4, 8), ("header", 2, 0)]
    if not quick:
        cfgs += [("stream", 2, 32), ("header", 3, 0)]
    for kind, n, w in cfgs:
        tag = f"{kind}{n}" + (f"w{w}" if w not in (0, 8) else "")
        f = (lambda kind=kind, n=n, w=w: ArbiterHarness(n, kind, w or 8))
        K = 10 if quick else 16
        qs.append(Query(f"bmc_{tag}", f, K, split=False, timeout=600,
                        desc=f"{kind} arbiter, {n} input(s): every valid/data/ready free in every cycle (assertions and "
                             "reachability twins)"))
        qs.append(Query(f"ind_{tag}", f, 1, kind="ind", invariants=_inv, timeout=600,
                        desc="1-step induction from an arbitrary selection state (all histories), ghost selection == active_stream_index"))
        if not quick or tag in ("stream3", "header2"):
            qs.append(Query(f"cosim_{tag}", f, 0, kind="cosim", cosim_cycles=100 if quick else 1000))
    return qs
