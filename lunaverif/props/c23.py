"""C23 -- ULPI transmit translation delivers the UTMI packet unchanged.

DUT: luna.gateware.interface.ulpi.UTMITranslator (real class, with its real ULPITransmitTranslator,
ULPIRegisterWindow, ULPIControlTranslator and ULPIRxEventDecoder inside), ULPI bus object without `rst`,
handle_clocking=False.  Environment: the shared ULPI PHY model (lib/ulpi.py) on the bus side, a UTMI transmit
producer on the UTMI side.  The oracle is the PHY's view of the bus: an independent PHY-side command decoder says
which bytes the PHY accepted; they are compared with what the UTMI producer offered.

FINDINGS: none for this property (all assertions hold on the unchanged tree within the bounds; 10/10 mutants caught).
Observed while building it, recorded under C24: a transmission requested in the same cycle as a register write request
dead-locks both (the mutant "transmit drives only when the register window does not" fails here, i.e. both request the
bus in reachable states); the translator ignores DIR in its TRANSMIT state (outside the PHY contract assumed here).
"""
from amaranth import *
from ..harness import Harness
from ..engine import Query
from ..lib.ulpi import ULPIBus, ULPIPhyModel

PROP = "C23"
ENCODED = [
    "luna/gateware/interface/ulpi.py: ULPITransmitTranslator.elaborate (IDLE/TRANSMIT FSM, TXCMD, NOPID, STP, 0xFF)",
    "luna/gateware/interface/ulpi.py: UTMITranslator.elaborate (data/stp muxing, data.oe, bus_idle gating, tx_ready)",
]
ASSUMPTIONS = [
    "UTMI producer: while tx_valid=1 and tx_ready=0 the producer keeps tx_valid=1 and tx_data unchanged; "
    "tx_valid falls only in the cycle after an accepted byte; packets may follow each other after one idle cycle",
    "op_mode and the other UTMI control inputs are symbolic constants of a run (their changes are C24's subject)",
    "ULPI PHY contract of lib/ulpi.py: turnaround on DIR edges, DIR high >= 2 cycles, NXT with DIR=0 only to accept a "
    "byte of a command the link presents (never in the turnaround after DIR fell), the PHY does not raise DIR "
    "between accepting a transmit command and the link's STP; before that it may abort the command by DIR at will",
    "PID byte in normal mode: only the low nibble is carried by the TXCMD (the PHY regenerates the check nibble)",
]
BOUNDS = "BMC from reset, DIR/NXT/DATA free every cycle within the contract, tx_valid/tx_data free within the " \
         "producer contract, op_mode/xcvr_select/term_select/suspend/pull-downs/VBUS controls symbolic constants; " \
         "quick K=16 (22 with DIR tied low), thorough K=26 (30 with DIR tied low) (packets up to ~20 bytes, several packets, register writes interleaved)"
OUTSIDE = "a PHY that raises DIR after it accepted the transmit command and before STP (abort of a running " \
          "transmission; the translator ignores DIR in TRANSMIT); op_mode changing during a run; extended " \
          "register commands; progress/liveness of transmissions against register writes (C24)"


class TxHarness(Harness):
    domains = ("usb",)

    def __init__(self):
        super().__init__()
        from luna.gateware.interface.ulpi import UTMITranslator
        self.bus = ULPIBus()
        self.dut = UTMITranslator(ulpi=self.bus, handle_clocking=False)
        self.phy = ULPIPhyModel(self, self.bus)
        self.inp("tx_valid", signal=self.dut.tx_valid)
        self.inp("tx_data", signal=self.dut.tx_data)
        for name, _ in self.dut.CONTROL_SIGNALS:
            self.inp(name, signal=getattr(self.dut, name), const=True)
        self.k = self.inp("k", 4, const=True)
        self.a_prod = self.assume("utmi_producer")
        names = ["txcmd_value", "one_txcmd", "cmd_kind", "ready_iff_accepted", "data_value", "order",
                 "stp_timing", "stp_data", "cmd_held", "no_drive_on_dir"]
        self.v = {n: self.viol(n) for n in names}
        cov = ["txcmd_pid", "txcmd_nopid", "throttled_byte", "stp_normal", "stp_ff", "three_bytes", "tracked",
               "dir_high", "txcmd_aborted", "regwrite_seen", "second_packet"]
        self.c = {n: self.cover(n) for n in cov}

    def elaborate(self, platform):
        m = Module()
        m.submodules.dut = dut = self.dut
        phy, bus = self.phy, self.bus
        phy.build(m)
        d = m.d.usb
        v, c = self.v, self.c
        tx_valid, tx_data, tx_ready = dut.tx_valid, dut.tx_data, dut.tx_ready
        do, oe, stp, dir_, nxt = bus.data.o, bus.data.oe, bus.stp.o, bus.dir.i, bus.nxt.i
        nopid = Signal(name="nopid")
        m.d.comb += nopid.eq(dut.op_mode == 2)

        # ---- UTMI producer contract
        p_valid, p_ready, p_data = Signal(name="p_valid"), Signal(name="p_ready"), Signal(8, name="p_data")
        d += [p_valid.eq(tx_valid), p_ready.eq(tx_ready), p_data.eq(tx_data)]
        pending = p_valid & ~p_ready
        m.d.comb += self.a_prod.eq(~pending | (tx_valid & (tx_data == p_data)))
        u_acc = Signal(name="u_acc")                     # UTMI byte reported accepted
        m.d.comb += u_acc.eq(tx_valid & tx_ready)
        end_of_packet = Signal(name="end_of_packet")     # first cycle after the last accepted byte
        m.d.comb += end_of_packet.eq(p_valid & p_ready & ~tx_valid)

        # ---- clause: one transmit command per transmission, carrying the PID nibble / NOPID
        exp_cmd = Signal(8, name="exp_cmd")
        m.d.comb += exp_cmd.eq(Mux(nopid, 0x40, 0x40 | tx_data[0:4]))
        cmd_done = Signal(name="cmd_done")               # this UTMI transmission already had its TXCMD accepted
        with m.If(~tx_valid):
            d += cmd_done.eq(0)
        with m.Elif(phy.txcmd_acc):
            d += cmd_done.eq(1)
        m.d.comb += [
            v["txcmd_value"].eq(phy.txcmd_acc & ((do != exp_cmd) | ~tx_valid)),
            v["one_txcmd"].eq((phy.txcmd_acc & cmd_done) | (end_of_packet & ~cmd_done)),
            # the translator only ever issues transmit commands and immediate register writes
            v["cmd_kind"].eq(phy.cmd_present & nxt & ~(phy.cmd_tx | phy.cmd_rw)),
            c["txcmd_pid"].eq(phy.txcmd_acc & ~nopid),
            c["txcmd_nopid"].eq(phy.txcmd_acc & nopid),
        ]
        # a presented transmit command stays on the bus unchanged until the PHY accepts it or takes the bus
        p_cmd = Signal(name="p_cmd_waiting")
        p_do = Signal(8, name="p_do")
        d += [p_cmd.eq(phy.cmd_tx & ~nxt), p_do.eq(do)]
        m.d.comb += v["cmd_held"].eq(p_cmd & ~dir_ & (do != p_do))

        # ---- clause: a UTMI byte is reported accepted exactly when the PHY accepted it
        phy_acc_utmi = Signal(name="phy_acc_utmi")       # PHY accepted a byte that carries a UTMI byte
        m.d.comb += phy_acc_utmi.eq((phy.txcmd_acc & ~nopid) | phy.txdata_acc)
        m.d.comb += v["ready_iff_accepted"].eq(u_acc != phy_acc_utmi)

        # ---- clause: remaining bytes, unchanged (same cycle) and in order (tracked element k)
        m.d.comb += v["data_value"].eq(phy.txdata_acc & (do != tx_data))
        ucnt, pcnt = Signal(5, name="ucnt"), Signal(5, name="pcnt")
        ubyte, useen = Signal(8, name="ubyte"), Signal(name="useen")
        with m.If(u_acc & (ucnt != 31)):
            d += ucnt.eq(ucnt + 1)
            with m.If(ucnt == self.k):
                d += [ubyte.eq(tx_data), useen.eq(1)]
        with m.If(phy_acc_utmi & (pcnt != 31)):
            d += pcnt.eq(pcnt + 1)
        kth_now = phy_acc_utmi & (pcnt == self.k)
        ref = Signal(8, name="ref_byte")                 # k-th UTMI byte (captured earlier or offered right now)
        m.d.comb += ref.eq(Mux(useen, ubyte, tx_data))
        offered = useen | (u_acc & (ucnt == self.k))
        as_cmd = phy.txcmd_acc
        mismatch = Mux(as_cmd, do[0:4] != ref[0:4], do != ref)
        m.d.comb += [
            v["order"].eq((kth_now & (~offered | mismatch)) | (pcnt > ucnt)),
            c["tracked"].eq(kth_now & phy.txdata_acc & (self.k >= 2)),
        ]

        # ---- clause: STP in the cycle after the last accepted byte, 0xFF in non-encoding mode (else 0x00)
        in_regwrite = phy.in_state(phy.RW_DATA) | phy.in_state(phy.RW_STP)
        m.d.comb += [
            v["stp_timing"].eq((end_of_packet & ~(stp & phy.in_state(phy.TX))) | (stp & ~end_of_packet & ~in_regwrite)),
            v["stp_data"].eq(end_of_packet & ((do != Mux(nopid, 0xFF, 0x00)) | ~oe)),
            c["stp_normal"].eq(phy.tx_stp & ~nopid & (do == 0)),
            c["stp_ff"].eq(phy.tx_stp & nopid & (do == 0xFF)),
        ]

        # ---- clause: the link never drives the data bus while DIR is high
        m.d.comb += [
            v["no_drive_on_dir"].eq(dir_ & oe),
            c["dir_high"].eq(dir_ & ~oe & tx_valid),
        ]

        # ---- further covers
        stalled = Signal(name="stalled")                 # the byte on the bus was refused at least once
        d += stalled.eq(phy.in_state(phy.TX) & ~nxt & tx_valid)
        nbytes = Signal(3, name="nbytes")
        with m.If(~tx_valid):
            d += nbytes.eq(0)
        with m.Elif(u_acc & (nbytes != 7)):
            d += nbytes.eq(nbytes + 1)
        npk = Signal(2, name="npk")
        with m.If(phy.tx_stp & (npk != 3)):
            d += npk.eq(npk + 1)
        aborted = Signal(name="aborted")                 # a presented TXCMD was taken off the bus by DIR
        with m.If(p_cmd & dir_):
            d += aborted.eq(1)
        rw_seen = Signal(name="rw_seen")
        with m.If(phy.rw_commit):
            d += rw_seen.eq(1)
        m.d.comb += [
            c["throttled_byte"].eq(phy.txdata_acc & stalled),
            c["three_bytes"].eq(phy.tx_stp & (nbytes >= 3)),
            c["txcmd_aborted"].eq(aborted & phy.tx_stp),
            c["regwrite_seen"].eq(rw_seen & phy.tx_stp),
            c["second_packet"].eq(phy.tx_stp & (npk == 1)),
        ]
        return m

    def stimulus(self, rng, t, consts):
        st = self.__dict__.setdefault("_st", {})
        out = dict(consts)
        out.update(self.phy.stimulus(rng, st))
        if st.get("txlen", 0) > 0:
            out["tx_valid"] = 1
            if rng.random() < 0.5:
                st["txlen"] -= 1
                st["byte"] = rng.getrandbits(8)
            out["tx_data"] = st["byte"]
        else:
            out["tx_valid"] = 0
            out["tx_data"] = rng.getrandbits(8)
            if rng.random() < 0.2:
                st["txlen"] = rng.randint(1, 5)
                st["byte"] = rng.getrandbits(8)
        return out


def queries(tier):
    f = TxHarness
    quick = tier == "quick"
    qs = [
        Query("bmc_free", f, 16 if quick else 26, timeout=600,
              desc="UTMITranslator: DIR/NXT/DATA free within the PHY contract, tx_valid/tx_data free within the "
                   "producer contract, all control inputs symbolic constants"),
        Query("bmc_dirlow", f, 22 if quick else 30, covers=[], layer={"dir": 0}, timeout=600,
              desc="layer: DIR tied low (no receive traffic), NXT free: longer packets / more packets"),
        Query("cosim", f, 0, kind="cosim", cosim_cycles=300 if quick else 2000),
    ]
    return qs
