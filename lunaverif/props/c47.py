"""C47 -- isochronous timestamp packets are decoded in full.

DUT: luna.gateware.usb.usb3.protocol.timestamp.TimestampPacketReceiver (real class).
Oracle (USB 3.2 section 8.7, Isochronous Timestamp Packet): DW0[4:0] = type 0b01100,
DW0[18:5] = 14-bit bus interval counter, DW0[31:19] = 13-bit delta.  The monitor slices
the symbolic DW0 itself and remembers the fields of the most recent timestamp packet in
ghost registers; the DUT's outputs are zero-extended to the architectural widths before
the comparison, so an output that is too narrow shows up as a value mismatch.
"""
from amaranth import *
from ..harness import Harness
from ..engine import Query

# FINDINGS
#   58e3140 "fix: give the timestamp packet fields their full width"
#       bus_interval_counter and delta were 1-bit Signals; caught by counter_full and delta_full (bmc_free, step 1:
#       a timestamp packet whose counter/delta field has bits above bit 0 set).

PROP = "C47"
ENCODED = ["luna/gateware/usb/usb3/protocol/timestamp.py: TimestampPacketReceiver (field extraction, output widths, "
           "update strobe, header acceptance)"]
ASSUMPTIONS = [
    "header_sink.valid and all 128 header bits are free in every cycle (no producer contract is needed: the receiver "
    "accepts a header in the cycle it is presented)",
    "a 'timestamp packet' is a valid header whose DW0[4:0] equals 0b01100 (USB 3.2 table 8-26)",
    "outputs are registered: values are compared in the cycle after the packet is presented",
]
BOUNDS = "BMC from reset, K=6 (quick) / K=12 (thorough), header valid and contents free every cycle; 1-step induction " \
         "from an arbitrary state with ghost==previous packet's fields (all histories)"
OUTSIDE = "the wiring inside USB3ProtocolLayer (bus_interval.eq(itp_handler.bus_interval_counter), a 14-bit Signal) is " \
          "only checked for its declared width, not elaborated; nobody in the tree consumes `delta`"

ITP_TYPE = 0b01100


class TimestampHarness(Harness):
    domains = ("ss",)

    def __init__(self):
        super().__init__()
        from luna.gateware.usb.usb3.protocol.timestamp import TimestampPacketReceiver
        self.dut = dut = TimestampPacketReceiver()
        hdr = dut.header_sink.header
        self.valid = self.inp("valid", signal=dut.header_sink.valid)
        self.dw0 = self.inp("dw0", signal=hdr.dw0)
        # the remaining header words are not read by the receiver; registered so that nothing is tied by accident
        self.inp("dw1", signal=hdr.dw1)
        self.inp("dw2", signal=hdr.dw2)
        for f in ("crc16", "sequence_number", "dw3_reserved", "hub_depth", "delayed", "deferred", "crc5"):
            self.inp(f, signal=getattr(hdr, f))
        self.v_update = self.viol("update_raised")        # strobe raised after every timestamp packet
        self.v_spurious = self.viol("update_only_on_packet")
        self.v_counter = self.viol("counter_full")        # 14-bit counter of the latest packet
        self.v_delta = self.viol("delta_full")            # 13-bit delta of the latest packet
        self.v_accept = self.viol("accepted")             # timestamp packets are consumed, others are left alone
        self.c_update = self.cover("update_raised")
        self.c_noupdate = self.cover("update_only_on_packet")
        self.c_counter = self.cover("counter_full")       # a packet with counter bits above bit 0 set
        self.c_delta = self.cover("delta_full")
        self.c_accept = self.cover("accepted")
        self.g_seen = Signal(name="g_seen")
        self.g_last = Signal(name="g_last")
        self.g_counter = Signal(14, name="g_counter")
        self.g_delta = Signal(13, name="g_delta")
        for s in (self.g_seen, self.g_last, self.g_counter, self.g_delta):
            self.obs(s.name, s)
        self.obs("bus_interval_counter", dut.bus_interval_counter)
        self.obs("delta", dut.delta)
        self.obs("update_received", dut.update_received)

    def elaborate(self, platform):
        m = Module()
        m.submodules.dut = dut = self.dut
        is_itp = Signal(name="is_itp")
        m.d.comb += is_itp.eq(self.valid & (self.dw0[0:5] == ITP_TYPE))
        m.d.ss += self.g_last.eq(is_itp)
        with m.If(is_itp):
            m.d.ss += [self.g_seen.eq(1), self.g_counter.eq(self.dw0[5:19]), self.g_delta.eq(self.dw0[19:32])]
        # outputs widened to the architectural widths (a narrower output reads as zero in its missing bits)
        counter = Signal(14, name="dut_counter14")
        delta = Signal(13, name="dut_delta13")
        m.d.comb += [counter.eq(dut.bus_interval_counter), delta.eq(dut.delta)]
        m.d.comb += [
            self.v_update.eq(self.g_last & ~dut.update_received),
            self.v_spurious.eq(~self.g_last & dut.update_received),
            self.v_counter.eq(self.g_seen & (counter != self.g_counter)),
            self.v_delta.eq(self.g_seen & (delta != self.g_delta)),
            self.v_accept.eq(dut.header_sink.ready != is_itp),
            self.c_update.eq(self.g_last & dut.update_received),
            self.c_noupdate.eq(self.g_seen & ~self.g_last & ~dut.update_received),
            self.c_counter.eq(self.g_seen & (self.g_counter[1:] != 0)),
            self.c_delta.eq(self.g_seen & (self.g_delta[1:] != 0)),
            self.c_accept.eq(is_itp & dut.header_sink.ready),
        ]
        return m

    def stimulus(self, rng, t, consts):
        d = super().stimulus(rng, t, consts)
        if rng.random() < 0.5:
            d["dw0"] = (d["dw0"] & ~0x1f) | ITP_TYPE
        return d


def _inv(ts, frame, h):
    """IND strengthening: the DUT's registers equal the ghost copy of the last packet (low bits if narrower)"""
    import z3
    names = ["g_seen", "g_last", "g_counter", "g_delta"]
    g = {n: ts.signal_by_name(n) for n in names}
    if any(v is None for v in g.values()):
        return None, names
    dut = h.dut
    if any(s not in ts.netlist.signals for s in (dut.bus_interval_counter, dut.delta, dut.update_received)):
        return None, ["dut outputs"]
    seen, last = frame.sig(g["g_seen"]), frame.sig(g["g_last"])
    gc, gd = frame.sig(g["g_counter"]), frame.sig(g["g_delta"])
    c, d, u = frame.sig(dut.bus_interval_counter), frame.sig(dut.delta), frame.sig(dut.update_received)
    conds = [u == last,
             z3.Implies(seen == 1, z3.ZeroExt(14 - c.size(), c) == gc),
             z3.Implies(seen == 1, z3.ZeroExt(13 - d.size(), d) == gd)]
    return conds, ["update_received==g_last", "seen -> counter==g_counter", "seen -> delta==g_delta"]


def _width_audit():
    """assertion-free facts about declared widths (printed into the query description)"""
    from luna.gateware.usb.usb3.protocol.timestamp import TimestampPacketReceiver
    d = TimestampPacketReceiver()
    return f"declared widths: bus_interval_counter={len(d.bus_interval_counter)} (spec 14), delta={len(d.delta)} (spec 13)"


def queries(tier):
    f = TimestampHarness
    K = 6 if tier == "quick" else 12
    return [
        Query("bmc_free", f, K, desc="header valid/contents free every cycle; every clause from reset. " + _width_audit()),
        Query("ind", f, 1, kind="ind", invariants=_inv,
              desc="1-step induction from an arbitrary state where DUT registers equal the ghost of the last packet"),
        Query("cosim", f, 0, kind="cosim", cosim_cycles=200 if tier == "quick" else 1000),
    ]
