"""C20 -- everything the USB2 device transmits is a well-formed, solicited packet.

(a) Unit: UTMIInterfaceMultiplexer / OneHotMultiplexer (3 inputs): with at most one valid input the output equals
    that input and `ready` is passed back; decided for all input values (combinational, K=1).
(b) Device: the real USBDevice (full speed over UTMI) with the standard control endpoint (EP0), a USBStreamInEndpoint
    (EP1), a USBStreamOutEndpoint (EP2) and a USBSignalInEndpoint (EP3), driven by the slotted symbolic host with a
    *free* PHY tx_ready pattern.  A monitor decodes every accepted transmit byte:
      - each packet is a single handshake byte with a valid ACK/NAK/STALL/NYET PID, or a DATAx PID + payload + the
        correct CRC16 (reference CRC over the accepted bytes), tx_valid continuous from first to last byte;
      - the device transmits only in slots whose token addresses it and an endpoint/direction that exists, only
        after the host's packet(s) of the transaction have ended, at most one packet per transaction, and never
        while a packet is being received.
"""
from amaranth import *
from ..harness import Harness
from ..engine import Query
from ..lib.host import SlottedHost, TxSpy, slot_cubes, KIND_NONE, KIND_SETUP, KIND_IN, KIND_OUT, KIND_SOF, KIND_HSK
from ..lib.device import make_device, tie_device

PROP = "C20"
ENCODED = ["luna/gateware/interface/utmi.py: UTMIInterfaceMultiplexer", "luna/gateware/utils/bus.py: OneHotMultiplexer",
           "luna/gateware/usb/usb2/device.py: USBDevice.elaborate (transmit multiplexing, whole composition)",
           "luna/gateware/usb/usb2/packet.py: USBDataPacketGenerator, USBHandshakeGenerator, USBDataPacketCRC (tx path)",
           "luna/gateware/usb/usb2/endpoint.py: USBEndpointMultiplexer",
           "endpoints: control.py, endpoints/stream.py (IN, OUT), endpoints/status.py, transfer.py"]
ASSUMPTIONS = [
    "legal host: slotted transactions with fixed packet timing (32-cycle slots), host ACKs only data the device sent, no lone "
    "handshakes, no SET_ADDRESS request in the script (device stays at address 0; address changes are C08)",
    "legal host: no SETUP token to a non-control endpoint (observation, not asserted: the control endpoint's setup decoder does "
    "not look at the token's endpoint number, so such a SETUP would be decoded and ACKed by endpoint 0)",
    "PHY tx_ready is free every cycle, but the device's transmission must have ended two cycles before the end of the slot "
    "(bounded stalls) -- otherwise the fixed-slot host would collide with it",
    "full speed over UTMI, line idle (J), VBUS present: no reset/chirp activity (C19)",
    "EP1 stream always offers a symbolic constant byte; EP2 consumer always ready; EP3 signal is a symbolic constant",
    "the transmit CRC reference is computed with the repo's own step function (C30 proves it equal to the standard; C03 "
    "checks the generator against an independent reference)",
]
BOUNDS = "mux: all inputs, K=1.  device: BMC from reset over N = 2 and N = 3 scripted transactions (cubes over SETUP / IN / OUT " \
         "per slot, thorough also corrupted / unacknowledged / idle variants, and N = 4 with tx_ready = 1 as best effort); the " \
         "CRC16 clause is decided with tx_ready = 1 in every cube and with tx_ready free for single IN transactions"
OUTSIDE = "sessions longer than N transactions; internal one-transmitter-at-a-time (observed through packet well-formedness only); " \
          "reset-sequencer chirps"


class MuxHarness(Harness):
    def __init__(self, n=3):
        super().__init__()
        from luna.gateware.interface.utmi import UTMIInterfaceMultiplexer, UTMITransmitInterface
        self.mux = UTMIInterfaceMultiplexer()
        self.ins = [UTMITransmitInterface() for _ in range(n)]
        for i, itf in enumerate(self.ins):
            self.mux.add_input(itf)
            self.inp(f"valid{i}", signal=itf.valid)
            self.inp(f"data{i}", signal=itf.data)
        self.inp("ready", signal=self.mux.output.ready)
        self.v = {n_: self.viol(n_) for n_ in ["data", "valid", "ready"]}
        self.c = {n_: self.cover(n_) for n_ in ["second_selected"]}
        self.a_onehot = self.assume("at_most_one_valid")

    def elaborate(self, platform):
        m = Module()
        m.submodules.mux = self.mux
        tick = Signal()                     # the multiplexer is purely combinational; keep the usb domain alive for replay
        m.d.usb += tick.eq(~tick)
        valids = Cat(*[i.valid for i in self.ins])
        onehot_or_zero = (valids & (valids - 1)) == 0
        exp_data = Signal(8)
        for i in self.ins:
            with m.If(i.valid):
                m.d.comb += exp_data.eq(i.data)
        out = self.mux.output
        ready_bad = Const(0)
        for i in self.ins:
            ready_bad = ready_bad | (i.valid & (i.ready != out.ready))
        m.d.comb += [
            self.a_onehot.eq(onehot_or_zero),
            self.v["valid"].eq(out.valid != valids.any()),
            self.v["data"].eq(valids.any() & (out.data != exp_data)),
            self.v["ready"].eq(ready_bad),
            self.c["second_selected"].eq(self.ins[1].valid & out.valid & (out.data == 0xA5)),
        ]
        return m


class TxHarness(Harness):
    def __init__(self, nslots, free_ready=True):
        super().__init__()
        from luna.gateware.usb.usb2.endpoints.status import USBSignalInEndpoint
        self.nslots, self.free_ready = nslots, free_ready
        self.utmi, self.dev, self.ep0, self.eps = make_device(ep0_mps=8, in_ep=(1, 2), out_ep=(2, 2))
        self.ep3 = USBSignalInEndpoint(width=8, endpoint_number=3, endianness="little")
        self.dev.add_endpoint(self.ep3)
        self.host = SlottedHost(self, nslots, prefix="s")
        self.tx_ready = self.inp("tx_ready", 1) if free_ready else None
        self.ep1_byte = self.inp("ep1_byte", 8, const=True)
        self.ep3_value = self.inp("ep3_value", 8, const=True)
        self.v = {n: self.viol(n) for n in ["pid", "handshake_len", "data_crc", "continuous", "solicited", "early",
                                            "during_rx", "one_per_transaction"]}
        self.c = {n: self.cover(n) for n in ["ep1_data", "ep3_data", "ep2_ack", "ep0_data", "stalled_byte", "nak"]}
        self.a = {n: self.assume(n) for n in ["legal", "no_hsk", "no_set_address", "no_setup_other_ep", "bounded_stall"]}

    def elaborate(self, platform):
        m = Module()
        h, u, dev = self.host, self.utmi, self.dev
        m.submodules.dev = dev
        h.build(m, "usb")
        ready = self.tx_ready if self.free_ready else Const(1)
        spy = TxSpy(m, "usb", h, u.tx_valid, u.tx_data, nbytes=4, name="tx", tx_ready=ready)
        h.add_in_ack(m, "usb", spy.is_data & ~u.tx_valid)
        tie_device(m, u, dev, h)
        if self.free_ready:
            m.d.comb += u.tx_ready.eq(self.tx_ready)       # overrides the tie (later assignment wins)
        st = self.eps["in"].stream
        m.d.comb += [st.valid.eq(1), st.payload.eq(self.ep1_byte), st.last.eq(0),
                     self.eps["out"].stream.ready.eq(1), self.ep3.signal.eq(self.ep3_value)]
        n = self.nslots
        nohsk, noaddr, nosetup = Const(1), Const(1), Const(1)
        for i in range(n):
            d = h.data[i]
            nohsk = nohsk & (h.kind[i] != KIND_HSK)
            nosetup = nosetup & ~((h.kind[i] == KIND_SETUP) & (h.ep[i] != 0))
            noaddr = noaddr & ~((h.kind[i] == KIND_SETUP) & (d[5:7] == 0) & (d[8:16] == 5))
        m.d.comb += [self.a["legal"].eq(h.legal), self.a["no_hsk"].eq(nohsk), self.a["no_set_address"].eq(noaddr),
                     self.a["no_setup_other_ep"].eq(nosetup),
                     # PHY stalls (tx_ready low) never stretch a transmission into the next transaction
                     self.a["bounded_stall"].eq(~(u.tx_valid & (h.t >= h.slot_len - 2)))]

        # ---- packet decoder on accepted bytes
        from luna.gateware.usb.usb2.packet import USBDataPacketCRC
        crcgen = USBDataPacketCRC()
        acc = u.tx_valid & ready
        prev_valid = Signal()
        m.d.usb += prev_valid.eq(u.tx_valid)
        pkt_end = Signal()
        m.d.comb += pkt_end.eq(prev_valid & ~u.tx_valid)
        nb = Signal(5)                 # accepted bytes in the current packet
        pid = Signal(8)
        r0, r1, r2 = Signal(16, init=0xFFFF), Signal(16, init=0xFFFF), Signal(16, init=0xFFFF)
        l1, l2 = Signal(8), Signal(8)
        step = Signal(16)
        m.d.comb += step.eq(crcgen._generate_next_crc(r0, u.tx_data))
        with m.If(pkt_end | ~(u.tx_valid | prev_valid)):
            m.d.usb += [nb.eq(0), r0.eq(0xFFFF), r1.eq(0xFFFF), r2.eq(0xFFFF)]
        with m.Elif(acc):
            with m.If(nb != 31):
                m.d.usb += nb.eq(nb + 1)
            with m.If(nb == 0):
                m.d.usb += pid.eq(u.tx_data)
            with m.Else():
                m.d.usb += [r2.eq(r1), r1.eq(r0), r0.eq(step), l2.eq(l1), l1.eq(u.tx_data)]
        wire = Signal(16)
        m.d.comb += wire.eq(~r2[::-1])
        nibble_ok = (pid[0:4] == ~pid[4:8])
        is_hsk = (pid[0:2] == 0b10)
        is_data = (pid[0:2] == 0b11)
        m.d.comb += [
            self.v["pid"].eq(pkt_end & ~(nibble_ok & (is_hsk | is_data) & (nb != 0))),
            self.v["handshake_len"].eq(pkt_end & nibble_ok & is_hsk & (nb != 1)),
            self.v["data_crc"].eq(pkt_end & nibble_ok & is_data & ~((nb >= 3) & (wire == Cat(l2, l1)))),
        ]
        # tx_valid must stay high from the first byte until the packet's last byte has been accepted: a gap shows up as
        # two packets in one transaction (checked below) and as malformed fragments (checked above)
        # ---- solicitation
        to_us = (h.cur_addr == 0) & ~h.done
        ep = h.cur_ep
        in_ok = (h.cur_kind == KIND_IN) & to_us & ((ep == 0) | (ep == 1) | (ep == 3))
        out_ok = (h.cur_kind == KIND_OUT) & to_us & ((ep == 0) | (ep == 2)) & ~h.cur_flag
        setup_ok = (h.cur_kind == KIND_SETUP) & to_us & (ep == 0) & ~h.cur_flag
        host_done_t = Signal(6)
        with m.If(h.cur_kind == KIND_IN):
            m.d.comb += host_done_t.eq(5)
        with m.Elif(h.cur_kind == KIND_SETUP):
            m.d.comb += host_done_t.eq(19)
        with m.Else():
            m.d.comb += host_done_t.eq(11 + h.cur_olen)
        m.d.comb += [
            self.v["solicited"].eq(u.tx_valid & ~(in_ok | out_ok | setup_ok)),
            self.v["early"].eq(u.tx_valid & (h.t <= host_done_t)),
            self.v["during_rx"].eq(u.tx_valid & u.rx_active),
            self.v["one_per_transaction"].eq(spy.packets > 1),
            self.v["continuous"].eq(pkt_end & (nb == 0)),
        ]
        stalled = Signal()
        with m.If(u.tx_valid & ~ready):
            m.d.usb += stalled.eq(1)
        with m.If(h.slot_end):
            m.d.usb += stalled.eq(0)
        judge = h.slot_end & ~h.done
        m.d.comb += [
            self.c["ep1_data"].eq(judge & (h.cur_kind == KIND_IN) & (ep == 1) & spy.is_data & (spy.count == 5)),
            self.c["ep3_data"].eq(judge & (h.cur_kind == KIND_IN) & (ep == 3) & spy.is_data),
            self.c["ep2_ack"].eq(judge & (h.cur_kind == KIND_OUT) & (ep == 2) & (spy.pid == 0xD2)),
            self.c["ep0_data"].eq(judge & (h.cur_kind == KIND_IN) & (ep == 0) & spy.is_data & (spy.count > 3)),
            self.c["stalled_byte"].eq(judge & spy.is_data & stalled),
            self.c["nak"].eq(judge & (spy.pid == 0x5A)),
        ]
        return m

    def const_stimulus(self, rng):
        out = {}
        std = [0x0012000001000680, 0x0000000000010900, 0x0002000000000080, 0x0008000002000680]
        for name, (sig, const) in self._inputs.items():
            if not const:
                continue
            if name.endswith("_kind"):
                out[name] = rng.choice([KIND_SETUP, KIND_IN, KIND_IN, KIND_OUT, KIND_SOF, KIND_NONE])
            elif name.endswith("_ep"):
                out[name] = rng.randrange(4)
            elif name.endswith("_addr"):
                out[name] = 0 if rng.random() < 0.9 else rng.randrange(128)
            elif name.endswith("_data"):
                out[name] = rng.choice(std) if rng.random() < 0.7 else rng.getrandbits(64)
            elif name.endswith("_olen"):
                out[name] = rng.randrange(3)
            else:
                out[name] = rng.getrandbits(len(sig))
        return out

    def stimulus(self, rng, t, consts):
        d = dict(consts)
        if self.free_ready:
            d["tx_ready"] = int(rng.random() < 0.85)
        return d


GET_DESC_DEV = 0x0012000001000680


def queries(tier):
    qs = [Query("mux_comb", lambda: MuxHarness(3), 1, hints={"second_selected": {"data1": 0xA5}},
                desc="UTMIInterfaceMultiplexer with 3 inputs, all values, at most one valid"),
          Query("cosim_mux", lambda: MuxHarness(3), 0, kind="cosim", cosim_cycles=100)]
    f3 = lambda: TxHarness(3, free_ready=True)
    f3r = lambda: TxHarness(3, free_ready=False)
    f4r = lambda: TxHarness(4, free_ready=False)
    hints = {
        "ep1_data": {"s0_kind": KIND_IN, "s0_ep": 1},
        "ep3_data": {"s0_kind": KIND_IN, "s0_ep": 3},
        "ep2_ack": {"s0_kind": KIND_OUT, "s0_ep": 2, "s0_dpid": 0},
        "ep0_data": {"s0_kind": KIND_SETUP, "s0_ep": 0, "s0_data": GET_DESC_DEV, "s1_kind": KIND_IN, "s1_ep": 0},
        "stalled_byte": {"s0_kind": KIND_IN, "s0_ep": 1},
        "nak": {"s0_kind": KIND_OUT, "s0_ep": 2},
    }
    for hd in hints.values():
        for i in range(4):
            hd.setdefault(f"s{i}_kind", KIND_NONE)
            hd.setdefault(f"s{i}_flag", 0)
            hd.setdefault(f"s{i}_addr", 0)
            hd.setdefault(f"s{i}_ep", 0)
            hd.setdefault(f"s{i}_olen", 0)
    qs.append(Query("covers_3slots", f3, 32 * 3 + 2, asserts=[], hints=hints, timeout=900, split=False,
                    covers=["ep1_data", "ep3_data", "ep2_ack", "ep0_data", "stalled_byte"], desc="witnesses"))
    # one solver process per cube of per-slot (kind, flag) choices; endpoints 0..3, addresses, data, OUT length symbolic
    # The CRC16 clause is separated from the framing clauses: with tx_ready free the DUT's CRC register advances under a
    # symbolic schedule and the comparison with the monitor's CRC dominates everything else (500-900 s per cube against
    # 10-60 s for all other clauses together).  data_crc is therefore decided (a) in every cube with tx_ready = 1 and
    # (b) with tx_ready free for a single IN transaction to each endpoint.
    f1 = lambda: TxHarness(1, free_ready=True)
    f2 = lambda: TxHarness(2, free_ready=True)
    f2r = lambda: TxHarness(2, free_ready=False)
    REST = ["pid", "handshake_len", "continuous", "solicited", "early", "during_rx", "one_per_transaction"]
    # OUT transactions are enumerated by payload length (a symbolic length makes the host's framing symbolic: the 3-slot
    # cubes then exceed the 9 GB memory cap or run for > 15 min; pinned they take seconds)
    T = {"0": dict(kind=KIND_OUT, flag=0, olen=0), "1": dict(kind=KIND_OUT, flag=0, olen=1),
         "2": dict(kind=KIND_OUT, flag=0, olen=2), "o": dict(kind=KIND_OUT, flag=1, olen=2, data=0xC3A5),
         "s": dict(kind=KIND_SETUP, flag=1, data=0x0000000000010900)}
    for name, layer in slot_cubes(1, "Ii", table=T):
        qs.append(Query(f"bmc_1slot_{name}_crc", f1, 34, layer=layer, asserts=["data_crc"], covers=[], timeout=1800,
                        split=False, tactic="portfolio",
                        desc=f"1 IN transaction ({name}) to any endpoint, tx_ready free: CRC16 of the data packet"))
    for name, layer in slot_cubes(2, "SI012" if tier == "quick" else "SsIi012oN", table=T):
        qs.append(Query(f"bmc_2slots_{name}", f2, 32 * 2 + 2, layer=layer, asserts=REST, covers=[], timeout=900, split=False,
                        tactic="portfolio",
                        desc=f"2 transactions {name} against control + bulk IN/OUT + status endpoints, tx_ready free"))
        if "I" in name.upper() or "S" in name.upper():
            qs.append(Query(f"bmc_2slots_{name}_crc", f2r, 32 * 2 + 2, layer=layer, asserts=["data_crc"], covers=[],
                            timeout=900, split=False, tactic="portfolio",
                            desc=f"2 transactions {name}, tx_ready = 1: CRC16 of every data packet"))
    # three transactions: tx_ready = 1 (a free tx_ready at this depth costs 150-350 s per assertion and several GB; it is
    # free in all one- and two-transaction cubes above and, best effort, in a few thorough cubes)
    pick3 = ("SII", "S1I", "S2I") if tier == "quick" else None
    cubes3 = [c for c in slot_cubes(3, "SI12", table=T) if pick3 is None or c[0] in pick3]
    for name, layer in cubes3:
        qs.append(Query(f"bmc_3slots_{name}", f3r, 32 * 3 + 2, layer=layer, asserts=REST + ["data_crc"], covers=[],
                        timeout=1800, split=False, tactic="portfolio", required=(tier == "quick"),
                        desc=f"3 transactions {name} against control + bulk IN/OUT + status endpoints, tx_ready = 1"))
    if tier == "thorough":
        for name, layer in slot_cubes(3, "SI1", table=T):
            if name in ("SII", "SI1", "S1I", "I1I"):
                qs.append(Query(f"bmc_3slots_{name}_freeready", f3, 32 * 3 + 2, layer=layer, asserts=REST, covers=[],
                                timeout=1800, split=True, tactic="portfolio", required=False,
                                desc=f"3 transactions {name}, tx_ready free (best effort)"))
    if tier == "thorough":
        for name, layer in slot_cubes(4, "SI1", first="S", table=T):
            if name[1:] in ("III", "I1I", "1II", "SII", "II1", "ISI"):
                qs.append(Query(f"bmc_4slots_{name}", f4r, 32 * 4 + 2, layer=layer, covers=[], timeout=1800, split=False,
                                required=False, tactic="portfolio", desc=f"4 transactions {name}, tx_ready = 1"))
    qs.append(Query("cosim", f3, 0, kind="cosim", cosim_cycles=100 if tier == "quick" else 400))
    return qs
