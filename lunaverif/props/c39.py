"""C39 -- header transmission respects credits and retransmits unacknowledged headers.

DUT: luna.gateware.usb.usb3.link.transmitter.PacketTransmitter (real class; contains the real RawPacketTransmitter
and LinkCommandDetector).
Environment: lib/ss_link.SSLinkCommandSource -- the partner's link commands (LCSTART + command word built from free
command / subtype with CRC5 by the repo's function, free 32-bit corruption mask, free gaps and start times);
protocol-layer header queue with free valid and fully symbolic header every cycle; PHY ready free; LRTY-sent strobe
free (models HeaderPacketReceiver clearing lrty_pending).
Oracle: an independent ghost of the link transmit rules (credits, sequence numbers, oldest unacknowledged header,
retry state) plus a tracked k-th accepted header; transmitted headers are parsed from the DUT's source stream.
"""
from amaranth import *
from ..harness import Harness
from ..engine import Query
from ..lib import ss_link

PROP = "C39"
ENCODED = ["luna/gateware/usb/usb3/link/transmitter.py: PacketTransmitter.elaborate (credits_available, packets_to_send, "
           "packets_awaiting_ack, read/write/ack pointers, retry_pending, DISPATCH_PACKET/WAIT_FOR_SEND/WAIT_FOR_RETRY, "
           "link command handling)"]
ASSUMPTIONS = [
    "enable = 1; data_sink idle; queued headers are not of DATA type (dw0[3:0] != 8): header-only packets, DPP framing is C36",
    "partner link commands are well framed (LCSTART, command word); content, corruption, timing free",
    "the partner never advertises more than 4 outstanding credits",
    "lrty_pending follows the DUT's retry_required and is cleared by a free 'LRTY sent' strobe (HeaderPacketReceiver's "
    "role) that comes no earlier than 3 cycles after it was set and never while a header packet occupies the wire",
    "the partner sends LBAD only when at least one completely transmitted header is unacknowledged",
    "after an LBAD the partner sends no LGOOD/LBAD until the retransmission it asked for is complete "
    "(USB3: LBAD is sent after all pending LGOODs; acknowledgements resume with the retransmitted headers); no header "
    "is accepted from the protocol layer in the very cycle the LBAD is decoded; LGOOD only for headers already sent",
    "after a link-command mismatch (LCRD out of order, LGOOD with an unexpected number) the link leaves U0: the "
    "ghost checks that recovery is requested and stops checking",
    "a header already on the wire when the LBAD arrives completes as a first transmission; a header first offered "
    "between the LBAD and our LRTY is discarded by the partner (it has not seen the LRTY yet), so only its sequence "
    "number (an accepted, unacknowledged header) is checked; the retransmission proper is what follows the LRTY",
    "reading of the delayed flag on first transmissions (not stated by C39, checked as a by-product on the tracked header): "
    "the header's own flag, except that a header accepted while a retry is outstanding -- from the LBAD until the "
    "retransmission is complete and no accepted header still waits for its first transmission -- may carry DL = 1 "
    "(USB3 7.2.1.1.3: DL is set when a header packet is resent or its transmission is delayed); DL is still required on "
    "every retransmission and the own flag on every header accepted outside such a period",
]
BOUNDS = "BMC from reset: quick K=24 (clean layer; K=32 for tx_order / dl_flag), K=20 (content) / K=12 (corruption free) / K=12 free (best effort); thorough K=36 / K=18 / K=20"
OUTSIDE = "DATA headers with payload (C36); disable/enable of the transmitter; credit timeout (5 ms); partner LGOODs " \
          "overlapping a retry"


class HeaderTxHarness(Harness):
    domains = ("ss",)

    def __init__(self):
        super().__init__()
        from luna.gateware.usb.usb3.link.transmitter import PacketTransmitter
        self.dut = PacketTransmitter()
        self.lc = ss_link.SSLinkCommandSource(self, prefix="lc_")
        self.ready = self.inp("ready", 1)
        self.q_valid = self.inp("q_valid", 1)
        self.q_hdr = self.inp("q_hdr", 107)       # dw0, dw1, dw2, (seq ignored) reserved/hub/DL/DF
        self.lrty_sent = self.inp("lrty_sent", 1)
        self.k = self.inp("k", 2, const=True)
        names = ["credit_use", "ready_when_credit", "tx_order", "dl_flag", "tx_content", "recovery_on_mismatch",
                 "retry_req", "tx_format", "retx_starts"]
        self.v = {n: self.viol(n) for n in names}
        cn = ["two_headers_sent", "retransmit_dl", "retire_then_reuse", "tracked_sent", "mismatch", "retx_two",
              "fifth_header", "held_new_sent", "fresh_after_retry"]
        self.c = {n: self.cover(n) for n in cn}
        self.a = {n: self.assume(n) for n in ("not_data", "credit_cap", "lrty", "quiet_retry", "ack_sent", "lbad_cause")}

    def elaborate(self, platform):
        m = Module()
        m.submodules.dut = dut = self.dut
        m.submodules.lc = lc = self.lc
        qh = dut.queue.header
        h = self.q_hdr
        m.d.comb += [dut.sink.valid.eq(lc.valid), dut.sink.data.eq(lc.data), dut.sink.ctrl.eq(lc.ctrl),
                     dut.source.ready.eq(self.ready), dut.enable.eq(1), dut.queue.valid.eq(self.q_valid),
                     qh.dw0.eq(h[0:32]), qh.dw1.eq(h[32:64]), qh.dw2.eq(h[64:96]), qh.sequence_number.eq(h[96:99]),
                     qh.dw3_reserved.eq(h[99:102]), qh.hub_depth.eq(h[102:105]), qh.delayed.eq(h[105]),
                     qh.deferred.eq(h[106])]
        m.d.comb += self.a["not_data"].eq(~self.q_valid | (h[0:4] != 8))

        # lrty_pending model
        lrty_pending = Signal(name="g_lrty_pending")
        with m.If(dut.retry_required):
            m.d.ss += lrty_pending.eq(1)
        with m.Elif(self.lrty_sent):
            m.d.ss += lrty_pending.eq(0)
        lrty_age = Signal(2, name="g_lrty_age")
        with m.If(~lrty_pending | self.lrty_sent):
            m.d.ss += lrty_age.eq(0)
        with m.Elif(lrty_age != 3):
            m.d.ss += lrty_age.eq(lrty_age + 1)
        wire_busy = Signal(name="g_wire_busy")
        m.d.comb += dut.lrty_pending.eq(lrty_pending)

        # ------------------------------------------------ partner commands, one cycle delayed (detector registers them)
        c_v = Signal(name="c_v")
        c_cmd = Signal(4, name="c_cmd")
        c_sub = Signal(4, name="c_sub")
        # validity per USB3 7.2.2.1 judged on the word actually sent (a corruption mask may produce another valid word)
        w_crc = ss_link.crc5_of(m, lc.data[0:11], "g_lc_crc5")
        w_ok = Signal(name="g_lc_ok")
        m.d.comb += w_ok.eq((lc.data[0:16] == lc.data[16:32]) & (lc.data[11:16] == w_crc) & (lc.ctrl == 0))
        m.d.ss += [c_v.eq(lc.ev_cmd & w_ok), c_cmd.eq(lc.data[7:11]), c_sub.eq(lc.data[0:4])]

        bring = Signal(name="g_bring")
        g_assign = Signal(3, name="g_assign")     # next sequence number to assign
        g_ack = Signal(3, name="g_ack")           # oldest unacknowledged sequence number
        g_tx = Signal(3, name="g_tx")             # next first transmission
        n_out = Signal(3, name="n_out")           # accepted, not yet retired
        n_untx = Signal(3, name="n_untx")         # accepted, not yet transmitted for the first time
        credits = Signal(3, name="g_credits")
        next_credit = Signal(2, name="g_next_credit")
        lost = Signal(name="g_lost")
        retry_wait = Signal(name="g_retry_wait")  # LBAD received, LRTY not yet sent
        retx_active = Signal(name="g_retx_active")
        retx_ptr = Signal(3, name="g_retx_ptr")
        retx_left = Signal(3, name="g_retx_left")
        n_acc = Signal(4, name="n_acc")
        n_sent = Signal(4, name="n_sent")
        trk = Signal(107, name="trk")
        trk_seq = Signal(3, name="trk_seq")
        trk_have = Signal(name="trk_have")

        is_lgood = c_v & (c_cmd == ss_link.LGOOD)
        is_lcrd = c_v & (c_cmd == ss_link.LCRD)
        is_lbad = c_v & (c_cmd == ss_link.LBAD)
        mismatch = Signal(name="g_mismatch")
        retire = Signal(name="g_retire")
        credit_ev = Signal(name="g_credit_ev")
        with m.If(is_lcrd):
            with m.If(c_sub == next_credit):
                m.d.comb += credit_ev.eq(1)
                m.d.ss += next_credit.eq(next_credit + 1)
            with m.Else():
                m.d.comb += mismatch.eq(1)
        with m.If(is_lgood):
            with m.If(~bring):
                m.d.ss += [bring.eq(1), g_assign.eq(c_sub + 1), g_ack.eq(c_sub + 1), g_tx.eq(c_sub + 1)]
            with m.Elif((c_sub == g_ack) & (n_out != n_untx)):
                m.d.comb += retire.eq(1)
                m.d.ss += g_ack.eq(g_ack + 1)
            with m.Else():
                m.d.comb += mismatch.eq(1)
        with m.If(mismatch):
            m.d.ss += lost.eq(1)
        ok = Signal(name="g_ok")                  # link still in U0 as far as the ghost knows
        m.d.comb += ok.eq(~lost & ~mismatch)

        # header acceptance
        acc = Signal(name="g_acc")
        m.d.comb += acc.eq(self.q_valid & dut.queue.ready)
        with m.If(acc):
            m.d.ss += [g_assign.eq(g_assign + 1), n_acc.eq(n_acc + 1)]
            with m.If(n_acc == self.k):
                m.d.ss += [trk.eq(h), trk_seq.eq(g_assign), trk_have.eq(1)]
        m.d.ss += credits.eq(credits + credit_ev - acc)
        m.d.comb += self.a["credit_cap"].eq(~credit_ev | (credits + n_out < 4))

        # ------------------------------------------------ parse transmitted headers
        src = dut.source
        xfer = Signal(name="xfer")
        m.d.comb += xfer.eq(src.valid & self.ready)
        widx = Signal(3, name="widx")             # 0 = expecting HPSTART, 1..4 = DW0..DW3
        cap = [Signal(32, name=f"cap_dw{i}") for i in range(3)]
        with m.If(xfer):
            m.d.ss += widx.eq(Mux(widx == 4, 0, widx + 1))
            for i in range(3):
                with m.If(widx == i + 1):
                    m.d.ss += cap[i].eq(src.data)
        ev_hdr = Signal(name="ev_hdr")            # DW3 of a header is transferred
        m.d.comb += ev_hdr.eq(xfer & (widx == 4))
        w_seq = src.data[16:19]
        w_dl = src.data[25]
        w_rest = Cat(src.data[19:25], src.data[26])          # reserved, hub depth, DF
        m.d.comb += self.v["tx_format"].eq(ok & xfer & Mux(widx == 0, (src.data != ss_link.HPSTART[0]) | (src.ctrl != 0xF),
                                                           src.ctrl != 0))
        in_pkt = Signal(name="in_pkt")            # a header is on the wire / offered
        m.d.comb += in_pkt.eq(src.valid | (widx != 0))
        # LRTY travels over the same wire (the receiver half needs 3 cycles to start it, and the arbiter cannot
        # insert it into a header packet)
        m.d.comb += [wire_busy.eq(in_pkt), self.a["lrty"].eq(~self.lrty_sent | (lrty_pending & (lrty_age == 3) & ~wire_busy))]

        # whether the header on the wire is a retransmission is decided when its HPSTART is first offered: a header
        # handed to the raw transmitter before the retry became effective completes as a first transmission
        prev_offer = Signal(name="g_prev_offer")
        offer_start = Signal(name="g_offer_start")
        cur_mode = Signal(2, name="g_cur_mode")   # 0 normal, 1 offered between LBAD and LRTY (the partner ignores it), 2 retransmission
        m.d.comb += offer_start.eq(src.valid & (widx == 0) & ~prev_offer)
        m.d.ss += prev_offer.eq(src.valid & (widx == 0) & ~self.ready)
        with m.If(offer_start):
            m.d.ss += cur_mode.eq(Mux(retx_active, Mux(retry_wait, 1, 2), 0))
        retx_hit = Signal(name="g_retx_hit")       # this header is the expected retransmission
        limbo = Signal(name="g_limbo")             # header the partner discards (it has not seen our LRTY yet)
        first_tx = Signal(name="first_tx")         # first transmission of a header (counts g_tx)
        m.d.comb += [
            retx_hit.eq(ev_hdr & (cur_mode == 2) & retx_active),
            limbo.eq(ev_hdr & (cur_mode == 1)),
            first_tx.eq(ev_hdr & ~limbo & (~retx_hit | ((retx_ptr == g_tx) & (n_untx != 0)))),
        ]
        with m.If(first_tx):
            m.d.ss += [g_tx.eq(g_tx + 1), n_sent.eq(n_sent + 1)]
        m.d.ss += n_untx.eq(n_untx + acc - first_tx)
        m.d.ss += n_out.eq(n_out + acc - retire)
        with m.If(retx_hit):
            m.d.ss += [retx_ptr.eq(retx_ptr + 1), retx_left.eq(retx_left - 1)]
            with m.If(retx_left == 1):
                m.d.ss += retx_active.eq(0)

        # retry bookkeeping: an LBAD asks for every header accepted and not yet acknowledged, oldest first
        with m.If(is_lbad & (n_out != 0)):
            m.d.ss += [retx_active.eq(1), retx_ptr.eq(g_ack), retx_left.eq(n_out), retry_wait.eq(1)]
        with m.Elif(self.lrty_sent):
            m.d.ss += retry_wait.eq(0)
        # bounded progress of the retransmission: once our LRTY is out, the PHY is ready and the wire is idle, the next owed
        # header is offered within RETX_START cycles (the statement says "retransmits every unacknowledged header": a
        # transmitter that forgets the retry altogether breaks it just as one that reorders it)
        retx_stall = Signal(4, name="g_retx_stall")
        retx_owed = Signal(name="g_retx_owed")
        m.d.comb += retx_owed.eq(ok & retx_active & ~retry_wait & ~in_pkt & self.ready)
        with m.If(retx_owed & (retx_stall != 15)):
            m.d.ss += retx_stall.eq(retx_stall + 1)
        with m.Elif(~retx_owed):
            m.d.ss += retx_stall.eq(0)
        m.d.comb += self.v["retx_starts"].eq(retx_owed & (retx_stall == RETX_START))
        in_retry = Signal(name="in_retry")
        m.d.comb += in_retry.eq(retx_active)
        m.d.comb += self.a["quiet_retry"].eq(~(in_retry & (is_lgood | is_lbad)) & ~(is_lbad & acc))
        m.d.comb += self.a["lbad_cause"].eq(~is_lbad | (n_out != n_untx))
        m.d.comb += self.a["ack_sent"].eq(~(is_lgood & bring & (c_sub == g_ack) & (n_out == n_untx)))
        trk_lbad = Signal(name="trk_lbad_since")
        with m.If(is_lbad & trk_have):
            m.d.ss += trk_lbad.eq(1)
        # a retry delays every header that has to wait behind it: from the LBAD until the retransmission is complete
        # and no accepted header is left waiting for its first transmission.  USB3 7.2.1.1.3: DL "shall be set if a
        # header packet is resent or the transmission of a header packet is delayed" -- the flag may be set on such a
        # header although it is a first transmission.
        backlog = Signal(name="g_backlog")         # LBAD seen since the transmit queue was last drained
        held_up = Signal(name="g_held_up")         # a header accepted now waits behind a retry
        m.d.comb += held_up.eq(retx_active | (backlog & (n_untx != 0)))
        with m.If(is_lbad & (n_out != 0)):
            m.d.ss += backlog.eq(1)
        with m.Elif(~held_up):
            m.d.ss += backlog.eq(0)
        trk_held = Signal(name="trk_held_up")
        with m.If(acc & (n_acc == self.k) & held_up):
            m.d.ss += trk_held.eq(1)

        is_trk = Signal(name="is_trk")
        m.d.comb += is_trk.eq(trk_have & (w_seq == trk_seq))
        m.d.comb += [
            # a header is taken from the protocol layer only with the link up and an unused credit
            self.v["credit_use"].eq(ok & acc & (~bring | (credits == 0))),
            self.v["ready_when_credit"].eq(ok & (dut.queue.ready != (bring & (credits != 0)))),
            # numbering / order: first transmissions consecutive from the advertised number, only accepted headers;
            # retransmissions start at the oldest unacknowledged header, in order
            self.v["tx_order"].eq(ok & ev_hdr & Mux(limbo, ((w_seq - g_ack)[0:3] >= n_out),
                                                    Mux(retx_hit, w_seq != retx_ptr, (w_seq != g_tx) | (n_untx == 0)))),
            # delayed flag: set on every retransmission; the header's own flag otherwise (tracked header), except that a
            # header held up by a retry may carry it as well
            self.v["dl_flag"].eq(ok & ev_hdr & ~limbo & Mux(retx_hit, ~w_dl, is_trk & (w_dl != trk[105]) & ~(w_dl & (trk_lbad | trk_held)))),
            # content of the tracked header, first transmission and retransmission alike
            self.v["tx_content"].eq(ok & ev_hdr & is_trk & ((Cat(*cap) != trk[0:96]) | (w_rest != Cat(trk[99:105], trk[106])))),
            # mismatching LCRD / LGOOD -> recovery requested
            self.v["recovery_on_mismatch"].eq(~lost & mismatch & ~dut.recovery_required),
            # LBAD -> retry requested (LRTY to be sent by the receiver half)
            self.v["retry_req"].eq(is_lbad != dut.retry_required),
        ]
        retired_seen = Signal(name="retired_seen")
        with m.If(retire):
            m.d.ss += retired_seen.eq(1)
        lbad_seen = Signal(name="lbad_seen")
        with m.If(is_lbad):
            m.d.ss += lbad_seen.eq(1)
        retx_cnt = Signal(2, name="retx_cnt")
        with m.If(retx_hit & (retx_cnt != 3)):
            m.d.ss += retx_cnt.eq(retx_cnt + 1)
        m.d.comb += [
            self.c["two_headers_sent"].eq(ok & first_tx & (n_sent == 1)),
            self.c["retransmit_dl"].eq(ok & retx_hit & w_dl & (w_seq == retx_ptr) & (retx_ptr != g_tx)),
            self.c["retire_then_reuse"].eq(ok & first_tx & retired_seen),
            self.c["tracked_sent"].eq(ok & first_tx & is_trk & (self.k == 1)),
            self.c["mismatch"].eq(~lost & mismatch & dut.recovery_required),
            self.c["retx_two"].eq(ok & retx_hit & (retx_cnt == 1)),
            self.c["fifth_header"].eq(ok & first_tx & (n_sent == 4)),
            # a header accepted behind a retry goes out for the first time / a header accepted after a finished retry
            # goes out (the "own flag" clause is live again)
            self.c["held_new_sent"].eq(ok & first_tx & ~retx_hit & is_trk & trk_held),
            self.c["fresh_after_retry"].eq(ok & first_tx & ~retx_hit & is_trk & ~trk_held & ~trk_lbad & lbad_seen),
        ]
        self.obs("ev_hdr", ev_hdr)
        w_seq_o = Signal(3, name="w_seq_o")
        m.d.comb += w_seq_o.eq(w_seq)
        self.obs("w_seq", w_seq_o)
        self.obs("credits", credits)
        self.obs("q_ready", dut.queue.ready)
        return m

    def stimulus(self, rng, t, consts):
        d = super().stimulus(rng, t, consts)
        d["ready"] = int(rng.random() < 0.85)
        d["lc_gap"] = int(rng.random() < 0.1)
        d["lc_start"] = int(rng.random() < 0.5)
        if rng.random() < 0.9:
            d["lc_mask"] = 0
        d["lc_cmd"] = rng.choice([0, 0, 1, 1, 1, 3, 2])
        d["lc_sub"] = rng.choice([0, 1, 2, 3, 7])
        d["q_hdr"] = d["q_hdr"] & ~0xF | 4
        d["lrty_sent"] = 0
        return d


RETX_START = 8     # cycles allowed between "retransmission possible" and the first word of the retransmitted header
RETX_K = 32        # the shortest history with two headers in flight and an LBAD landing on the second one's last word


def queries(tier):
    quick = tier == "quick"
    f = HeaderTxHarness
    clean = {"ready": 1, "lc_gap": 0, "lc_mask": 0}
    hint = {"*": {"lc_gap": 0, "lc_mask": 0}}
    ctl = ["credit_use", "ready_when_credit", "tx_order", "dl_flag", "recovery_on_mismatch", "retry_req", "tx_format", "retx_starts"]
    qs = [Query("bmc_content", f, 20 if quick else 28, layer=dict(clean, k=0), split=False, timeout=3000, asserts=["tx_content"],
                covers=[], desc="layer as bmc_clean, tracked header = first accepted: its 96 data bits and link control "
                                "fields on the wire (first transmission and retransmission) equal what the protocol layer queued"),
          Query("bmc_clean", f, 24 if quick else 36, layer=clean, split=not quick, timeout=3000, hints=hint, asserts=ctl,
                covers=["two_headers_sent", "retransmit_dl", "retire_then_reuse", "tracked_sent", "mismatch"] +
                       ([] if quick else ["retx_two", "held_new_sent", "fresh_after_retry"]),
                desc="layer: PHY always ready, partner commands uncorrupted and without invalid cycles; command kinds, "
                     "subtypes, timing, header queue (valid and content), LRTY timing free"),
          Query("bmc_corrupt", f, 12 if quick else 18, layer={"ready": 1}, split=False, timeout=2000, covers=[], asserts=ctl,
                desc="layer: PHY always ready; corruption masks and invalid cycles in the partner stream free (shallow)"),
          Query("bmc_free", f, 12 if quick else 20, split=False, timeout=600 if quick else 2000, covers=[], required=False, asserts=ctl,
                desc="best effort: everything free incl. PHY ready")]
    if quick:
        # the retransmission clauses need two headers on the wire and an LBAD at any cycle relative to them: deeper than
        # the K=24 of bmc_clean (one process per assertion: dl_flag ~90 s, tx_order ~450 s solver time at K=32)
        qs.append(Query("bmc_clean_retx", f, RETX_K, layer=clean, timeout=3000, asserts=["tx_order", "dl_flag", "retx_starts"], covers=["held_new_sent"],
                        hints=hint, desc="layer as bmc_clean, deeper: order and delayed flag of (re)transmitted headers"))
    qs.append(Query("cosim", f, 0, kind="cosim", cosim_cycles=200 if quick else 1000))
    return qs
