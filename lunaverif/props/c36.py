"""C36 -- header and data packets are transmitted with correct framing and CRCs.

DUT: luna.gateware.usb.usb3.link.transmitter.RawPacketTransmitter (real class); its output stream is also fed
(word transfers only) into the real RawHeaderPacketReceiver and DataPacketReceiver (round trip).
Oracle: lib/ss_link.packet_words -- the reference word sequence of the statement (SHP SHP SHP EPF, DW0..2, DW3 =
CRC16 | sequence number, hub depth, DL, DF | CRC5, SDP SDP SDP EPF, payload bytes in order, CRC32 directly after the
last byte, END END END EPF directly after it / EDB EDB EDB EPF abort when delayed), CRCs by the repo's step functions
on the symbolic header / payload (shared definition, C30).  The j-th transferred word must equal the j-th reference
word; `done` exactly with the last one; nothing afterwards; words held while not ready.
Framing decisions (payload length, DL, header type class, ready pattern) are concrete per query so that CRC terms
of DUT and reference coincide syntactically; all data is symbolic.
"""
from amaranth import *
from ..harness import Harness
from ..engine import Query
from ..lib import ss_link

PROP = "C36"
ENCODED = ["luna/gateware/usb/usb3/link/transmitter.py: RawPacketTransmitter.elaborate (SEND_HPSTART..SEND_DW3, START_DPP, "
           "SEND_PAYLOAD, SEND_LAST_WORD, SEND_CRC, FINISH_DPP, ABORT_DPP)",
           "luna/gateware/usb/usb3/link/receiver.py: RawHeaderPacketReceiver (round trip)",
           "luna/gateware/usb/usb3/link/data.py: DataPacketReceiver (round trip)"]
ASSUMPTIONS = [
    "generate is held from cycle 1 until done, header inputs stable (as PacketTransmitter drives it)",
    "data_sink: full words (valid 0b1111) then a final word with 1..4 valid bytes and `last`, valid until accepted; "
    "no data_sink.valid for a zero-length packet",
    "header type concrete per query (DATA for packets with payload, TRANSACTION/LMP/ITP otherwise), length field = "
    "payload length for the round trip",
    "round trip through DataPacketReceiver is asserted only for ready patterns without a stall between the last "
    "payload word and the CRC word, and only 'good is reported when the CRC arrives' (the receiver's own verdict "
    "discipline incl. stalls is C40's subject)",
]
BOUNDS = "payload lengths 0..9 (quick: 0,1,2,3,4,5,8; thorough: 0..9), DL 0/1, ready patterns: always, every 2nd, every 3rd " \
         "cycle, single stalls at every position for lengths 0, 3, 8 (thorough); K = packet length in transfers * stall factor + 6"
OUTSIDE = "payloads longer than 9 bytes; data_sink.valid dropping in mid-packet (underrun); free (symbolic) ready patterns " \
          "are only a best-effort thorough query"


class TxFramingHarness(Harness):
    domains = ("ss",)

    def __init__(self, length=None, delayed=False, hp_type=None, rt_data=True):
        super().__init__()
        from luna.gateware.usb.usb3.link.transmitter import RawPacketTransmitter
        from luna.gateware.usb.usb3.link.receiver import RawHeaderPacketReceiver
        from luna.gateware.usb.usb3.link.data import DataPacketReceiver
        self.dut = RawPacketTransmitter()
        self.hrx = RawHeaderPacketReceiver()
        self.length, self.delayed = length, delayed
        self.hp_type = 8 if length is not None else (4 if hp_type is None else hp_type)
        self.rt_data = rt_data and length is not None and not delayed
        self.drx = DataPacketReceiver() if self.rt_data else None
        self.n = 0 if length is None else (length + 3) // 4
        self.ready = self.inp("ready", 1)
        self.dw0 = self.inp("dw0", 32, const=True)
        self.dw1lo = self.inp("dw1lo", 16, const=True)
        self.dw1hi = self.inp("dw1hi", 16, const=True)
        self.dw2 = self.inp("dw2", 32, const=True)
        self.lcw = self.inp("lcw", 11, const=True)       # seq 3, reserved 3, hub depth 3, DL, DF
        self.crc_in = self.inp("crc_in", 21, const=True)  # CRC fields of the input header: must be ignored
        self.pay = [self.inp(f"pay{j}", 32, const=True) for j in range(self.n)]
        self.kw = self.inp("kw", 2, const=True)
        names = ["tx_word", "tx_extra", "tx_done", "tx_hold", "payload_consumed", "rt_header", "rt_header_bad"]
        if self.rt_data:
            names += ["rt_good", "rt_payload"]
        self.v = {n: self.viol(n) for n in names}
        cn = ["done", "stalled_done", "rt_header"] + (["rt_good", "rt_payload"] if self.rt_data else [])
        self.c = {n: self.cover(n) for n in cn}
        nw = 5 if length is None else (7 if delayed else 6 + self.n + 2)
        self.nwords = nw

    def elaborate(self, platform):
        m = Module()
        m.submodules.dut = dut = self.dut
        m.submodules.hrx = hrx = self.hrx
        drx = self.drx
        if drx is not None:
            m.submodules.drx = drx
        L = self.length
        dw0 = Signal(32, name="h_dw0")
        dw1 = Signal(32, name="h_dw1")
        lcw = Signal(11, name="h_lcw")
        m.d.comb += [dw0.eq(Cat(Const(self.hp_type, 5), self.dw0[5:32])),
                     dw1.eq(Cat(self.dw1lo, Const(L, 16) if L is not None else self.dw1hi)),
                     lcw.eq(Cat(self.lcw[0:9], Const(int(self.delayed), 1), self.lcw[10]))]
        hdr = dut.header
        m.d.comb += [hdr.dw0.eq(dw0), hdr.dw1.eq(dw1), hdr.dw2.eq(self.dw2), hdr.crc16.eq(self.crc_in[0:16]),
                     hdr.sequence_number.eq(lcw[0:3]), hdr.dw3_reserved.eq(lcw[3:6]), hdr.hub_depth.eq(lcw[6:9]),
                     hdr.delayed.eq(lcw[9]), hdr.deferred.eq(lcw[10]), hdr.crc5.eq(self.crc_in[16:21])]
        ref = ss_link.packet_words(m, "ref", dw0, dw1, self.dw2, lcw, self.pay, L, abort=self.delayed)
        N = len(ref)
        assert N == self.nwords, (N, self.nwords)

        # generate: from cycle 1 until done
        started = Signal(name="started")
        finished = Signal(name="finished")
        m.d.ss += started.eq(1)
        with m.If(dut.done):
            m.d.ss += finished.eq(1)
        m.d.comb += dut.generate.eq(started & ~finished)
        m.d.comb += dut.source.ready.eq(self.ready)

        # payload producer
        p_idx = Signal(range(self.n + 2), name="p_idx")
        ds = dut.data_sink
        if self.n:
            r = L % 4
            with m.Switch(p_idx):
                for j in range(self.n):
                    with m.Case(j):
                        lastw = j == self.n - 1
                        m.d.comb += [ds.data.eq(self.pay[j]), ds.last.eq(int(lastw)), ds.first.eq(int(j == 0)),
                                     ds.valid.eq(((1 << r) - 1) if (lastw and r) else 0xF)]
            with m.If(ds.ready & (p_idx <= self.n)):
                m.d.ss += p_idx.eq(p_idx + 1)

        # transfers vs reference
        src = dut.source
        xfer = Signal(name="xfer")
        idx = Signal(range(N + 2), name="idx")
        m.d.comb += xfer.eq(src.valid & self.ready)
        with m.If(xfer & (idx <= N)):
            m.d.ss += idx.eq(idx + 1)
        exp_d = Signal(32, name="exp_d")
        exp_c = Signal(4, name="exp_c")
        with m.Switch(idx):
            for j, (d, c) in enumerate(ref):
                with m.Case(j):
                    m.d.comb += [exp_d.eq(d), exp_c.eq(c)]
        pv = Signal(name="prev_stalled")
        pd = Signal(32, name="prev_data")
        pc = Signal(4, name="prev_ctrl")
        m.d.ss += [pv.eq(src.valid & ~self.ready), pd.eq(src.data), pc.eq(src.ctrl)]
        stalled_seen = Signal(name="stalled_seen")
        with m.If(src.valid & ~self.ready):
            m.d.ss += stalled_seen.eq(1)
        m.d.comb += [
            self.v["tx_word"].eq(xfer & (idx < N) & ((src.data != exp_d) | (src.ctrl != exp_c))),
            self.v["tx_extra"].eq(src.valid & (idx >= N)),
            self.v["tx_done"].eq(dut.done != (xfer & (idx == N - 1))),
            self.v["tx_hold"].eq(pv & (~src.valid | (src.data != pd) | (src.ctrl != pc))),
            self.v["payload_consumed"].eq((ds.ready & (p_idx >= self.n)) |
                                          (dut.done & (p_idx != self.n) & (0 if self.delayed else 1))),
            self.c["done"].eq(dut.done & (idx == N - 1)),
            self.c["stalled_done"].eq(dut.done & stalled_seen),
        ]
        self.obs("idx", idx)
        self.obs("src_valid", src.valid)
        self.obs("src_data", src.data)
        self.obs("src_ctrl", src.ctrl)

        # ---- round trip
        for rx in [hrx] + ([drx] if drx is not None else []):
            m.d.comb += [rx.sink.valid.eq(xfer), rx.sink.data.eq(src.data), rx.sink.ctrl.eq(src.ctrl)]
        m.d.comb += hrx.expected_sequence.eq(lcw[0:3])
        age = Signal(3, name="hdr_age")            # cycles since DW3 was transferred (1..4), 0 = not yet / over
        got = Signal(name="hdr_got")
        with m.If(xfer & (idx == 4)):
            m.d.ss += age.eq(1)
        with m.Elif((age != 0) & (age != 4)):
            m.d.ss += age.eq(age + 1)
        with m.If(hrx.new_packet):
            m.d.ss += got.eq(1)
        pk = hrx.packet
        same = Signal(name="hdr_same")
        m.d.comb += same.eq((pk.dw0 == dw0) & (pk.dw1 == dw1) & (pk.dw2 == self.dw2) &
                            (Cat(pk.sequence_number, pk.dw3_reserved, pk.hub_depth, pk.delayed, pk.deferred) == lcw))
        m.d.comb += [
            # the receiver reports the header once, within 3 cycles, with the same content; never a CRC/sequence error
            self.v["rt_header"].eq((hrx.new_packet & ((age == 0) | got | ~same)) | ((age == 4) & ~got & ~hrx.new_packet)),
            self.v["rt_header_bad"].eq(hrx.bad_packet | hrx.bad_sequence),
            self.c["rt_header"].eq(hrx.new_packet & same),
        ]
        if self.rt_data:
            t_now = Signal(name="t_now")
            t_next = Signal(name="t_next")
            seen_good = Signal(name="seen_good")
            m.d.comb += t_now.eq(xfer & (idx == N - 2))
            m.d.ss += t_next.eq(t_now)
            with m.If(t_now):
                m.d.ss += seen_good.eq(drx.packet_good)
            out_ev = Signal(name="out_ev")
            m.d.comb += out_ev.eq(drx.source.valid != 0)
            out_idx = Signal(3, name="out_idx")
            nbytes = Signal(5, name="nbytes")
            with m.If(out_ev):
                m.d.ss += [out_idx.eq(out_idx + 1),
                           nbytes.eq(nbytes + drx.source.valid[0] + drx.source.valid[1] + drx.source.valid[2] + drx.source.valid[3])]
            expw = Signal(32, name="exp_payword")
            expm = Signal(4, name="exp_paymask")
            r = L % 4
            if self.n:
                with m.Switch(out_idx):
                    for j in range(self.n):
                        with m.Case(j):
                            m.d.comb += [expw.eq(self.pay[j]), expm.eq(((1 << r) - 1) if (j == self.n - 1 and r) else 0xF)]
            bad_word = Signal(name="bad_word")
            m.d.comb += bad_word.eq((drx.source.valid != expm) | Cat(*[expm[i] & (drx.source.data[8 * i:8 * i + 8] != expw[8 * i:8 * i + 8]) for i in range(4)]).any())
            m.d.comb += [
                self.v["rt_good"].eq((t_now & drx.packet_bad) | (t_next & ~seen_good & ~drx.packet_good)),
                self.v["rt_payload"].eq((out_ev & ((out_idx >= self.n) | bad_word)) | (t_next & (nbytes != L))),
                self.c["rt_good"].eq((t_now | t_next) & drx.packet_good),
                self.c["rt_payload"].eq(out_ev & (out_idx == self.n - 1) & ~bad_word) if self.n else
                self.c["rt_payload"].eq(t_next & (nbytes == 0)),
            ]
        return m

    def stimulus(self, rng, t, consts):
        d = super().stimulus(rng, t, consts)
        d["ready"] = int(rng.random() < 0.7)
        return d


def _pat(name):
    return {"always": (lambda t: 1), "every2": (lambda t: t % 2), "every3": (lambda t: int(t % 3 == 0))}[name]


def queries(tier):
    quick = tier == "quick"
    qs = []
    if quick:
        plan = [(None, "every2"), (0, "always"), (1, "every2"), (2, "always"), (3, "always"), (5, "every2"), (8, "always")]
    else:
        plan = [(L, pn) for L in [None] + list(range(10)) for pn in ("always", "every2", "every3")]
    for L, pn in plan:
        tag = "hp" if L is None else f"len{L}"
        fac = {"always": 1, "every2": 2, "every3": 3}[pn]
        rt = pn == "always"
        ff = (lambda L=L, rt=rt: TxFramingHarness(length=L, rt_data=rt))
        nw = ff().nwords
        qs.append(Query(f"bmc_{tag}_{pn}", ff, nw * fac + 6, layer={"ready": _pat(pn)}, split=False, timeout=300,
                        covers=(["done", "rt_header"] + (["rt_good", "rt_payload"] if (rt and L is not None) else []))
                        if pn == "always" else ["done", "stalled_done", "rt_header"],
                        desc=f"{tag}: ready pattern '{pn}' (concrete layer), header and payload symbolic"))
    if not quick:
        for L in (0, 3, 8):
            # a single stall cycle at every position of the packet
            nw = TxFramingHarness(length=L).nwords
            for s in range(2, nw + 2):
                stall_before_crc = (s == nw)      # stall in the cycle the CRC word would be transferred
                ff = (lambda L=L, rt=not stall_before_crc: TxFramingHarness(length=L, rt_data=rt))
                qs.append(Query(f"bmc_len{L}_stall{s}", ff, nw + 8, layer={"ready": (lambda t, s=s: int(t != s))},
                                split=False, covers=["done"], timeout=300,
                                desc=f"len{L}: ready low only in cycle {s} (concrete layer)"))
    # (length 0 = nothing offered on data_sink: what a retransmission looks like, whose payload stream ended with the first try)
    for L, pn in (((3, "always"), (0, "always")) if quick else ((3, "always"), (4, "every2"), (0, "always"), (0, "every2"))):
        ff = (lambda L=L: TxFramingHarness(length=L, delayed=True))
        nw = ff().nwords
        qs.append(Query(f"bmc_delayed_len{L}_{pn}", ff, nw * 2 + 6, layer={"ready": _pat(pn)}, split=False,
                        covers=["done", "rt_header"], timeout=300,
                        desc=f"DL set: DPPSTART then EDB EDB EDB EPF abort; ready '{pn}'"))
    for ty in ((0,) if quick else (0, 12)):
        ff = (lambda ty=ty: TxFramingHarness(length=None, hp_type=ty))
        qs.append(Query(f"bmc_hp_type{ty}", ff, 14, layer={"ready": _pat("every2")}, split=False, covers=["done"],
                        desc=f"header-only packet of type {ty}"))
    if not quick:
        ff = lambda: TxFramingHarness(length=5, rt_data=False)
        qs.append(Query("bmc_len5_freeready", ff, 16, required=False, split=False, covers=[], timeout=600,
                        desc="best effort: ready free in every cycle (symbolic control; CRC terms no longer coincide)"))
    fc = lambda: TxFramingHarness(length=6, rt_data=False)
    qs.append(Query("cosim", fc, 0, kind="cosim", cosim_cycles=80 if quick else 300))
    return qs
