"""C05 -- inter-packet response timing matches the selected bus speed.

DUT: luna.gateware.usb.usb2.packet.USBInterpacketTimer (real class, one interface).
Oracle: expected cycle counts are computed here from the *spec times* (bit times at the
speed's bit rate, converted to domain-clock cycles), not copied from the DUT's tables.
Where the spec time is not a whole number of cycles (6.5 FS bit times = 32.5 cycles at
60 MHz, 6.5 cycles at 12 MHz) floor and ceiling are both accepted, but exactly one strobe
must occur.
"""
import math
from amaranth import *
from ..harness import Harness
from ..engine import Query
import z3

PROP = "C05"
ENCODED = ["luna/gateware/usb/usb2/packet.py: USBInterpacketTimer.__init__/elaborate (delay tables, speed switch)"]
ASSUMPTIONS = [
    "speed input is one of HIGH(0)/FULL(1)/LOW(2); in fs_only configurations speed is FULL",
    "cycle counting convention: the cycle after `start` is cycle 0 (the convention the repo's FS test pins)",
    "fractional spec times (6.5 bit times) may round to floor or ceiling",
]
BOUNDS = "BMC from reset to K cycles with `start` free every cycle; IND k=1 from an arbitrary counter value " \
         "with ghost==counter (all histories); configurations (60 MHz, all speeds), (60 MHz, fs_only), (12 MHz, fs_only)"
OUTSIDE = "speed values other than 0/1/2; domain clocks other than 60/12 MHz (constructor rejects them)"

BIT_RATE = {0: 480e6, 1: 12e6, 2: 1.5e6}


def spec_cycles(domain_clock):
    """speed -> (allowed set, deadline set, timeout set) in cycles, derived from spec times"""
    out = {}
    for sp, rate in BIT_RATE.items():
        cyc = lambda bits: bits / rate * domain_clock
        if sp == 0:
            # 8 HS bit times = one 60 MHz cycle; ULPI 1.1 max 24 cycles; 736 bit times
            allowed, deadline, timeout = {1}, {24}, {round(cyc(736))}
        else:
            a, d, to = cyc(2), cyc(6.5), cyc(16)
            allowed = {round(a)}
            deadline = {math.floor(d), math.ceil(d)}
            timeout = {round(to)}
        out[sp] = (allowed, deadline, timeout)
    return out


class TimerHarness(Harness):
    def __init__(self, domain_clock, fs_only, speed_const=True):
        super().__init__()
        from luna.gateware.usb.usb2.packet import USBInterpacketTimer, InterpacketTimerInterface
        self.dut = USBInterpacketTimer(domain_clock=domain_clock, fs_only=fs_only)
        self.itf = InterpacketTimerInterface()
        self.dut.add_interface(self.itf)
        self.fs_only = fs_only
        self.exp = spec_cycles(domain_clock)
        self.start = self.inp("start", 1)
        self.speed = self.inp("speed", 2, const=speed_const)
        self.speed_const = speed_const
        self.v = {n: self.viol(n) for n in ("tx_allowed", "tx_timeout", "rx_timeout")}
        self.c = {n: self.cover(n) for n in ("tx_allowed", "tx_timeout", "rx_timeout")}
        self.c_ls = self.cover("ls_timeout")
        self.a_speed = self.assume("speed_legal")
        self.ghost = Signal(11, name="ghost")
        self._seen = {}
        self.obs("ghost", self.ghost)

    def elaborate(self, platform):
        m = Module()
        m.submodules.dut = self.dut
        m.d.comb += [self.itf.start.eq(self.start), self.dut.speed.eq(self.speed)]
        ghost = self.ghost
        with m.If(self.start):
            m.d.usb += ghost.eq(0)
        with m.Elif(ghost != 0x7ff):
            m.d.usb += ghost.eq(ghost + 1)
        speeds = [1] if self.fs_only else [0, 1, 2]
        m.d.comb += self.a_speed.eq(0)
        strobes = dict(tx_allowed=self.itf.tx_allowed, tx_timeout=self.itf.tx_timeout, rx_timeout=self.itf.rx_timeout)
        for n, s in strobes.items():
            m.d.comb += self.c[n].eq(s)
        if not self.fs_only:
            m.d.comb += self.c_ls.eq((self.speed == 2) & self.itf.rx_timeout)
        for sp in speeds:
            with m.If(self.speed == sp):
                m.d.comb += self.a_speed.eq(1)
                for (n, s), exp in zip(strobes.items(), self.exp[sp]):
                    exp = sorted(exp)
                    if len(exp) == 1:
                        m.d.comb += self.v[n].eq(s != (ghost == exp[0]))
                    else:
                        lo, hi = exp
                        assert hi == lo + 1
                        seen = Signal(name=f"seen_{n}_{sp}")   # strobe was given at the floor value
                        self._seen[(n, sp)] = seen
                        with m.If(self.start):
                            m.d.usb += seen.eq(0)
                        with m.Elif(ghost == lo):
                            m.d.usb += seen.eq(s)
                        inside = (ghost == lo) | (ghost == hi)
                        if self.speed_const:
                            m.d.comb += self.v[n].eq((s & ~inside) | ((ghost == hi) & (s == seen)))
                        else:
                            m.d.comb += self.v[n].eq(s & ~inside)
        return m


def _inv(ts, frame, h):
    """IND strengthening: DUT counter == min(ghost, saturation value) (looked up by name; skipped if absent)"""
    ctr = ts.signal_by_name("dut.counter")
    gh = ts.signal_by_name("ghost")
    if ctr is None or gh is None:
        return None, ["dut.counter", "ghost"]
    c, g = frame.sig(ctr), frame.sig(gh)
    sat = h.dut._counter_max + 1
    c11 = z3.ZeroExt(11 - c.size(), c)
    conds = [c11 == z3.If(z3.ULT(g, sat), g, z3.BitVecVal(sat, 11))]
    for n, s in h._seen.items():
        # seen flag only meaningful once ghost passed the floor value; before that it is don't-care
        pass
    return conds, ["dut.counter==min(ghost,sat)"]


def queries(tier):
    qs = []
    cfgs = [("60M", 60e6, False), ("60M_fsonly", 60e6, True), ("12M_fsonly", 12e6, True)]
    for tag, clk, fso in cfgs:
        f = (lambda clk=clk, fso=fso: TimerHarness(clk, fso))
        K = 100 if tier == "quick" else (140 if not fso else 120)
        covers = ["tx_allowed", "tx_timeout", "rx_timeout"]
        qs.append(Query(f"bmc_{tag}", f, K, covers=covers, timeout=600,
                        desc=f"{tag}: every strobe at the spec-derived count, start free every cycle, speed symbolic constant"))
        if not fso:
            # the low-speed constants (80/260/640 cycles) need a deep run: start is free only in the first 12 cycles
            qs.append(Query(f"bmc_deep_{tag}", f, 300 if tier == "quick" else 700, covers=[],
                            layer={"start": (lambda t: None if t < 12 else 0)}, timeout=600,
                            desc=f"{tag}: deep run, start free in the first 12 cycles only (reaches LS 80/260[/640])"))
        if not fso and tier == "thorough":
            qs.append(Query(f"cover_ls_{tag}", f, 660, asserts=[], covers=["ls_timeout"], timeout=600,
                            hints={"ls_timeout": {"start": lambda t: 0}},
                            desc="witness: low-speed receive timeout reached (640 cycles)"))
        f2 = (lambda clk=clk, fso=fso: TimerHarness(clk, fso, speed_const=False))
        qs.append(Query(f"bmc_varspeed_{tag}", f2, 40 if tier == "quick" else 100, covers=[],
                        desc=f"{tag}: speed free every cycle (strobes follow the *currently* selected speed)"))
        qs.append(Query(f"ind_{tag}", f, 2, kind="ind", invariants=_inv,
                        desc=f"{tag}: 2-step induction from an arbitrary counter value (all histories), "
                             "invariant counter==min(ghost,saturation)"))
        qs.append(Query(f"cosim_{tag}", f, 0, kind="cosim", cosim_cycles=200 if tier == "quick" else 1500))
    return qs
