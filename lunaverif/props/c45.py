"""C45 -- transaction packet requests produce the requested transaction packet.

DUT: luna.gateware.usb.usb3.protocol.transaction.TransactionPacketGenerator (real class).
Oracle: USB 3.2 section 8.5 transaction packet layout, sliced by the monitor from the raw
header words (not through the repo's *HeaderPacket layouts):
    DW0[4:0]  type = 0b00100 (transaction packet)      DW0[31:25] device address
    DW1[3:0]  subtype: ACK 1, NRDY 2, ERDY 3, STALL 5  DW1[11:8]  endpoint number
    ACK only: DW1[6] retry (Rty), DW1[25:21] sequence number (SeqN)
A request is a cycle in which `interface.ready` is 1 and exactly one send_* strobe is 1.  The
monitor latches the request kind and the field values of that cycle in ghost registers and
compares every header presented afterwards, until the link accepts it.
"""
from amaranth import *
from ..harness import Harness
from ..engine import Query

# FINDINGS
#   235fdcd "fix: send an ERDY packet when an ERDY is requested"
#       DISPATCH_REQUESTS went to SEND_NRDY on send_erdy; caught by subtype (bmc_free, step 2: ERDY request answered by a
#       header with DW1 subtype 2 = NRDY).

PROP = "C45"
ENCODED = ["luna/gateware/usb/usb3/protocol/transaction.py: TransactionPacketGenerator (DISPATCH_REQUESTS request "
           "decoding, parameter latching, SEND_ACK/SEND_STALL/SEND_NRDY/SEND_ERDY packet assembly, done/ready)"]
ASSUMPTIONS = [
    "at most one of send_ack/send_stall/send_nrdy/send_erdy is asserted in a cycle (one generator interface shared by "
    "endpoints that request one handshake at a time); strobes may be asserted in any cycle, also while the generator "
    "is busy (those are not requests and must be ignored)",
    "endpoint_number, retry_required, next_sequence and address are free in every cycle (they may change right after "
    "the request)",
    "header_source.ready (header queue / link layer) is free in every cycle",
    "bounded liveness reading of 'produces': the packet is offered (header_source.valid) from the cycle after the "
    "request and held until accepted; no header is offered without a pending request",
    "endpoint numbers are 4 bits on the wire; interface.endpoint_number[3:0] is compared",
]
BOUNDS = "BMC from reset, K=10 (quick) / K=18 (thorough), all inputs free every cycle"
OUTSIDE = "direction bit, NumP, reserved fields and route string of the generated packets are not part of the statement " \
          "and are not asserted; two different strobes in the same cycle (assumed not to happen)"

TP_TYPE = 0b00100
SUB = dict(ack=1, nrdy=2, erdy=3, stall=5)
KINDS = ("ack", "stall", "nrdy", "erdy")


class TPGenHarness(Harness):
    domains = ("ss",)

    def __init__(self):
        super().__init__()
        from luna.gateware.usb.usb3.protocol.transaction import TransactionPacketGenerator
        self.dut = dut = TransactionPacketGenerator()
        itf = dut.interface
        self.send = {k: self.inp(f"send_{k}", signal=getattr(itf, f"send_{k}")) for k in KINDS}
        self.ep = self.inp("endpoint_number", signal=itf.endpoint_number)
        self.retry = self.inp("retry_required", signal=itf.retry_required)
        self.seq = self.inp("next_sequence", signal=itf.next_sequence)
        self.addr = self.inp("address", signal=dut.address)
        self.hready = self.inp("header_ready", signal=dut.header_source.ready)
        self.a_onehot = self.assume("one_request")
        names = ["subtype", "address", "endpoint", "retry", "sequence", "exactly_one", "busy_not_ready", "done"]
        self.v = {n: self.viol(n) for n in names}
        self.c = {n: self.cover(n) for n in names}
        self.c_kind = {k: self.cover(f"sent_{k}") for k in KINDS}
        # ghost state
        self.g_pending = Signal(name="g_pending")
        self.g_kind = Signal(4, name="g_kind")          # expected subtype
        self.g_addr = Signal(7, name="g_addr")
        self.g_ep = Signal(4, name="g_ep")
        self.g_retry = Signal(name="g_retry")
        self.g_seq = Signal(5, name="g_seq")
        self.g_changed = Signal(name="g_changed")       # an input field changed after the request
        self.g_stalled = Signal(name="g_stalled")       # the link made the packet wait
        for s in (self.g_pending, self.g_kind, self.g_addr, self.g_ep, self.g_retry, self.g_seq):
            self.obs(s.name, s)
        hdr = dut.header_source.header
        self.obs("hdr_valid", dut.header_source.valid)
        self.obs("hdr_dw0", hdr.dw0)
        self.obs("hdr_dw1", hdr.dw1)
        self.obs("itf_ready", itf.ready)
        self.obs("itf_done", itf.done)

    def elaborate(self, platform):
        m = Module()
        m.submodules.dut = dut = self.dut
        itf, src = dut.interface, dut.header_source
        hdr = src.header
        strobes = Cat(*[self.send[k] for k in KINDS])
        nreq = Signal(3, name="nreq")
        m.d.comb += nreq.eq(sum(self.send[k] for k in KINDS))
        m.d.comb += self.a_onehot.eq(nreq <= 1)

        request = Signal(name="request")
        m.d.comb += request.eq(itf.ready & strobes.any())
        accepted = Signal(name="accepted")
        m.d.comb += accepted.eq(src.valid & src.ready)

        # ghost: one outstanding request
        with m.If(accepted):
            m.d.ss += self.g_pending.eq(0)
        with m.If(request):
            m.d.ss += [self.g_pending.eq(1), self.g_addr.eq(self.addr), self.g_ep.eq(self.ep[0:4]),
                       self.g_retry.eq(self.retry), self.g_seq.eq(self.seq), self.g_changed.eq(0), self.g_stalled.eq(0)]
            for k in KINDS:
                with m.If(self.send[k]):
                    m.d.ss += self.g_kind.eq(SUB[k])
        with m.Elif(self.g_pending):
            with m.If((self.addr != self.g_addr) & (self.ep[0:4] != self.g_ep) & (self.retry != self.g_retry)
                      & (self.seq != self.g_seq)):
                m.d.ss += self.g_changed.eq(1)
            with m.If(~src.ready):
                m.d.ss += self.g_stalled.eq(1)

        # packet fields by spec bit position
        p_type, p_addr = hdr.dw0[0:5], hdr.dw0[25:32]
        p_sub, p_rty, p_ep, p_seq = hdr.dw1[0:4], hdr.dw1[6], hdr.dw1[8:12], hdr.dw1[21:26]
        is_ack = self.g_kind == SUB["ack"]
        offered = Signal(name="offered")
        m.d.comb += offered.eq(src.valid & self.g_pending)
        v, c = self.v, self.c
        m.d.comb += [
            v["subtype"].eq(offered & ((p_type != TP_TYPE) | (p_sub != self.g_kind))),
            v["address"].eq(offered & (p_addr != self.g_addr)),
            v["endpoint"].eq(offered & (p_ep != self.g_ep)),
            v["retry"].eq(offered & is_ack & (p_rty != self.g_retry)),
            v["sequence"].eq(offered & is_ack & (p_seq != self.g_seq)),
            # a header is on offer exactly while a request is outstanding (=> one acceptance per request)
            v["exactly_one"].eq(src.valid != self.g_pending),
            # a second request must not be taken while one is outstanding (it could not be honoured)
            v["busy_not_ready"].eq(self.g_pending & itf.ready),
            v["done"].eq(itf.done != accepted),
        ]
        interesting = accepted & self.g_pending & self.g_changed & self.g_stalled
        m.d.comb += [
            c["subtype"].eq(accepted & self.g_pending),
            c["address"].eq(interesting & (self.g_addr != 0)),
            c["endpoint"].eq(interesting & (self.g_ep != 0)),
            c["retry"].eq(interesting & is_ack & self.g_retry),
            c["sequence"].eq(interesting & is_ack & (self.g_seq != 0)),
            c["exactly_one"].eq(accepted & self.g_pending & self.g_stalled),
            c["busy_not_ready"].eq(self.g_pending & strobes.any()),      # strobe while busy: must be ignored
            c["done"].eq(itf.done),
        ]
        for k in KINDS:
            m.d.comb += self.c_kind[k].eq(accepted & self.g_pending & (self.g_kind == SUB[k]))
        return m

    def stimulus(self, rng, t, consts):
        d = super().stimulus(rng, t, consts)
        pick = rng.choice(KINDS + (None, None))
        for k in KINDS:
            d[f"send_{k}"] = int(k == pick)
        return d


def queries(tier):
    f = TPGenHarness
    K = 10 if tier == "quick" else 18
    return [
        Query("bmc_free", f, K, desc="strobes, fields, address and header-queue ready free every cycle"),
        Query("cosim", f, 0, kind="cosim", cosim_cycles=200 if tier == "quick" else 1500),
    ]
