"""C52 -- I2CInitiator follows the I2C bus protocol.

DUT: luna.gateware.interface.i2c.I2CInitiator (with its I2CBusDriver and the two FFSynchronizers),
pads = I2CBus() record, period_cyc = 4 (the smallest value for which period_cyc//4 >= 1), clk_stretch=True.

Environment: an open-drain bus.  scl line = (initiator releases) AND tgt_scl, sda line likewise; the pads'
`.i` inputs see the lines.  tgt_scl / tgt_sda are free in every cycle within the I2C target contract
(listed in ASSUMPTIONS).  The controller side (start/stop/write/read strobes, data_i, ack_i) is free within
the documented usage: one strobe at a time, only while `busy` is low.

Monitor (knows only the I2C protocol and the port list):
  sda_change     the initiator's SDA drive changes with SCL (line) high in that or the previous cycle only as
                 the falling edge of a requested START or the rising edge of a requested STOP
  start_stop     a requested START/STOP produces exactly one such edge before `busy` falls again
  start_on_line  the START edge is a START *condition*: when the initiator begins to pull SDA for a requested START the
                 SDA line was still high, or the initiator has driven an SCL low phase since the request (so that a
                 target holding SDA -- e.g. its ACK, which must stay stable while SCL is high -- could release it)
  write_bits     at the k-th SCL rising edge of a write (k<8) the initiator drives bit 7-k of data_i
  write_release  at the 9th rising edge of a write the initiator has released SDA
  write_ack      ack_o after the write = NOT(SDA line at the 9th rising edge)
  read_release   the initiator has released SDA at the 8 data rising edges of a read
  read_data      data_o after the read = the SDA line at the 8 rising edges, first bit = bit 7
  read_ack       at the 9th rising edge of a read the initiator drives SDA low iff ack_i was set
  nine_clocks    a write/read produces exactly 9 SCL pulses before `busy` falls again
  stretch        while the initiator has released SCL and the target still holds it low, the initiator neither
                 pulls SCL low again nor changes SDA
  busy_rises     `busy` is high in the cycle after an operation was accepted (busy low <=> next strobe is taken;
                 the other direction is discharged by start_stop/nine_clocks: every strobe given while busy is
                 low is executed)

Finding on the unchanged tree (scenario predicate kf_start_on_stale_sda): a START requested while the initiator itself
has begun to pull SDA low within the last two cycles (e.g. START directly after START) takes the short START-SDA-L path
because the synchronised sda_i still reads high, so no START edge is generated.
"""
from amaranth import *
from ..harness import Harness
from ..engine import Query
from ..lib.periph import VS, in_vsync

PROP = "C52"

# FINDINGS
#   fixed in /repo by 1d15c4f "fix: only take the I2C START shortcut when we are not driving SDA ourselves":
#     history STOP, START, then START requested again in the first cycle busy is low: IDLE chose the short START-SDA-L
#     path from the synchronised (2 cycles old) sda_i while the initiator had just begun to pull SDA low itself, so no
#     START edge was generated for the accepted request.  Caught by start_stop in the free layer (bmc_free_ctrl).
#   The scenario predicate kf_start_on_stale_sda describes that finding; no entry is open.
#   Observation outside the statement (not asserted): a strobe given in the first IDLE cycle after an operation, while
#     busy still reads 1, is accepted although the docstring says strobes are ignored while busy is high.
ENCODED = ["luna/gateware/interface/i2c.py: I2CInitiator.elaborate (timer/stb, scl_l/scl_h/stb_x FSM, shift registers)",
           "luna/gateware/interface/i2c.py: I2CBusDriver.elaborate (open-drain enables, synchronisers)"]
ASSUMPTIONS = [
    "controller: start/stop/write/read are strobed only while busy is low and at most one at a time (documented "
    "usage; I2CRegisterInterface does exactly this); data_i/ack_i free",
    "target SCL: the target only stretches, i.e. it starts pulling SCL low only while the SCL line is already low; "
    "it may release at any time (stretch lengths free, including forever)",
    "target SDA: changes only in cycles where the SCL line is low (data stable while SCL is high; the target never "
    "creates START/STOP conditions); otherwise free (any ACK/NACK, any read data, may hold SDA low)",
    "both lines are released before reset",
    "'SCL high' for the SDA-change rule means high in the cycle of the change or in the cycle before it "
    "(no simultaneous edges)",
]
BOUNDS = "BMC from reset, period_cyc=4 (thorough also 8 for the start/stop layer); layer A: everything free, K=24 (46) " \
         "covers start/stop/repeated start sequences and the first bits of a transfer incl. stretching; layer B: a single " \
         "write or read requested in cycle 1 (kind/data free), no stretching, target SDA free: the complete 9-clock " \
         "transfer; thorough adds: read with free stretching in the first 24 cycles, one transfer + following operation, " \
         "START followed by a complete transfer (best effort)"
OUTSIDE = "period_cyc values other than 4 (8); clk_stretch=False; strobes while busy is high (the first IDLE cycle accepts " \
          "them although the docstring says they are ignored -- not part of the statement); more than ~1.3 byte " \
          "transfers per run; I2CRegisterInterface"

NONE, START, STOP, WRITE, READ = range(5)


class I2CHarness(Harness):
    domains = (VS,)

    def __init__(self, period_cyc=4):
        super().__init__()
        from luna.gateware.interface.i2c import I2CBus, I2CInitiator
        self.pads = I2CBus()
        self.dut = dut = I2CInitiator(pads=self.pads, period_cyc=period_cyc, clk_stretch=True)
        self.start = self.inp("start", signal=dut.start)
        self.stop = self.inp("stop", signal=dut.stop)
        self.write = self.inp("write", signal=dut.write)
        self.read = self.inp("read", signal=dut.read)
        self.data_i = self.inp("data_i", signal=dut.data_i)
        self.ack_i = self.inp("ack_i", signal=dut.ack_i)
        self.tgt_scl = self.inp("tgt_scl", 1, init=1)
        self.tgt_sda = self.inp("tgt_sda", 1, init=1)
        self.a = {n: self.assume(n) for n in ("one_strobe", "strobe_when_idle", "tgt_scl_stretch_only",
                                              "tgt_sda_stable_high")}
        names = ("sda_change", "start_stop", "start_on_line", "write_bits", "write_release", "write_ack", "read_release", "read_data",
                 "read_ack", "nine_clocks", "stretch", "busy_rises")
        self.v = {n: self.viol(n) for n in names}
        self.k_stale = self.kf("start_on_stale_sda")
        cov = ("start_done", "repeated_start_done", "stop_done", "write_acked", "write_nacked", "read_done",
               "stretched_bit", "write_bit2", "read_bit2", "start_then_write")
        self.c = {n: self.cover(n) for n in cov}

    def elaborate(self, platform):
        m = Module()
        dut = self.dut
        m.submodules.dut = in_vsync(dut)
        sync = m.d[VS]
        pads = self.pads
        scl_oe, sda_oe = pads.scl.oe, pads.sda.oe          # 1 = initiator pulls the line low
        scl_line = Signal(name="scl_line")
        sda_line = Signal(name="sda_line")
        m.d.comb += [
            scl_line.eq(~scl_oe & self.tgt_scl),
            sda_line.eq(~sda_oe & self.tgt_sda),
            pads.scl.i.eq(scl_line),
            pads.sda.i.eq(sda_line),
        ]
        self.obs("scl_line", scl_line), self.obs("sda_line", sda_line)
        self.obs("scl_oe", scl_oe), self.obs("sda_oe", sda_oe), self.obs("busy", dut.busy)

        p_scl_line = Signal(init=1, name="g_p_scl_line")
        p_sda_oe = Signal(name="g_p_sda_oe")
        p_scl_oe = Signal(name="g_p_scl_oe")
        p_tgt_scl = Signal(init=1, name="g_p_tgt_scl")
        p_tgt_sda = Signal(init=1, name="g_p_tgt_sda")
        p_busy = Signal(init=1, name="g_p_busy")
        sync += [p_scl_line.eq(scl_line), p_sda_oe.eq(sda_oe), p_scl_oe.eq(scl_oe), p_tgt_scl.eq(self.tgt_scl),
                 p_tgt_sda.eq(self.tgt_sda), p_busy.eq(dut.busy)]

        # ---- environment contract
        strobes = Cat(self.start, self.stop, self.write, self.read)
        nstrobes = Signal(3, name="g_nstrobes")
        m.d.comb += nstrobes.eq(self.start + self.stop + self.write + self.read)
        m.d.comb += [
            self.a["one_strobe"].eq(nstrobes <= 1),
            self.a["strobe_when_idle"].eq((strobes == 0) | ~dut.busy),
            self.a["tgt_scl_stretch_only"].eq(~(p_tgt_scl & ~self.tgt_scl) | ~p_scl_line),
            self.a["tgt_sda_stable_high"].eq((self.tgt_sda == p_tgt_sda) | ~scl_line),
        ]

        # ---- operation tracking
        accept = Signal(name="g_accept")
        m.d.comb += accept.eq((strobes != 0) & ~dut.busy)
        op = Signal(3, name="g_op")
        lat_data = Signal(8, name="g_lat_data")
        lat_ack = Signal(name="g_lat_ack")
        npulse = Signal(4, name="g_npulse")
        nfall = Signal(2, name="g_nfall")
        nrise = Signal(2, name="g_nrise")
        rbits = Signal(8, name="g_rbits")
        exp_ack = Signal(name="g_exp_ack")
        stretched = Signal(name="g_stretched")
        prev_op = Signal(3, name="g_prev_op")
        for n, s in dict(op=op, npulse=npulse, nfall=nfall, nrise=nrise, rbits=rbits).items():
            self.obs(n, s)
        cur = Signal(3, name="g_cur")
        m.d.comb += cur.eq(Mux(dut.busy, op, NONE))
        done = Signal(name="g_done")                 # busy falls: the operation in `op` has completed
        m.d.comb += done.eq(~dut.busy & p_busy)

        rise = Signal(name="g_scl_rise")
        m.d.comb += rise.eq(~p_scl_line & scl_line)
        high_adj = Signal(name="g_high_adj")
        m.d.comb += high_adj.eq(scl_line | p_scl_line)
        fall_ev = Signal(name="g_sda_fall_ev")       # initiator starts pulling SDA with SCL high
        rise_ev = Signal(name="g_sda_rise_ev")       # initiator releases SDA with SCL high
        m.d.comb += [fall_ev.eq(sda_oe & ~p_sda_oe & high_adj), rise_ev.eq(~sda_oe & p_sda_oe & high_adj)]

        p_sda_line = Signal(init=1, name="g_p_sda_line")
        scl_low_seen = Signal(name="g_scl_low_seen")
        sync += p_sda_line.eq(sda_line)
        with m.If(accept):
            sync += scl_low_seen.eq(0)
        with m.Elif(~scl_line):
            sync += scl_low_seen.eq(1)
        with m.If(accept):
            sync += [
                op.eq(Mux(self.start, START, Mux(self.stop, STOP, Mux(self.write, WRITE, READ)))),
                lat_data.eq(self.data_i), lat_ack.eq(self.ack_i),
                npulse.eq(0), nfall.eq(0), nrise.eq(0), stretched.eq(0), prev_op.eq(op),
            ]
        with m.Else():
            with m.If(rise & (npulse != 15)):
                sync += npulse.eq(npulse + 1)
                with m.If(npulse < 8):
                    sync += rbits.eq(Cat(sda_line, rbits[:-1]))
                with m.If(npulse == 8):
                    sync += exp_ack.eq(~sda_line)
            with m.If(fall_ev & (nfall != 3)):
                sync += nfall.eq(nfall + 1)
            with m.If(rise_ev & (nrise != 3)):
                sync += nrise.eq(nrise + 1)

        # scenario predicate of the recorded finding: a START accepted while the initiator itself pulls SDA low and
        # began to do so in one of the last two cycles (the synchronised sda_i the FSM looks at is still high)
        p2_sda_oe = Signal(name="g_p2_sda_oe")
        sync += p2_sda_oe.eq(p_sda_oe)
        stale_start = Signal(name="g_stale_start")
        with m.If(accept):
            sync += stale_start.eq(self.start & sda_oe & (~p_sda_oe | ~p2_sda_oe))
        m.d.comb += self.k_stale.eq(stale_start & (op == START))

        exp_wbit = Signal(name="g_exp_wbit")
        for k in range(8):
            with m.If(npulse == k):
                m.d.comb += exp_wbit.eq(lat_data[7 - k])
        stretching = Signal(name="g_stretching")
        m.d.comb += stretching.eq(~scl_oe & ~self.tgt_scl)
        p_stretching = Signal(name="g_p_stretching")
        sync += p_stretching.eq(stretching)
        with m.If(stretching & dut.busy & ((op == WRITE) | (op == READ))):
            sync += stretched.eq(1)
        p_accept = Signal(name="g_p_accept")
        sync += p_accept.eq(accept)

        is_xfer = (op == WRITE) | (op == READ)
        m.d.comb += [
            self.v["sda_change"].eq((fall_ev & (cur != START)) | (rise_ev & (cur != STOP))),
            self.v["start_stop"].eq(done & (((op == START) & (nfall != 1)) | ((op == STOP) & (nrise != 1)))),
            self.v["start_on_line"].eq(fall_ev & (cur == START) & ~p_sda_line & ~scl_low_seen),
            self.v["write_bits"].eq(rise & (cur == WRITE) & (npulse < 8) & (sda_oe != ~exp_wbit)),
            self.v["write_release"].eq(rise & (cur == WRITE) & (npulse == 8) & sda_oe),
            self.v["write_ack"].eq(done & (op == WRITE) & (dut.ack_o != exp_ack)),
            self.v["read_release"].eq(rise & (cur == READ) & (npulse < 8) & sda_oe),
            self.v["read_data"].eq(done & (op == READ) & (dut.data_o != rbits)),
            self.v["read_ack"].eq(rise & (cur == READ) & (npulse == 8) & (sda_oe != lat_ack)),
            self.v["nine_clocks"].eq(done & is_xfer & (npulse != 9)),
            self.v["stretch"].eq(p_stretching & (scl_oe | (sda_oe != p_sda_oe))),
            self.v["busy_rises"].eq(p_accept & ~dut.busy),
        ]
        m.d.comb += [
            self.c["start_done"].eq(done & (op == START) & (nfall == 1)),
            self.c["repeated_start_done"].eq(done & (op == START) & (nfall == 1) & (npulse != 0)),
            self.c["stop_done"].eq(done & (op == STOP) & (nrise == 1)),
            self.c["write_acked"].eq(done & (op == WRITE) & dut.ack_o & (lat_data == 0xA6)),
            self.c["write_nacked"].eq(done & (op == WRITE) & ~dut.ack_o),
            self.c["read_done"].eq(done & (op == READ) & (dut.data_o == 0x5B) & lat_ack),
            self.c["stretched_bit"].eq(rise & is_xfer & dut.busy & stretched & (npulse <= 1)),
            self.c["write_bit2"].eq(rise & (cur == WRITE) & (npulse == 1) & ~sda_oe),
            self.c["read_bit2"].eq(rise & (cur == READ) & (npulse == 1) & ~sda_line),
            self.c["start_then_write"].eq(rise & (cur == WRITE) & (prev_op == START) & (npulse == 0)),
        ]
        return m

    def stimulus(self, rng, t, consts):
        st = getattr(self, "_st", None)
        if st is None:
            st = self._st = dict(tscl=1, tsda=1)
        # cannot see DUT outputs here: keep the target passive on SCL (always legal), SDA random but slow;
        # strobes: rare single strobes (assumption violations only make covers rarer, cosim compares all signals)
        d = dict(start=0, stop=0, write=0, read=0, data_i=rng.getrandbits(8), ack_i=rng.getrandbits(1),
                 tgt_scl=1, tgt_sda=st["tsda"])
        if rng.random() < 0.1:
            st["tsda"] ^= 1
        if rng.random() < 0.15:
            d[rng.choice(["start", "stop", "write", "read"])] = 1
        return d


STROBES = ("start", "stop", "write", "read")


def _only_at(times, first_kinds=None):
    """layer: controller strobes may be given only at the listed cycles (free there), 0 elsewhere"""
    lay = {}
    for n in STROBES:
        lay[n] = (lambda t, n=n: (None if t in times else 0))
    return lay


CTRL = ["sda_change", "start_stop", "start_on_line", "stretch", "busy_rises"]
WR = ["write_bits", "write_release", "write_ack"]
RD = ["read_release", "read_data", "read_ack"]
CLK = ["nine_clocks"]


def _families(qs, tag, f, K, desc, groups, covers, layer=None, hints=None, required=True):
    """each assertion family (and the cover twins) is one query solved in a single process on one unrolling"""
    kw = dict(timeout=900, split=False, layer=layer, required=required)
    for gname, asserts in groups:
        qs.append(Query(f"bmc_{tag}_{gname}", f, K, asserts=asserts, covers=[], desc=desc + f" [{gname} family]", **kw))
    if covers:
        qs.append(Query(f"cover_{tag}", f, K, asserts=[], covers=covers, hints=hints, desc=desc + " [witnesses]", **kw))


def queries(tier):
    qs = []
    quick = tier == "quick"
    f4 = lambda: I2CHarness(4)
    # layer A: everything free (operation sequences start / repeated start / stop / first bits, stretching)
    KA = 24 if quick else 46
    _families(qs, "free", f4, KA,
              "period_cyc=4: controller strobes, data, target SCL (stretching) and SDA free every cycle",
              [("ctrl", CTRL), ("write", WR + CLK), ("read", RD)],
              ["start_done", "repeated_start_done", "stop_done", "stretched_bit", "write_bit2", "read_bit2",
               "start_then_write"])
    # layer B (restricted): exactly one request, in cycle 1, a write or a read (free choice); data, ack_i and the
    # target's SDA free in every cycle; no stretching.  Depth = the whole 9-clock transfer (completes in cycle 111).
    lay = {"start": 0, "stop": 0, "tgt_scl": 1}
    for n in ("write", "read"):
        lay[n] = (lambda t: None if t == 1 else 0)
    _families(qs, "single_transfer", f4, 116,
              "layer: a single write or read requested in cycle 1 (kind, data, ack_i free), no stretching, target SDA free "
              "in every cycle: the complete 9-clock transfer",
              [("write", WR), ("read", RD), ("ctrl", ["nine_clocks", "sda_change"])],
              ["write_acked", "write_nacked", "read_done"], layer=lay,
              hints={"write_acked": {"read": 0}, "write_nacked": {"read": 0}, "read_done": {"write": 0}})
    if not quick:
        # layer B': a single read whose first bits the target may stretch freely (SCL held low at will during the first
        # 24 cycles) while changing SDA during the stretch: the sampled bit must be the one present when SCL is really high
        lay = {n: 0 for n in STROBES}
        lay["read"] = (lambda t: None if t == 1 else 0)
        lay["tgt_scl"] = (lambda t: None if t < 24 else 1)
        _families(qs, "single_read_stretch", f4, 128,
                  "layer: a single read requested in cycle 1; the target stretches SCL freely during the first 24 cycles "
                  "and drives SDA freely: complete transfer",
                  [("read", ["read_data", "nine_clocks", "stretch"])], ["stretched_bit"], layer=lay)
        # layer B2: one whole transfer with a free kind and whatever operation follows it
        lay = _only_at(set([1]) | set(range(100, 200)))
        lay["tgt_scl"] = 1
        _families(qs, "one_transfer", f4, 130,
                  "layer: requests only in cycle 1 and from cycle 100 on (kind/data free), no clock stretching, "
                  "target SDA free: a complete write or read and the operation after it",
                  [("ctrl", CTRL + CLK), ("write", WR), ("read", RD)], ["write_acked", "read_done"], layer=lay,
                  hints={"write_acked": {"start": 0, "stop": 0, "read": 0}, "read_done": {"start": 0, "stop": 0, "write": 0}})
        # layer C: START (or anything) followed by a complete transfer; best effort
        lay = _only_at(set([1]) | set(range(12, 20)))
        lay["tgt_scl"] = 1
        _families(qs, "start_transfer", f4, 130,
                  "layer: requests only in cycles 1 and 12-19: START (or anything) followed by a complete transfer",
                  [("all", CTRL + CLK + WR + RD)], ["write_acked"], layer=lay, required=False,
                  hints={"write_acked": {"stop": 0, "read": 0}})
        f8 = lambda: I2CHarness(8)
        _families(qs, "free_p8", f8, 56, "period_cyc=8: everything free, start/stop/first bits",
                  [("ctrl", CTRL + ["write_bits", "read_release", "nine_clocks"])], ["start_done", "stop_done"])
    qs.append(Query("cosim", f4, 0, kind="cosim", cosim_cycles=200 if quick else 3000))
    return qs
