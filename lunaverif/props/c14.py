"""C14 -- data toggles advance only on success and reset on CLEAR_FEATURE(ENDPOINT_HALT).

Three harnesses, all with real luna classes:
 A  IN:      USBStreamInEndpoint (+ real USBInTransferManager) with the interface-level host of lib/inhost.py, plus a
             clear_endpoint_halt_in strobe with free direction/number.
 B  OUT:     USBStreamOutEndpoint with the interface-level OUT host of lib/outhost.py, plus the strobe.  The expected
             toggle is observed black-box: a packet with the expected toggle is accepted (its bytes reach the stream),
             one with the other toggle is ACKed and dropped.
 C  handler: StandardRequestHandler at its RequestHandlerInterface: symbolic SETUP fields, token / stage strobes, own and
             broadcast ACKs: `clear_endpoint_halt.enable` only when a CLEAR_FEATURE(ENDPOINT_HALT, endpoint) request's
             status ZLP is acknowledged, with direction/number taken from wIndex.
Assume-guarantee: A and B assume the strobe arrives where C's assertions say the handler produces it: together with the
host's ACK of the control endpoint's status ZLP (last token: an answered IN to endpoint 0, bus otherwise idle).
"""
from amaranth import *
from ..harness import Harness
from ..engine import Query
from ..lib.inhost import InHostMixin, HOST_ASSUMPTIONS, PID_IN, PID_OUT, PID_SETUP, PID_PING
from .c11 import InHarness

PROP = "C14"
# FINDINGS (genuine defects found by this check on the original tree, now fixed in /repo):
#   "fix: only accept the ACK of our own status stage in register-write and CLEAR_FEATURE requests" (7d85238)
#       StandardRequestHandler's CLEAR_FEATURE state strobed clear_endpoint_halt on *any* ACK: before the status stage (a
#       broadcast ACK of another endpoint's IN data between SETUP and status), and for requests it STALLs
#       (recipient != endpoint or feature != ENDPOINT_HALT; the FSM also stayed in CLEAR_FEATURE after the STALL).
#       Caught by harness C: enable_needs_own_ack, enable_needs_halt_request (and enable_on_completion through the stale state).
#   "fix: a data-toggle reset wins over the toggle of a newly queued IN packet" (04d9e6c)
#       clear-halt strobe in the very cycle USBInTransferManager queues a packet (WAIT_FOR_DATA, packet_ready): the FSM's
#       data_pid[0] toggle overrode the reset, first packet after ClearFeature(HALT) was DATA1.
#       Caught by harness A: data0_after_clear, pid_seq.
#   Harness B (USBStreamOutEndpoint) found nothing.  A new SETUP not restarting the handler FSM (C07's finding) is excluded
#   from harness C's halt-request/completion clauses by the `clean` ghost.
ENCODED = [
    "luna/gateware/usb/usb2/endpoints/stream.py: USBStreamInEndpoint clear_endpoint_halt decoding -> tx_manager.reset_sequence",
    "luna/gateware/usb/usb2/transfer.py: USBInTransferManager data_pid handling (reset_sequence, toggles on swap/ACK/ZLP)",
    "luna/gateware/usb/usb2/endpoints/stream.py: USBStreamOutEndpoint expected_data_toggle (ACK/skip, clear halt decoding)",
    "luna/gateware/usb/request/standard.py: StandardRequestHandler CLEAR_FEATURE state (status ZLP/stall, clear_endpoint_halt on ACK)",
]
ASSUMPTIONS = HOST_ASSUMPTIONS + [
    "A/B: clear_endpoint_halt_in.enable strobes only together with the host's ACK of the control endpoint's status ZLP: last "
    "token is an answered IN to endpoint 0, no transaction of the endpoint under test in progress (guaranteed by harness C "
    "for StandardRequestHandler); direction and number are free",
    "A: broadcast ACKs other than the control status ACK are excluded here (assume_fack_only_ctrl): their effect is C11's finding",
    "A: after a matching clear-halt the host also expects DATA0 (the host resets its own toggle on ClearFeature(HALT))",
    "B: OUT host contract of lib/outhost.py (C02 guarantees); buffer_size 6 > what can be sent within the bound, so NAKs for "
    "lack of space do not occur; consumer ready free",
    "C: tokens/strobes at RequestHandlerInterface level: setup.received only after a SETUP token to endpoint 0; "
    "data_requested/status_requested only at the response point of an IN token to endpoint 0; the host ACKs a handler "
    "packet only if it received it and before the next token; broadcast ACKs (for other endpoints' / devices' IN data) only "
    "after a token for another endpoint or address; SETUP fields change only with setup.received, once per SETUP token",
    "C: 'strobe only for a halt request' and 'strobe given on completion' are only demanded when every earlier request in the trace ended with an acknowledged "
    "status ZLP (a new SETUP aborting an unfinished request is C07's subject)",
]
BOUNDS = "A: mps=2, K=18 quick / 24 thorough; B: mps=2, buffer 6, K=22 / 28; C: K=13 / 18, all SETUP fields symbolic"
OUTSIDE = "strobes at arbitrary cycles (e.g. while the endpoint's own packet is in flight) -- not producible by the in-repo " \
          "handler; USBSignalInEndpoint and isochronous endpoints (no clear-halt support in the source); user request handlers " \
          "driving clear_endpoint_halt; SET_INTERFACE / SET_CONFIGURATION toggle resets (not implemented in the source)"

EP = InHarness.EP


# ===================================================================================== A: IN endpoint
A_ASSERTS = ["pid_seq", "retry_same", "data0_after_clear", "valid_continuous", "max_packet"]
A_COVERS = ["clear_match_pending_data1", "clear_match_then_packet", "clear_nonmatching_then_data1", "clear_other_direction"]


class InClearHarness(InHarness):
    def __init__(self, mps=2):
        super().__init__(mps=mps, kind="endpoint", clear_halt=True)

    def extra_init(self):
        self.v14 = {n: self.viol(n) for n in ["data0_after_clear"]}
        self.c14 = {n: self.cover(n) for n in A_COVERS}
        self.a_fack = self.assume("fack_only_ctrl")

    def stimulus(self, rng, t, consts):
        d = super().stimulus(rng, t, consts)
        d["ch_en"] = int(rng.random() < 0.5)
        d["fack"] = int(rng.random() < 0.5)
        if rng.random() < 0.3:
            d["t_ep"] = 0
        return d

    def extra_logic(self, m, g):
        H = self.H
        ch = self.dut.interface.clear_endpoint_halt_in
        ctrl_ack = H.fack_ev & (H.ep_reg == 0) & (H.pid_reg == PID_IN)
        ch_ev = Signal(name="g_ch_ev")
        match = Signal(name="g_ch_match")
        m.d.comb += [
            self.a_fack.eq(~H.fack_ev | ctrl_ack),
            ch_ev.eq(self.ch_en & ctrl_ack),
            ch.enable.eq(ch_ev), ch.direction.eq(self.ch_dir), ch.number.eq(self.ch_num),
            match.eq(ch_ev & self.ch_dir & (self.ch_num == EP)),
        ]
        after_clear = Signal(name="g_after_clear")
        nonmatch_seen = Signal(name="g_nonmatch_seen")
        with m.If(match):
            # device and host both restart at DATA0 (later assignment overrides the toggles of host_model)
            m.d.usb += [H.h_exp.eq(0), H.d_exp.eq(0), after_clear.eq(1)]
        with m.Elif(H.pkt_start):
            m.d.usb += after_clear.eq(0)
        with m.If(ch_ev & ~match & H.d_exp):
            m.d.usb += nonmatch_seen.eq(1)
        m.d.comb += [
            self.v14["data0_after_clear"].eq(H.pkt_start & after_clear & (self.tx_pid != 0)),
            self.c14["clear_match_pending_data1"].eq(match & H.d_exp & H.prev_valid),
            self.c14["clear_match_then_packet"].eq(H.pkt_start & after_clear & ~H.is_zlp),
            self.c14["clear_nonmatching_then_data1"].eq(H.pkt_start & nonmatch_seen & (self.tx_pid == 1)),
            self.c14["clear_other_direction"].eq(ch_ev & ~self.ch_dir & (self.ch_num == EP) & H.d_exp),
        ]


# ===================================================================================== B: OUT endpoint
B_ASSERTS = ["skip_acked", "match_handshake", "no_dup", "all_delivered", "quiet"]
B_COVERS = ["skip", "accept_data1", "clear_match_then_data0_accepted", "clear_nonmatching_then_data1_accepted", "delivered"]


class OutClearHarness(Harness):
    def __init__(self, mps=2, buffer_size=6):
        super().__init__()
        from luna.gateware.usb.usb2.endpoints.stream import USBStreamOutEndpoint
        from ..lib.outhost import OutHost
        self.mps = mps
        self.dut = USBStreamOutEndpoint(endpoint_number=EP, max_packet_size=mps, buffer_size=buffer_size)
        self.host = OutHost(self, self.dut.interface, mps)
        self.inp("s_ready", signal=self.dut.stream.ready)
        self.ch_en = self.inp("ch_en", 1)
        self.ch_dir = self.inp("ch_dir", 1)
        self.ch_num = self.inp("ch_num", 4)
        self.v = {n: self.viol(n) for n in B_ASSERTS}
        self.c = {n: self.cover(n) for n in B_COVERS}

    def stimulus(self, rng, t, consts):
        d = super().stimulus(rng, t, consts)
        d.update(self.host.stimulus(rng, t, consts, EP))
        if rng.random() < 0.2:
            d["tok_ep"] = 0
        return d

    def elaborate(self, platform):
        m = Module()
        m.submodules.dut = dut = self.dut
        host, itf, v, c, mps = self.host, dut.interface, self.v, self.c, self.mps
        host.elaborate(m)
        stream = dut.stream
        ours = Signal(name="g_ours")
        m.d.comb += ours.eq((host.pid_r == PID_OUT) & (host.ep_r == EP))
        # clear-halt strobe: with the ACK of the control status stage (answered IN to endpoint 0, bus idle)
        ch = itf.clear_endpoint_halt_in
        ch_ev = Signal(name="g_ch_ev")
        match = Signal(name="g_ch_match")
        m.d.comb += [
            ch_ev.eq(self.ch_en & (host.ph == 0) & ~host.in_pkt & ~host.rfr_pending & ~host.ev_token
                     & (host.pid_r == PID_IN) & (host.ep_r == 0)),
            ch.enable.eq(ch_ev), ch.direction.eq(self.ch_dir), ch.number.eq(self.ch_num),
            match.eq(ch_ev & ~self.ch_dir & (self.ch_num == EP)),
        ]
        g_exp = Signal(name="g_exp")                 # toggle the device must expect
        good = Signal(5, name="g_good")              # bytes of packets accepted (ACKed with the expected toggle)
        outc = Signal(5, name="g_outc")              # bytes delivered on the stream
        since = Signal(3, name="g_since")            # cycles since the last rx_complete/rx_invalid (saturating)
        ack, nak = itf.handshakes_out.ack, itf.handshakes_out.nak
        resp = Signal(name="g_resp")
        tmatch = Signal(name="g_tmatch")
        m.d.comb += [resp.eq(host.ev_resp & ours), tmatch.eq(host.toggle_r == g_exp)]
        with m.If(resp & tmatch & ack):
            m.d.usb += [g_exp.eq(~g_exp), good.eq(good + host.plen_r)]
        after_clear = Signal(name="g_after_clear")
        nonmatch_seen = Signal(name="g_nonmatch_seen")
        with m.If(match):
            m.d.usb += [g_exp.eq(0), after_clear.eq(g_exp)]
        with m.If(ch_ev & ~match & g_exp):
            m.d.usb += nonmatch_seen.eq(1)
        with m.If(resp):
            m.d.usb += [after_clear.eq(0), nonmatch_seen.eq(0)]
        with m.If(stream.valid & stream.ready):
            m.d.usb += outc.eq(outc + 1)
        with m.If(host.ev_complete | host.ev_invalid | host.in_pkt):
            m.d.usb += since.eq(0)
        with m.Elif(since != 7):
            m.d.usb += since.eq(since + 1)
        # bytes of a complete packet with the expected toggle may appear before its handshake
        allow = Signal(5, name="g_allow")
        m.d.comb += allow.eq(Mux((host.ph == 3) & ours & tmatch, host.plen_r, 0))
        quiescent = (host.ph == 0) & ~host.in_pkt & (since >= 6)
        m.d.comb += [
            # wrong toggle: ACK (the host missed our ACK) and drop
            v["skip_acked"].eq(resp & ~tmatch & ~(ack & ~nak)),
            c["skip"].eq(resp & ~tmatch & ack & (host.plen_r != 0)),
            # expected toggle: exactly one of ACK / NAK
            v["match_handshake"].eq(resp & tmatch & ~(ack ^ nak)),
            c["accept_data1"].eq(resp & tmatch & ack & g_exp & (host.plen_r != 0)),
            # the stream never carries bytes of packets that were not accepted (duplicates after a toggle error)
            v["no_dup"].eq(outc > good + allow),
            # ... and carries all bytes of accepted packets
            v["all_delivered"].eq(quiescent & (stream.valid != (outc != good))),
            c["delivered"].eq(quiescent & (outc == good) & (good >= 2)),
            # handshakes only at the response point of an OUT/PING transaction to this endpoint
            v["quiet"].eq((ack | nak) & ~(host.ev_resp & ours)
                          & ~(host.ev_tok_rfr & (host.pid_r == PID_PING) & (host.ep_r == EP))),
            c["clear_match_then_data0_accepted"].eq(resp & after_clear & ~host.toggle_r & ack & (host.plen_r != 0)),
            c["clear_nonmatching_then_data1_accepted"].eq(resp & nonmatch_seen & host.toggle_r & ack & tmatch & (host.plen_r != 0)),
        ]
        return m


# ===================================================================================== C: request handler
C_ASSERTS = ["enable_needs_own_ack", "enable_needs_halt_request", "enable_fields", "enable_on_completion"]
C_COVERS = ["enable", "halt_out_direction", "stalled_non_halt", "foreign_ack_before_status", "status_retry"]
T_IDLE, T_TOK, T_RESP, T_TX = range(4)


class HandlerHarness(Harness):
    def __init__(self):
        super().__init__()
        from luna.gateware.usb.request.standard import StandardRequestHandler
        from ..lib.descriptors import make_collection
        coll, _ = make_collection("dense", 8)
        self.dut = StandardRequestHandler(coll, max_packet_size=8, avoid_blockram=False)
        self.ev = self.inp("ev", 3)          # 1 token ep0, 2 token elsewhere, 3 response point, 4 setup received, 5 own ACK, 6 broadcast ACK
        self.t_pid = self.inp("t_pid", 2)
        self.t_same_addr = self.inp("t_same_addr", 1)
        self.stage = self.inp("stage", 1)    # response point of an IN token: 1 = status stage, 0 = data stage
        self.rx_ok = self.inp("rx_ok", 1)
        self.tx_ready = self.inp("tx_ready", 1)
        self.f = {n: self.inp("s_" + n, w) for n, w in [("is_in_request", 1), ("type", 2), ("recipient", 5), ("request", 8),
                                                         ("value", 16), ("index", 16), ("length", 16)]}
        self.v = {n: self.viol(n) for n in C_ASSERTS}
        self.c = {n: self.cover(n) for n in C_COVERS}
        self.restrictions = ["interface.rx*/active_config/handshakes_in.nak|stall tied 0"]

    def stimulus(self, rng, t, consts):
        d = super().stimulus(rng, t, consts)
        d["ev"] = rng.choice([0, 1, 1, 3, 3, 4, 5, 2, 6])
        d["t_pid"] = rng.choice([0, 0, 2, 2, 1])
        d["s_type"] = 0 if rng.random() < 0.8 else rng.getrandbits(2)
        d["s_request"] = 1 if rng.random() < 0.7 else rng.getrandbits(3)
        d["s_recipient"] = 2 if rng.random() < 0.7 else rng.getrandbits(2)
        d["s_value"] = 0 if rng.random() < 0.7 else rng.getrandbits(2)
        d["stage"] = int(rng.random() < 0.8)
        return d

    def elaborate(self, platform):
        m = Module()
        m.submodules.dut = dut = self.dut
        itf, v, c = dut.interface, self.v, self.c
        tok, tx, setup = itf.tokenizer, itf.tx, itf.setup
        ev = self.ev
        ph = Signal(2, name="h_phase")
        pid_reg = Signal(4, name="h_pid")
        ep0 = Signal(name="h_ep0")                    # last own-address token named endpoint 0
        elsewhere = Signal(name="h_elsewhere")        # last token was for another endpoint / device
        own_owed = Signal(name="h_own_owed")
        in_packet = Signal(name="g_in_packet")
        can_tok = (ph == T_IDLE) | (ph == T_TOK)
        tok0_ev, tokx_ev, rfr_ev, setup_ev, ack_ev, fack_ev = (Signal(name=f"e_{n}") for n in
                                                               ("tok0", "tokx", "rfr", "setup", "ack", "fack"))
        m.d.comb += [
            tok0_ev.eq((ev == 1) & can_tok),
            tokx_ev.eq((ev == 2) & can_tok),
            rfr_ev.eq((ev == 3) & (ph == T_TOK) & ep0 & ~elsewhere),
            setup_ev.eq((ev == 4) & (ph == T_TOK) & ep0 & ~elsewhere & (pid_reg == PID_SETUP)),
            ack_ev.eq((ev == 5) & (ph == T_IDLE) & own_owed),
            fack_ev.eq((ev == 6) & (ph == T_IDLE) & elsewhere),
        ]
        newpid = Signal(4, name="e_newpid")
        with m.Switch(self.t_pid):
            for i, p in enumerate([PID_IN, PID_OUT, PID_SETUP, PID_PING]):
                with m.Case(i):
                    m.d.comb += newpid.eq(p)
        other_addr = tokx_ev & ~self.t_same_addr
        m.d.comb += [
            tok.pid.eq(Mux(tok0_ev | (tokx_ev & self.t_same_addr), newpid, Mux(other_addr, 0, pid_reg))),
            tok.endpoint.eq(Mux(tok0_ev, 0, Mux(tokx_ev & self.t_same_addr, 5, Mux(ep0, 0, 5)))),
            tok.new_token.eq(tok0_ev | (tokx_ev & self.t_same_addr)),
            tok.ready_for_response.eq(rfr_ev),
            tok.is_in.eq(tok.pid == PID_IN), tok.is_out.eq(tok.pid == PID_OUT),
            tok.is_setup.eq(tok.pid == PID_SETUP), tok.is_ping.eq(tok.pid == PID_PING),
            itf.handshakes_in.ack.eq(ack_ev | fack_ev),
            itf.status_requested.eq(rfr_ev & (pid_reg == PID_IN) & self.stage),
            itf.data_requested.eq(rfr_ev & (pid_reg == PID_IN) & ~self.stage),
            setup.received.eq(setup_ev),
        ]
        # SETUP fields: registers that change only with setup.received
        cur = {}
        for n, inp in self.f.items():
            r = Signal(len(inp), name=f"h_setup_{n}")
            cur[n] = Signal(len(inp), name=f"g_setup_{n}")
            m.d.comb += [cur[n].eq(Mux(setup_ev, inp, r)), getattr(setup, n).eq(cur[n])]
            with m.If(setup_ev):
                m.d.usb += r.eq(inp)
        # handler packets
        pkt_start, is_zlp, pkt_end = Signal(name="g_pkt_start"), Signal(name="g_is_zlp"), Signal(name="g_pkt_end")
        hold = Signal(name="h_ready_hold")
        m.d.usb += hold.eq(pkt_start)
        m.d.comb += [
            pkt_start.eq(tx.valid & ~in_packet),
            is_zlp.eq(pkt_start & tx.last & ~tx.first),
            tx.ready.eq(self.tx_ready & in_packet & ~hold),
            pkt_end.eq(is_zlp | ((pkt_start | in_packet) & tx.valid & tx.last & tx.ready)),
        ]
        with m.If(pkt_end | (in_packet & ~tx.valid)):     # (a packet the handler abandons is over, too)
            m.d.usb += in_packet.eq(0)
        with m.Elif(pkt_start):
            m.d.usb += in_packet.eq(1)
        # bus phases
        with m.If(tok0_ev | tokx_ev):
            m.d.usb += [ph.eq(Mux(tok0_ev, T_TOK, T_IDLE)), own_owed.eq(0), elsewhere.eq(tokx_ev)]
            with m.If(tok0_ev | self.t_same_addr):
                m.d.usb += [pid_reg.eq(newpid), ep0.eq(tok0_ev)]
            with m.Else():
                m.d.usb += pid_reg.eq(0)
        # response window: the host waits for the device's answer (>= 16 bit times); status ZLPs and serializer answers
        # start at once / in the next cycle, GET_DESCRIPTOR answers a few cycles later: keep the bus reserved for 4 cycles
        # after a data-stage request, 1 cycle after a status-stage request, or until the answer has started
        resp_cnt = Signal(2, name="h_resp_cnt")
        with m.Elif(rfr_ev):
            m.d.usb += [ph.eq(T_RESP), resp_cnt.eq(Mux(self.stage, 0, 3))]
        with m.Elif(setup_ev):
            m.d.usb += ph.eq(T_IDLE)          # one setup.received per SETUP token
        with m.Elif(ph == T_RESP):
            with m.If((pkt_start | in_packet) & ~pkt_end):
                m.d.usb += ph.eq(T_TX)
            with m.Elif(pkt_end | (resp_cnt == 0)):
                m.d.usb += ph.eq(T_IDLE)
            with m.Else():
                m.d.usb += resp_cnt.eq(resp_cnt - 1)
        with m.Elif(ph == T_TX):
            with m.If(pkt_end | (in_packet & ~tx.valid)):
                m.d.usb += ph.eq(T_IDLE)
        with m.If(ack_ev):
            m.d.usb += own_owed.eq(0)
        with m.If(pkt_end):
            m.d.usb += own_owed.eq(self.rx_ok)

        # ---- monitor
        from usb_protocol.types import USBRequestType, USBRequestRecipient, USBStandardRequests, USBStandardFeatures
        is_halt_req = Signal(name="g_is_halt_req")
        m.d.comb += is_halt_req.eq((cur["type"] == USBRequestType.STANDARD) & (cur["request"] == USBStandardRequests.CLEAR_FEATURE)
                                   & (cur["recipient"] == USBRequestRecipient.ENDPOINT)
                                   & (cur["value"] == USBStandardFeatures.ENDPOINT_HALT))
        have_setup = Signal(name="g_have_setup")
        status_zlp = Signal(name="g_status_zlp")      # the unacknowledged handler packet is the status ZLP of the current request
        with m.If(setup_ev):
            m.d.usb += [have_setup.eq(1), status_zlp.eq(0)]
        with m.Elif(tok0_ev | tokx_ev | ack_ev):
            m.d.usb += status_zlp.eq(0)
        with m.Elif(pkt_end):
            m.d.usb += status_zlp.eq(is_zlp & itf.status_requested & have_setup)
        # `clean`: every earlier request ended with an acknowledged status ZLP (an abandoned control transfer followed by a
        # new SETUP is C07's subject, not this property's)
        clean = Signal(name="g_clean", init=1)
        done = Signal(name="g_done", init=1)
        with m.If(setup_ev):
            m.d.usb += [clean.eq(clean & done), done.eq(0)]
        with m.Elif(ack_ev & status_zlp):
            m.d.usb += done.eq(1)
        clean_now = Mux(setup_ev, clean & done, clean)
        che = itf.clear_endpoint_halt
        completes = ack_ev & status_zlp & is_halt_req & clean_now
        stalled = Signal(name="g_stalled")
        with m.If(setup_ev):
            m.d.usb += stalled.eq(0)
        with m.Elif(itf.handshakes_out.stall & have_setup & ~is_halt_req
                    & (cur["request"] == USBStandardRequests.CLEAR_FEATURE) & (cur["type"] == USBRequestType.STANDARD)):
            m.d.usb += stalled.eq(1)
        zlps = Signal(2, name="g_zlps")
        with m.If(setup_ev):
            m.d.usb += zlps.eq(0)
        with m.Elif(is_zlp & (zlps != 3)):
            m.d.usb += zlps.eq(zlps + 1)
        m.d.comb += [
            # the strobe is given only on the host's ACK of a packet the handler itself sent: the status ZLP
            v["enable_needs_own_ack"].eq(che.enable & ~(ack_ev & status_zlp)),
            # ... of a CLEAR_FEATURE(ENDPOINT_HALT) request addressed to an endpoint
            v["enable_needs_halt_request"].eq(che.enable & clean_now & ~(have_setup & is_halt_req)),
            # ... naming the endpoint number and direction of wIndex
            v["enable_fields"].eq(che.enable & ((che.direction != cur["index"][7]) | (che.number != cur["index"][0:4]))),
            # ... and it is given when such a request completes
            v["enable_on_completion"].eq(completes & ~che.enable),
            c["enable"].eq(che.enable & completes & che.direction),
            c["halt_out_direction"].eq(che.enable & completes & ~che.direction & (che.number == 3)),
            c["stalled_non_halt"].eq(stalled),
            c["foreign_ack_before_status"].eq(fack_ev & have_setup & is_halt_req & (zlps == 0)),
            c["status_retry"].eq(completes & (zlps >= 2)),
        ]
        return m


def queries(tier):
    quick = tier == "quick"
    qs = []
    fa = lambda: InClearHarness(2)
    qs.append(Query("bmc_in", fa, 18 if quick else 24, timeout=900, asserts=A_ASSERTS, covers=A_COVERS,
                    desc="A: USBStreamInEndpoint mps=2, host events/stream/flush/tx.ready free, clear-halt strobe (free direction/number) "
                         "with any control status ACK"))
    qs.append(Query("cosim_in", fa, 0, kind="cosim", cosim_cycles=60 if quick else 400))
    fb = lambda: OutClearHarness(2, 6)
    qs.append(Query("bmc_out", fb, 22 if quick else 28, timeout=900,
                    desc="B: USBStreamOutEndpoint mps=2 buffer 6, OUT host free (toggles, corruption, gaps), consumer free, clear-halt strobe"))
    qs.append(Query("cosim_out", fb, 0, kind="cosim", cosim_cycles=60 if quick else 600))
    fc = lambda: HandlerHarness()
    qs.append(Query("bmc_handler", fc, 13 if quick else 18, timeout=900,
                    desc="C: StandardRequestHandler, SETUP fields symbolic per request, tokens/stage strobes/own+broadcast ACKs free"))
    qs.append(Query("cosim_handler", fc, 0, kind="cosim", cosim_cycles=60 if quick else 600))
    return qs
