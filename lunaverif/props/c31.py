"""C31 -- SuperSpeed scrambling uses the USB3 LFSR and descrambling inverts it.

Oracle: the bit-serial Galois LFSR of USB3 appendix B (x^16+x^5+x^4+x^3+1; the keystream bit for data bit i of a
symbol is register bit 15 after i shifts, D0 first; 8 shifts per symbol), written once on bit lists so that the same
code runs on Python ints (validated at import on the 48-byte table the repo's test quotes from the spec) and on
Amaranth bits (the monitor's ghost register).

Harnesses: ScramblerLFSR alone; Scrambler and Descrambler each next to the ghost; Scrambler -> Descrambler round trip.
"""
from amaranth import *
import z3

from ..harness import Harness
from ..engine import Query

# FINDINGS
# ---------------------------------------------------------------------------------------------------------------
# 1. Scrambler/Descrambler restarted the LFSR when a COM word was merely *offered* (comma_present did not depend on
#    source.ready): a COM word with data symbols that was stalled for a cycle (valid & ~ready) and then transferred
#    was scrambled with the initial keystream, while the far-side descrambler (which sees the word once) still used
#    the running keystream -> round trip broken; the scrambler output also changed while stalled.
#    Fixed in /repo by commit "fix: restart the scrambler LFSR when a COM word is transferred, not when it is offered"
#    (lfsr.clear = clear | (comma_present & source.ready)).
#    Catching assertions (BMC K=8 on the pre-fix tree, all replayed on pysim):
#      bmc_roundtrip_ffff      assert:round_trip
#      bmc_scrambler_ffff/7dbd assert:keystream_progress, assert:data_scrambled
#      bmc_descrambler_ffff    assert:keystream_progress, assert:data_scrambled
#    (ind_* reported ind_open on the pre-fix tree and hold on the fixed tree.)
#    Scenario predicate exported by both harnesses: kf "com_word_stalled".
# ---------------------------------------------------------------------------------------------------------------

PROP = "C31"
ENCODED = ["luna/gateware/usb/usb3/physical/scrambling.py: ScramblerLFSR (next_value / value equations, clear/advance)",
           "luna/gateware/usb/usb3/physical/scrambling.py: Scrambler / Descrambler (comma restart, hold, per-symbol XOR, pass-through)"]
ASSUMPTIONS = [
    "a COM restarts the keystream when it is symbol 0 of a *transferred* word (valid & ready; K28.5 = 0xBC with its ctrl "
    "bit set): a word that is on offer while the consumer stalls is one word of the stream, not several",
    "restart value = the instance's initial_value; checked for 0xFFFF (what USB3PhysicalLayer passes, and the Descrambler "
    "default) and for the Scrambler class default 0x7DBD",
    "a word is transferred when sink.valid & source.ready; it advances the keystream unless `hold` is high",
    "round trip: words transferred while `hold` is high (SKP insertion) do not reach the descrambler; `enable` is the "
    "same on both sides; `clear` is not used (restart is by COM, seen identically by both sides); the slot that is held "
    "and replaced by SKP carries logical idle, never a COM word (can_send_skip contract of the link layer); the producer "
    "keeps a word that was not accepted (valid & ~ready) on offer unchanged; the far side receives every transferred word "
    "exactly once (no back-pressure on the receive path)",
]
BOUNDS = "BMC from reset with every input free per cycle (quick K=8, thorough K=12) plus an induction step from an " \
         "arbitrary LFSR state (all 2^16 states) for the LFSR and for Scrambler/Descrambler"
OUTSIDE = "wiring of hold/enable inside USB3PhysicalLayer (C33 checks `sending_skip => scrambler holds`); other initial values"

COM = 0xBC


def lfsr_run(reg, nbits, stage=None):
    """reg: 16 bits (list, index = bit number).  Returns (keystream bits in order of use, register after nbits shifts)."""
    reg = list(reg)
    ks = []
    for k in range(nbits):
        fb = reg[15]
        ks.append(fb)
        reg = [fb, reg[0], reg[1], reg[2] ^ fb, reg[3] ^ fb, reg[4] ^ fb] + reg[5:15]
        if stage is not None:
            reg = stage(reg)
    return ks, reg


def validate_reference():
    table = [0x14c017ff, 0x8202e7b2, 0xa6286e72, 0x8dbf6dbe, 0xe6a740be, 0xb2e2d32c, 0x2a770207, 0xe0be34cd,
             0xb1245da7, 0x22bda19b, 0xd31d45d4, 0xee76ead7]              # [USB3.2 appendix B.1] via tests/test_usb3_scrambling.py
    reg = [1] * 16
    for w in table:
        ks, reg = lfsr_run(reg, 32)
        assert sum(b << i for i, b in enumerate(ks)) == w, hex(w)


def ref_lfsr(m, prefix, ghost):
    """Amaranth: (keystream word for the 4 symbols of this cycle, register after the word)"""
    cnt = [0]

    def stage(bits):
        s = Signal(16, name=f"{prefix}_s{cnt[0]}")
        cnt[0] += 1
        m.d.comb += s.eq(Cat(*bits))
        return [s[i] for i in range(16)]
    ks, reg = lfsr_run([ghost[i] for i in range(16)], 32, stage=stage)
    word = Signal(32, name=f"{prefix}_keystream")
    nxt = Signal(16, name=f"{prefix}_next")
    m.d.comb += [word.eq(Cat(*ks)), nxt.eq(Cat(*reg))]
    return word, nxt


class LfsrHarness(Harness):
    domains = ("ss",)

    def __init__(self, initial=0xFFFF):
        super().__init__()
        from luna.gateware.usb.usb3.physical.scrambling import ScramblerLFSR
        self.initial = initial
        self.dut = ScramblerLFSR(initial_value=initial)
        self.inp("clear", signal=self.dut.clear)
        self.inp("advance", signal=self.dut.advance)
        self.v_value = self.viol("lfsr_keystream")
        self.c_second = self.cover("lfsr_second_spec_word")
        self.c_third = self.cover("lfsr_third_spec_word")
        self.c_restart = self.cover("lfsr_restart")
        self.ghost = Signal(16, init=initial, name="ghost")
        self.ks = Signal(32, name="ks")
        self.obs("value", self.dut.value), self.obs("ghost", self.ghost)

    def elaborate(self, platform):
        m = Module()
        m.submodules.dut = d = self.dut
        word, nxt = ref_lfsr(m, "ref", self.ghost)
        advanced = Signal(2, name="advanced")
        with m.If(d.clear):
            m.d.ss += [self.ghost.eq(self.initial), advanced.eq(0)]
        with m.Elif(d.advance):
            m.d.ss += [self.ghost.eq(nxt), advanced.eq(advanced + (advanced != 3))]
        was_cleared = Signal(name="was_cleared")
        m.d.ss += was_cleared.eq(d.clear & (advanced >= 2))
        m.d.comb += [
            self.ks.eq(word),
            self.v_value.eq(d.value != word),
            self.c_second.eq((advanced == 1) & (d.value == 0x8202e7b2)),
            self.c_third.eq((advanced == 2) & (d.value == 0xa6286e72)),
            self.c_restart.eq(was_cleared & (d.value == 0x14c017ff)),
        ]
        return m


def _inv_lfsr(ts, frame, h):
    out = h.dut.value if hasattr(h.dut, "value") else h.dut.lfsr_state
    return [frame.sig(out) == frame.sig(h.ks)], ["DUT keystream word == keystream of the ghost register (=> same state)"]


class ScramblerHarness(Harness):
    domains = ("ss",)

    def __init__(self, kind="scrambler", initial=0xFFFF):
        super().__init__()
        from luna.gateware.usb.usb3.physical.scrambling import Scrambler, Descrambler
        self.initial = initial
        self.dut = d = (Scrambler if kind == "scrambler" else Descrambler)(initial_value=initial)
        self.inp("clear", signal=d.clear)
        self.inp("enable", signal=d.enable)
        self.inp("hold", signal=d.hold)
        self.inp("sink_valid", signal=d.sink.valid)
        self.inp("sink_data", signal=d.sink.data)
        self.inp("sink_ctrl", signal=d.sink.ctrl)
        self.inp("source_ready", signal=d.source.ready)
        self.v = {n: self.viol(n) for n in ("data_scrambled", "control_unchanged", "passthrough", "keystream_progress")}
        self.c = {n: self.cover(n) for n in ("mixed_word_scrambled", "advanced_3", "held_word", "com_restart",
                                             "stalled_word", "disabled_passthrough")}
        self.kf_stall = self.kf("com_word_stalled")
        self.ghost = Signal(16, init=initial, name="ghost")
        self.ks = Signal(32, name="ks")
        self.obs("ghost", self.ghost), self.obs("lfsr_state", d.lfsr_state), self.obs("source_data", d.source.data)

    def stimulus(self, rng, t, consts):
        d = super().stimulus(rng, t, consts)
        d["clear"] = int(rng.random() < 0.05)
        d["hold"] = int(rng.random() < 0.2)
        d["sink_valid"] = int(rng.random() < 0.8)
        d["source_ready"] = int(rng.random() < 0.8)
        d["enable"] = int(rng.random() < 0.8)
        if rng.random() < 0.15:
            d["sink_data"] = (d["sink_data"] & ~0xFF) | COM
            d["sink_ctrl"] |= 1
        return d

    def elaborate(self, platform):
        m = Module()
        m.submodules.dut = d = self.dut
        sink, source = d.sink, d.source
        word, nxt = ref_lfsr(m, "ref", self.ghost)
        m.d.comb += self.ks.eq(word)
        com0 = sink.valid & (sink.data[0:8] == COM) & sink.ctrl[0]
        transfer = sink.valid & source.ready
        advanced = Signal(2, name="advanced")
        # "restarts after a COM in a word's first symbol": the word counts when it is transferred (a word that is
        # merely on offer while the consumer stalls is still the same, single word of the stream)
        com_stalled = com0 & ~source.ready
        ever_com_stalled = Signal(name="ever_com_stalled")
        with m.If(com_stalled):
            m.d.ss += ever_com_stalled.eq(1)
        m.d.comb += self.kf_stall.eq(ever_com_stalled)
        with m.If(d.clear | (com0 & transfer)):
            m.d.ss += [self.ghost.eq(self.initial), advanced.eq(0)]
        with m.Elif(transfer & ~d.hold):
            m.d.ss += [self.ghost.eq(nxt), advanced.eq(advanced + (advanced != 3))]

        bad_data = Signal(4, name="bad_data")
        bad_ctrl = Signal(4, name="bad_ctrl")
        for i in range(4):
            din, dout, k = sink.data.word_select(i, 8), source.data.word_select(i, 8), word.word_select(i, 8)
            scrambled = d.enable & ~sink.ctrl[i]
            m.d.comb += [bad_data[i].eq(scrambled & (dout != (din ^ k))),
                         bad_ctrl[i].eq(~scrambled & (dout != din))]
        was_held = Signal(name="was_held")
        was_com = Signal(name="was_com")
        was_stalled = Signal(name="was_stalled")
        m.d.ss += [was_held.eq(transfer & d.hold & ~d.clear & ~com0 & (advanced >= 1)),
                   was_com.eq(com0 & transfer & ~d.clear & (advanced >= 2)),
                   was_stalled.eq(sink.valid & ~source.ready & (advanced >= 1))]
        init_ks = sum(b << i for i, b in enumerate(lfsr_run([(self.initial >> i) & 1 for i in range(16)], 32)[0]))
        m.d.comb += [
            self.v["data_scrambled"].eq(bad_data.any()),
            self.v["control_unchanged"].eq(bad_ctrl.any()),
            self.v["passthrough"].eq((source.ctrl != sink.ctrl) | (source.valid != sink.valid) | (sink.ready != source.ready)),
            # keystream position: advances exactly on transferred, un-held words; restarts after COM / clear
            self.v["keystream_progress"].eq(d.lfsr_state != word),
            self.c["mixed_word_scrambled"].eq(d.enable & (sink.ctrl == 0b0101) & sink.valid & (advanced >= 1)
                                              & (source.data != sink.data)),
            self.c["advanced_3"].eq((advanced == 3) & d.enable & sink.valid & (sink.ctrl == 0)),
            self.c["held_word"].eq(was_held & (d.lfsr_state != init_ks)),
            self.c["com_restart"].eq(was_com & (d.lfsr_state == init_ks)),
            self.c["stalled_word"].eq(was_stalled & (d.lfsr_state != init_ks)),
            self.c["disabled_passthrough"].eq(~d.enable & sink.valid & (sink.ctrl == 0) & (advanced >= 1)
                                              & (source.data == sink.data)),
        ]
        return m


class RoundTripHarness(Harness):
    domains = ("ss",)

    def __init__(self, initial=0xFFFF):
        super().__init__()
        from luna.gateware.usb.usb3.physical.scrambling import Scrambler, Descrambler
        self.scr = s = Scrambler(initial_value=initial)
        self.des = d = Descrambler(initial_value=initial)
        self.enable = self.inp("enable", 1)
        self.inp("hold", signal=s.hold)
        self.inp("sink_valid", signal=s.sink.valid)
        self.inp("sink_data", signal=s.sink.data)
        self.inp("sink_ctrl", signal=s.sink.ctrl)
        self.inp("ready", signal=s.source.ready)
        self.v_rt = self.viol("round_trip")
        self.c_rt = self.cover("round_trip_scrambled_word")
        self.c_after_com = self.cover("round_trip_after_com")
        self.c_after_hold = self.cover("round_trip_after_hold")
        self.a_idle_hold = self.assume("held_slot_is_not_com")
        self.a_stable = self.assume("sink_stable_while_stalled")
        self.kf_stall = self.kf("com_word_stalled")
        self.restrictions.append("clear of both units tied 0; descrambler hold tied 0")

    def stimulus(self, rng, t, consts):
        d = super().stimulus(rng, t, consts)
        d["hold"] = int(rng.random() < 0.2)
        if rng.random() < 0.15:
            d["sink_data"] = (d["sink_data"] & ~0xFF) | COM
            d["sink_ctrl"] |= 1
        return d

    def elaborate(self, platform):
        m = Module()
        m.submodules.scr = s = self.scr
        m.submodules.des = d = self.des
        m.d.comb += [
            s.enable.eq(self.enable), d.enable.eq(self.enable), s.clear.eq(0), d.clear.eq(0), d.hold.eq(0),
            d.sink.data.eq(s.source.data), d.sink.ctrl.eq(s.source.ctrl),
            # the far side sees every transferred word exactly once (no stalls on the receive path); words sent while
            # held (SKP slot) never reach it
            d.sink.valid.eq(s.source.valid & s.source.ready & ~s.hold),
            d.source.ready.eq(1),
        ]
        delivered = d.source.valid & d.source.ready
        words = Signal(2, name="words")
        seen_com = Signal(name="seen_com")
        seen_hold = Signal(name="seen_hold")
        com0 = s.sink.valid & (s.sink.data[0:8] == COM) & s.sink.ctrl[0]
        with m.If(delivered):
            m.d.ss += words.eq(words + (words != 3))
            with m.If(com0 & (words >= 2)):
                m.d.ss += seen_com.eq(1)
        with m.If(s.sink.valid & s.hold & s.source.ready & (words >= 1)):
            m.d.ss += seen_hold.eq(1)
        differs = s.source.data != s.sink.data
        m.d.comb += self.a_idle_hold.eq(~(s.hold & com0))
        # stream contract of the producer: a word that was offered and not accepted stays on offer unchanged
        stalled = Signal(name="env_stalled")
        last_data = Signal(32, name="env_last_data")
        last_ctrl = Signal(4, name="env_last_ctrl")
        m.d.ss += [stalled.eq(s.sink.valid & ~s.sink.ready), last_data.eq(s.sink.data), last_ctrl.eq(s.sink.ctrl)]
        ever_com_stalled = Signal(name="ever_com_stalled")
        with m.If(com0 & ~s.source.ready):
            m.d.ss += ever_com_stalled.eq(1)
        m.d.comb += self.kf_stall.eq(ever_com_stalled)
        m.d.comb += self.a_stable.eq(~stalled | (s.sink.valid & (s.sink.data == last_data) & (s.sink.ctrl == last_ctrl)))
        m.d.comb += [
            self.v_rt.eq(d.source.valid & ((d.source.data != s.sink.data) | (d.source.ctrl != s.sink.ctrl))),
            self.c_rt.eq(delivered & (words >= 2) & differs & self.enable),
            self.c_after_com.eq(delivered & seen_com & differs & self.enable & ~com0),
            self.c_after_hold.eq(delivered & seen_hold & differs & self.enable),
        ]
        return m


def queries(tier):
    validate_reference()
    thorough = tier != "quick"
    K = 12 if thorough else 8
    cyc = 2000 if thorough else 100
    qs = [
        Query("bmc_lfsr", LfsrHarness, K, split=False, timeout=600,
              desc="ScramblerLFSR: value == 4 keystream bytes of the serial LFSR, clear/advance free every cycle"),
        Query("ind_lfsr", LfsrHarness, 1, kind="ind", invariants=_inv_lfsr, timeout=600,
              desc="ScramblerLFSR: induction step from an arbitrary register value (all 2^16 states): next_value == 32 "
                   "serial shifts, value == 4 keystream bytes"),
        Query("cosim_lfsr", LfsrHarness, 0, kind="cosim", cosim_cycles=cyc),
    ]
    cfgs = [("scrambler_ffff", "scrambler", 0xFFFF), ("descrambler_ffff", "descrambler", 0xFFFF)]
    if thorough:
        cfgs.append(("scrambler_7dbd", "scrambler", 0x7DBD))      # the Scrambler class default (the layer passes 0xFFFF)
    for tag, kind, init in cfgs:
        f = (lambda kind=kind, init=init: ScramblerHarness(kind, init))
        qs.append(Query(f"bmc_{tag}", f, K, timeout=600, split=False,
                        desc=f"{tag}: clear/enable/hold/valid/ready/data/ctrl free every cycle"))
        qs.append(Query(f"ind_{tag}", f, 1, kind="ind", invariants=_inv_lfsr, timeout=600,
                        desc=f"{tag}: induction step from an arbitrary LFSR state (ghost = LFSR); paired with bmc_{tag} "
                             "and bmc_lfsr, which are what fails the check if the code breaks"))
        qs.append(Query(f"cosim_{tag}", f, 0, kind="cosim", cosim_cycles=cyc))
    for init in (0xFFFF,) + ((0x7DBD,) if thorough else ()):
        f = (lambda init=init: RoundTripHarness(init))
        qs.append(Query(f"bmc_roundtrip_{init:04x}", f, K, timeout=600, split=False,
                        desc="Scrambler -> Descrambler with the same initial value: the delivered word equals the offered "
                             "word; enable/hold/valid/ready/data/ctrl free every cycle"))
        qs.append(Query(f"cosim_roundtrip_{init:04x}", f, 0, kind="cosim", cosim_cycles=cyc))
    return qs
