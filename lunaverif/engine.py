"""Query engine: BMC / COVER / IND over the z3 transition system, pysim replay,
co-simulation (translation validation), process pool with hard budgets.

Result statuses of a sub-check:
  holds          assertion unsat within the bound
  violation      sat, replayed on pysim and reproduced (reset-rooted)
  known_finding  sat only inside a scenario listed in known_findings.json, replayed
  covered        cover sat and replayed
  vacuous        cover unsat (the harness cannot reach the event)
  unknown        solver unknown / timeout
  mismatch       model did not reproduce on pysim (encoding or harness error)
  ind_open       induction step not closed (never reported as a violation)
  error          exception
"""
import json
import os
import random
import time
import traceback
import multiprocessing as mp

import z3

from .nir2smt import TS, bv

VERIF = os.path.dirname(os.path.dirname(os.path.abspath(__file__)))


class Query:
    def __init__(self, name, factory, K, kind="bmc", asserts=None, covers=None, layer=None,
                 hints=None, timeout=300, required=True, desc="", invariants=None, k_ind=1,
                 cosim_cycles=0, outside="", mem_symbolic=None, tactic=None, split=True):
        self.split = split
        self.name = name
        self.factory = factory          # () -> Harness
        self.K = K
        self.kind = kind                # bmc | ind | cosim
        self.asserts = asserts          # list of names or None = all
        self.covers = covers            # list of names or None = all ([] = none)
        self.layer = layer or {}        # input name -> int | callable(t) -> int | None
        self.hints = hints or {}        # cover name -> layer-like dict (extra constraints for the witness search)
        self.timeout = timeout
        self.required = required
        self.desc = desc
        self.invariants = invariants    # for IND: callable(ts, frame) -> list of z3 bools  (named signal lookups)
        self.k_ind = k_ind
        self.cosim_cycles = cosim_cycles
        self.outside = outside
        self.mem_symbolic = mem_symbolic  # list of memory names whose ROM words become const symbolic
        self.tactic = tactic


# ---------------------------------------------------------------- helpers

def _ports(h):
    return [sig for sig, _ in h._inputs.values()]


def _input_vars(ts, h, t, consts, layer):
    """z3 input valuation for step t"""
    ins = {}
    byname = {}
    pmap = getattr(ts, "_pmap", None)
    if pmap is None:
        pmap = ts._pmap = {id(sig): pn for pn, sig in ts.port_names([sg for sg, _ in h._inputs.values()]).items()}
    for name, (sig, const) in h._inputs.items():
        byname[pmap.get(id(sig), sig.name)] = (name, sig, const)
    for pname, (start, width) in ts.inputs.items():
        if pname in byname:
            name, sig, const = byname[pname]
            fixed = layer.get(name)
            if callable(fixed):
                fixed = fixed(t)
            if fixed is not None:
                ins[pname] = bv(fixed, width)
            elif const:
                ins[pname] = consts.setdefault(name, z3.BitVec(f"{name}", width))
            else:
                ins[pname] = z3.BitVec(f"{name}@{t}", width)
        elif pname.endswith("_clk") or pname.endswith("_rst") or pname in ("clk", "rst"):
            ins[pname] = bv(0, 1)
        else:
            raise KeyError(f"top-level input {pname} is not a registered harness input")
    return ins


def _resolve_sym_regs(ts, h):
    out = []
    for sig, cname in getattr(h, "_sym_regs", None) or []:
        if isinstance(sig, str):
            found = ts.signal_by_name(sig)
            if found is None:
                raise RuntimeError(f"sym_reg: no unique signal named {sig}")
            sig = found
        out.append((sig, cname))
    return out


def _sym_reg_init(ts, h, state, value_of):
    """harness-declared symbolic reset values (Harness.sym_reg): the flop bits that carry `signal` start at the value of the
    const harness input instead of their reset value.  value_of(name, width) -> z3 bit-vector."""
    regs = _resolve_sym_regs(ts, h)
    if not regs:
        return state
    state = dict(state)
    flops = set(ts.flops)
    for sig, cname in regs:
        val = ts.netlist.signals[sig]
        v = value_of(cname, len(sig))
        percell = {}
        for b, net in enumerate(val):
            if net.is_const or net.cell not in flops:
                raise RuntimeError(f"sym_reg {sig.name}: bit {b} is not a flip-flop output")
            percell.setdefault(net.cell, {})[net.bit] = z3.Extract(b, b, v)
        for cell, bits in percell.items():
            w = state[cell].size()
            parts = [bits.get(k, z3.Extract(k, k, state[cell])) for k in range(w)]
            state[cell] = z3.simplify(z3.Concat(*reversed(parts))) if w > 1 else z3.simplify(parts[0])
    return state


def _check_ports(ts, h):
    names = {sig.name for sig, _ in h._inputs.values()}
    missing = names - set(ts.inputs)
    # an input the design never reads is dropped from the netlist; harmless
    return missing


def _solver(timeout, tactic=None):
    """tactic None: z3's QF_BV solver.  "ctx": contextual simplification before bit-blasting -- decides in seconds the
    device-level queries in which a packet with a corrupted CRC precedes the transaction under test (the default
    pipeline does not finish those in 900 s), and is slower on most other queries."""
    if tactic == "ctx":
        s = z3.Then('simplify', 'propagate-values', 'ctx-simplify', 'solve-eqs', 'simplify', 'bit-blast', 'sat').solver()
    else:
        s = z3.SolverFor("QF_BV")
    s.set("timeout", int(timeout * 1000))
    return s


def _check(formula, timeout, tactic=None):
    """returns (result string, solver); tactic "portfolio": default pipeline briefly, then "ctx", then default again"""
    plan = [(None, timeout)]
    if tactic == "ctx":
        plan = [("ctx", timeout)]
    elif tactic in ("portfolio", "ctx-first"):
        # most queries are decided by the default pipeline in well under 60 s; the ones it cannot do are usually quick
        # for the contextual simplifier, and vice versa
        plan = [(None, min(60, timeout)), ("ctx", timeout / 2), (None, timeout / 2)]
    for tac, tmo in plan:
        s = _solver(tmo, tac)
        s.add(formula)
        out = str(s.check())
        if out != "unknown":
            break
    return out, s


def _model_inputs(model, h, K, consts, layer):
    steps = []
    cvals = {}
    for name, (sig, const) in h._inputs.items():
        if const and name in consts:
            cvals[name] = model.eval(consts[name], model_completion=True).as_long()
    for t in range(K):
        d = {}
        for name, (sig, const) in h._inputs.items():
            fixed = layer.get(name)
            if callable(fixed):
                fixed = fixed(t)
            if fixed is not None:
                d[name] = int(fixed)
            elif const:
                d[name] = cvals.get(name, 0)
            else:
                d[name] = model.eval(z3.BitVec(f"{name}@{t}", len(sig)), model_completion=True).as_long()
        steps.append(d)
    return steps


def schedule_of(h):
    """cyclic list of tuples of ticking domains per step: explicit `schedule`, or derived from `clocks`
    ({domain: (period_in_steps, phase_step)}: the domain ticks at steps t with t % period == phase)"""
    if getattr(h, "clocks", None):
        import math
        L = 1
        for per, ph in h.clocks.values():
            L = L * per // math.gcd(L, per)
        return [tuple(d for d, (per, ph) in h.clocks.items() if t % per == ph) for t in range(L)]
    return h.schedule


def _setup_clocks(sim, h, T=1e-6):
    """single-rate harnesses: every domain gets the same clock.  Multi-rate (`clocks`): aligned clocks; the test bench
    then steps by time (one step = T), sampling between edges, so coincident edges of related clocks are seen as one."""
    if getattr(h, "clocks", None):
        for d, (per, ph) in h.clocks.items():
            sim.add_clock(per * T, phase=(ph + 0.5) * T, domain=d)
        return True
    for d in h.domains:
        try:
            sim.add_clock(T, domain=d)
        except NameError:
            pass        # purely combinational harness: the declared domain has no flops
    return False


def simulate(factory, steps, mem_values=None, watch_all=False):
    """Run per-step inputs on Amaranth's simulator; returns list of dicts of observed values."""
    from amaranth.sim import Simulator
    h = factory()
    if mem_values:
        h._mem_values = mem_values
        h.apply_mem_values(mem_values)
    symregs = []
    if getattr(h, "_sym_regs", None):
        from amaranth.sim.pysim import PySimEngine
        ts = TS(h, _ports(h))
        symregs = _resolve_sym_regs(ts, h)
        sim = Simulator.__new__(Simulator)
        sim._design = ts.design
        sim._engine = PySimEngine(ts.design)
        sim._clocked = set()
        sim._running = False
    else:
        sim = Simulator(h)
    timed = _setup_clocks(sim, h)
    watched = {}
    for tab, pre in ((h._viols, "viol_"), (h._covers, "cover_"), (h._assumes, "assume_"), (h._kfs, "kf_")):
        for n, s in tab.items():
            watched[pre + n] = s
    for n, s in h._obs.items():
        watched["obs_" + n] = s
    trace = []

    async def tb(ctx):
        for t, d in enumerate(steps):
            for name, val in d.items():
                ctx.set(h._inputs[name][0], val)
            if t == 0:
                for sig, cname in symregs:
                    ctx.set(sig, d[cname])
            trace.append({n: ctx.get(s) for n, s in watched.items()})
            if timed:
                await ctx.delay(1e-6)
            else:
                await ctx.tick(h.domain)

    sim.add_testbench(tb)
    sim.run()
    return trace


def _mem_override(ts, q, consts):
    if not q.mem_symbolic:
        return None
    ov = {}
    for i in ts.mems:
        c = ts.cells[i]
        if c.name in q.mem_symbolic or q.mem_symbolic == "all":
            ov[c.name] = [consts.setdefault(f"$mem.{c.name}.{a}", z3.BitVec(f"$mem.{c.name}.{a}", c.width))
                          for a in range(c.depth)]
    return ov


class Unrolling:
    def __init__(self, q, h=None, free_init=False):
        self.q = q
        self.h = h = h or q.factory()
        t0 = time.time()
        self.ts = ts = TS(h, _ports(h))
        extra = set(ts.domains) - set(h.domains)
        if extra:
            raise RuntimeError(f"design has clock domains {ts.domains}, harness declares {h.domains}")
        self.consts = {}
        self.frames = []
        self.ok = []        # cumulative assumptions up to and including step t
        if free_init:
            state = ts.free_state("s0_")
        else:
            state = ts.init_state(_mem_override(ts, q, self.consts))
            _input_vars(ts, h, 0, self.consts, q.layer)
            state = _sym_reg_init(ts, h, state, lambda n, w: bv(q.layer[n], w) if q.layer.get(n) is not None
                                  else self.consts.setdefault(n, z3.BitVec(n, w)))
        self.state0 = state
        okc = z3.BoolVal(True)
        sched = schedule_of(h)
        for t in range(q.K):
            ins = _input_vars(ts, h, t, self.consts, q.layer)
            f = ts.frame(state, ins)
            self.frames.append(f)
            a = [f.sig(s) == 1 for s in h._assumes.values() if s in ts.netlist.signals]
            okc = z3.And(okc, *a) if a else okc
            self.ok.append(okc)
            doms = None if sched is None else set(sched[t % len(sched)])
            state = f.next_state(doms)
        self.final_state = state
        self.unroll_s = time.time() - t0

    def sig(self, t, s):
        if s not in self.ts.netlist.signals:
            return bv(s.init, len(s))      # registered but never driven: constant at its reset value
        return self.frames[t].sig(s)


class Template:
    """one symbolic frame per distinct set of ticking clock domains, instantiated with z3.substitute"""

    def __init__(self, ts, watched, schedule):
        self.ts = ts
        tstate = ts.free_state("T$")
        tins = {pname: z3.BitVec(f"TI${pname}", width) for pname, (start, width) in ts.inputs.items()}
        self.skeys = []            # (cell, None) for flops/rports, (cell, addr) for memory words
        tvars = []
        for i in ts.flops + ts.srports:
            self.skeys.append((i, None))
            tvars.append(tstate[i])
        for i in ts.mems:
            if ts.wports.get(i):
                for a in range(ts.cells[i].depth):
                    self.skeys.append((i, a))
                    tvars.append(tstate[i][a])
        self.tvars = tvars
        self.tin_names = list(tins)
        self.tin_vars = [tins[n] for n in self.tin_names]
        self.domsets = [None] if schedule is None else [frozenset(d) for d in schedule]
        self.templates = {}
        for ds in set(self.domsets):
            f = ts.frame(tstate, tins)
            ns = f.next_state(None if ds is None else set(ds))
            outs = [f.sig(s) for s in watched]
            nxt = [ns[i] if a is None else ns[i][a] for (i, a) in self.skeys]
            allx = outs + nxt
            F = z3.Function(f"T$tuple{len(self.templates)}", *[x.sort() for x in allx], z3.BoolSort())
            self.templates[ds] = (F(*allx), len(outs))

    def init_values(self, init):
        return [init[i] if a is None else init[i][a] for (i, a) in self.skeys]

    def step(self, t, cur, ins, simplify=False):
        """returns (watched outputs at step t, next state values)"""
        ds = self.domsets[t % len(self.domsets)]
        tup, nout = self.templates[ds]
        pairs = list(zip(self.tvars, cur)) + [(v, ins[n]) for n, v in zip(self.tin_names, self.tin_vars)]
        inst = z3.substitute(tup, *pairs)
        if simplify:
            inst = z3.simplify(inst)
        kids = inst.children()
        return kids[:nout], kids[nout:]


class FastUnrolling:
    """BMC unrolling by template instantiation: the transition relation is translated ONCE into z3 terms over
    template state/input variables (one template per distinct set of ticking domains) and instantiated per step
    with z3.substitute (C speed).  Semantically identical to `Unrolling`; only registered harness signals
    (viol/cover/assume/kf/obs) are observable."""

    def __init__(self, q, h=None):
        self.q = q
        self.h = h = h or q.factory()
        t0 = time.time()
        self.ts = ts = TS(h, _ports(h))
        extra = set(ts.domains) - set(h.domains)
        if extra:
            raise RuntimeError(f"design has clock domains {ts.domains}, harness declares {h.domains}")
        self.consts = {}
        self.watched = []
        for tab in (h._viols, h._covers, h._assumes, h._kfs, h._obs):
            for s in tab.values():
                if s in ts.netlist.signals and len(s) > 0:
                    self.watched.append(s)
        self._widx = {id(s): k for k, s in enumerate(self.watched)}
        self._tm = tm = Template(ts, self.watched, schedule_of(h))
        self._skeys = tm.skeys
        domsets = tm.domsets
        # ---- instantiate
        init = ts.init_state(_mem_override(ts, q, self.consts))
        _input_vars(ts, h, 0, self.consts, q.layer)
        init = _sym_reg_init(ts, h, init, lambda n, w: bv(q.layer[n], w) if q.layer.get(n) is not None
                             else self.consts.setdefault(n, z3.BitVec(n, w)))
        cur = tm.init_values(init)
        self.outs = []
        self.ok = []
        okc = z3.BoolVal(True)
        aidx = [self._widx[id(s)] for s in h._assumes.values() if id(s) in self._widx]
        for t in range(q.K):
            ins = _input_vars(ts, h, t, self.consts, q.layer)
            outs, cur = tm.step(t, cur, ins)
            kids = outs
            self.outs.append(outs)
            a = [kids[k] == 1 for k in aidx]
            okc = z3.And(okc, *a) if a else okc
            self.ok.append(okc)
        self.unroll_s = time.time() - t0

    def sig(self, t, s):
        k = self._widx.get(id(s))
        if k is None:
            return bv(s.init, len(s))      # registered but never driven: constant at its reset value
        return self.outs[t][k]


def _kf_for(findings, prop, assertion):
    return [f for f in findings if f.get("property") == prop and f.get("assertion") == assertion
            and f.get("status", "open") == "open"]


def _replay_check(q, steps, name_key, t_hit, mem_values=None):
    """replay on pysim; True if signal name_key is 1 at t_hit and assumptions hold up to t_hit"""
    trace = simulate(q.factory, steps[:t_hit + 1], mem_values)
    row = trace[t_hit]
    assumes_ok = all(all(v == 1 for n, v in r.items() if n.startswith("assume_")) for r in trace)
    return bool(row.get(name_key)) and assumes_ok, trace


def _first_hit(model, terms):
    for t, term in enumerate(terms):
        if z3.is_true(model.eval(term, model_completion=True)):
            return t
    return None


def _mem_values_from_model(model, consts):
    out = {}
    for k, v in consts.items():
        if k.startswith("$mem."):
            _, name, a = k.split(".", 2) if k.count(".") == 2 else (None, k[5:k.rindex(".")], k[k.rindex(".") + 1:])
            out.setdefault(name, {})[int(a)] = model.eval(v, model_completion=True).as_long()
    return out


def run_bmc(q, prop, findings):
    """returns list of sub-results"""
    res = []
    U = FastUnrolling(q) if os.environ.get("VERIF_SLOW_UNROLL") != "1" else Unrolling(q)
    h, ts = U.h, U.ts
    base = dict(query=q.name, kind="bmc", K=q.K, design=ts.describe(), unroll_s=round(U.unroll_s, 2),
                layer={k: ("fn" if callable(v) else v) for k, v in q.layer.items()})
    asserts = list(h._viols) if q.asserts is None else q.asserts
    covers = list(h._covers) if q.covers is None else q.covers
    if getattr(q, "alive", True) and h._assumes and asserts:
        # reachability witness of the environment itself: the assumptions can be met through the whole depth (otherwise
        # every assertion beyond the dead step would pass vacuously)
        r = dict(base, check="alive")
        t0 = time.time()
        # existence only: first try with every free constant input at 0 (usually immediate), then in general
        s = _solver(min(q.timeout, 60))
        s.add(U.ok[q.K - 1])
        for name, var in U.consts.items():
            if not name.startswith("$"):
                s.add(var == 0)
        out = str(s.check())
        if out != "sat":
            s = _solver(min(q.timeout, 300))
            s.add(U.ok[q.K - 1])
            out = str(s.check())
        r["solver_s"] = round(time.time() - t0, 2)
        r["result"] = out
        r["status"] = {"sat": "covered", "unsat": "vacuous"}.get(out, "unknown")
        if out == "unknown":
            r["required"] = False
        res.append(r)
    for a in asserts:
        sig = h._viols[a]
        kfs = _kf_for(findings, prop, a)
        kf_sigs = [h._kfs[f["scenario"]] for f in kfs if f["scenario"] in h._kfs]
        terms_other, terms_kf = [], []
        for t in range(q.K):
            v = U.sig(t, sig) == 1
            if kf_sigs:
                inkf = z3.Or(*[U.sig(t, k) == 1 for k in kf_sigs])
                terms_other.append(z3.And(U.ok[t], v, z3.Not(inkf)))
                terms_kf.append(z3.And(U.ok[t], v, inkf))
            else:
                terms_other.append(z3.And(U.ok[t], v))
        r = dict(base, check=f"assert:{a}")
        t0 = time.time()
        if os.environ.get("VERIF_DUMP_SMT"):
            # cross-check support (tools/crosscheck.py): the very formula handed to z3, as SMT-LIB 2
            ds = z3.Solver()
            ds.add(z3.Or(*terms_other))
            os.makedirs(os.environ["VERIF_DUMP_SMT"], exist_ok=True)
            with open(os.path.join(os.environ["VERIF_DUMP_SMT"], f"{prop}_{q.name}_{a}.smt2"), "w") as fdump:
                fdump.write("(set-logic QF_BV)\n" + ds.sexpr() + "(check-sat)\n")
        out, s = _check(z3.Or(*terms_other), q.timeout, q.tactic)
        r["solver_s"] = round(time.time() - t0, 2)
        r["result"] = out
        if out == "unsat":
            r["status"] = "holds"
        elif out == "sat":
            m = s.model()
            steps = _model_inputs(m, h, q.K, U.consts, q.layer)
            th = _first_hit(m, terms_other)
            memv = _mem_values_from_model(m, U.consts)
            ok, trace = _replay_check(q, steps, "viol_" + a, th, memv)
            r.update(status="violation" if ok else "mismatch", step=th, inputs=steps[:th + 1], mem=memv,
                     observed=trace[th] if trace else None)
        else:
            r["status"] = "unknown"
            r["reason"] = s.reason_unknown()
        res.append(r)
        if kf_sigs:
            r2 = dict(base, check=f"known-finding:{a}")
            s = _solver(q.timeout)
            s.add(z3.Or(*terms_kf))
            t0 = time.time()
            out = str(s.check())
            r2["solver_s"] = round(time.time() - t0, 2)
            r2["result"] = out
            if out == "sat":
                m = s.model()
                steps = _model_inputs(m, h, q.K, U.consts, q.layer)
                th = _first_hit(m, terms_kf)
                memv = _mem_values_from_model(m, U.consts)
                ok, trace = _replay_check(q, steps, "viol_" + a, th, memv)
                r2.update(status="known_finding" if ok else "mismatch", step=th, inputs=steps[:th + 1],
                          findings=[f["what"] for f in kfs], mem=memv)
            elif out == "unsat":
                r2["status"] = "holds"
                r2["note"] = "recorded finding no longer reproduces within this bound"
            else:
                r2["status"] = "unknown"
            res.append(r2)
    for c in covers:
        sig = h._covers[c]
        terms = [z3.And(U.ok[t], U.sig(t, sig) == 1) for t in range(q.K)]
        r = dict(base, check=f"cover:{c}")
        s = _solver(q.timeout)
        s.add(z3.Or(*terms))
        hint = q.hints.get(c) or q.hints.get("*")
        if hint:
            for name, val in hint.items():
                if name not in h._inputs:
                    continue
                sg, const = h._inputs[name]
                if const:
                    if name in U.consts:
                        s.add(U.consts[name] == val)
                else:
                    for t in range(q.K):
                        v = val(t) if callable(val) else val
                        if v is not None:
                            s.add(z3.BitVec(f"{name}@{t}", len(sg)) == v)
        t0 = time.time()
        out = str(s.check())
        r["solver_s"] = round(time.time() - t0, 2)
        r["result"] = out
        if out == "sat":
            m = s.model()
            steps = _model_inputs(m, h, q.K, U.consts, q.layer)
            th = _first_hit(m, terms)
            memv = _mem_values_from_model(m, U.consts)
            ok, trace = _replay_check(q, steps, "cover_" + c, th, memv)
            r.update(status="covered" if ok else "mismatch", step=th,
                     witness=_compress(steps[:th + 1]))
        elif out == "unsat":
            r["status"] = "vacuous"
        else:
            r["status"] = "unknown"
        res.append(r)
    return res


def _compress(steps, limit=40):
    """short printable form of a trace"""
    if len(steps) <= limit:
        return steps
    return steps[:limit // 2] + [{"...": len(steps) - limit}] + steps[-limit // 2:]


def run_ind(q, prop, findings):
    """k-induction step from an arbitrary state satisfying the invariants.
    invariants(ts, frame) -> (list of z3 Bool, list of names used)   -- strengthening only.
    Base case is a BMC query the caller registers separately."""
    U = Unrolling(q, free_init=True)
    h, ts = U.h, U.ts
    k = q.K
    base = dict(query=q.name, kind="ind", K=k, design=ts.describe(), unroll_s=round(U.unroll_s, 2))
    res = []
    inv = []
    inv_names = []
    if q.invariants:
        for t in range(k):
            c, names = q.invariants(ts, U.frames[t], h)
            if c is None:
                return [dict(base, check="ind", status="ind_open", note=f"invariant signals missing: {names}")]
            inv.extend(c)
            inv_names = names
        cf, _ = q.invariants(ts, ts.frame(U.final_state, _input_vars(ts, h, k, U.consts, q.layer)), h)
    else:
        cf = []
    asserts = list(h._viols) if q.asserts is None else q.asserts
    # all assertions hold in steps 0..k-2 (hypothesis), check step k-1 and the invariant afterwards
    hyp = []
    for t in range(k - 1):
        for a in asserts:
            hyp.append(U.sig(t, h._viols[a]) == 0)
    goal_terms = [U.sig(k - 1, h._viols[a]) == 1 for a in asserts]
    goal_terms += [z3.Not(c) for c in cf]
    s = _solver(q.timeout)
    s.add(U.ok[k - 1], *inv, *hyp)
    s.add(z3.Or(*goal_terms))
    t0 = time.time()
    out = str(s.check())
    r = dict(base, check="ind:" + ",".join(asserts), result=out, solver_s=round(time.time() - t0, 2),
             invariants=inv_names)
    if out == "unsat":
        r["status"] = "holds"
    elif out == "sat":
        r["status"] = "ind_open"
        m = s.model()
        failing = [a for a in asserts if z3.is_true(m.eval(U.sig(k - 1, h._viols[a]) == 1, model_completion=True))]
        r["note"] = f"step counterexample from a possibly unreachable state; failing={failing or 'invariant'}"
    else:
        r["status"] = "unknown"
    res.append(r)
    return res


def run_cosim(q, prop, findings):
    """random co-simulation: pysim vs concrete evaluation of the translation, every watched signal, every cycle"""
    from amaranth.sim import Simulator
    seed = int(os.environ.get("VERIF_SEED", "0") or 0)
    rng = random.Random(seed * 7919 + hash(q.name) % 1000)
    h = q.factory()
    ts = TS(h, _ports(h))
    consts = h.const_stimulus(rng)
    N = q.cosim_cycles or q.K
    steps = []
    for t in range(N):
        d = h.stimulus(rng, t, consts)
        for name, v in q.layer.items():
            fv = v(t) if callable(v) else v
            if fv is not None:
                d[name] = fv
        steps.append(d)
    # watched: registered signals + every register-backed signal of the netlist
    flopset = set(ts.flops)
    regs = []
    for sig, val in ts.netlist.signals.items():
        if len(val) and all((not n.is_const) and n.cell in flopset for n in val):
            regs.append(sig)
    regs = regs[:400]
    # one elaboration shared by the translation and by pysim, so that signals created inside
    # elaborate() are the same objects on both sides
    from amaranth.sim.pysim import PySimEngine
    sim = Simulator.__new__(Simulator)
    sim._design = ts.design
    sim._engine = PySimEngine(ts.design)
    sim._clocked = set()
    sim._running = False
    timed = _setup_clocks(sim, h)
    watched = list(h._viols.values()) + list(h._covers.values()) + list(h._assumes.values()) + \
        list(h._kfs.values()) + list(h._obs.values()) + regs
    watched = [s for s in watched if s in ts.netlist.signals]
    simtrace = []

    async def tb(ctx):
        for t, d in enumerate(steps):
            for name, val in d.items():
                ctx.set(h._inputs[name][0], val)
            if t == 0:
                for sig, cname in _resolve_sym_regs(ts, h):
                    ctx.set(sig, d[cname])
            simtrace.append([ctx.get(s) for s in watched])
            if timed:
                await ctx.delay(1e-6)
            else:
                await ctx.tick(h.domain)

    sim.add_testbench(tb)
    t0 = time.time()
    sim.run()
    tm = Template(ts, watched, schedule_of(h))
    cur = tm.init_values(_sym_reg_init(ts, h, ts.init_state(), lambda n, w: bv(steps[0][n], w)))
    mism = []
    events = 0
    pmap = {id(sig): pn for pn, sig in ts.port_names([sg for sg, _ in h._inputs.values()]).items()}
    byname = {pmap.get(id(sig), sig.name): name for name, (sig, _) in h._inputs.items()}
    for t in range(N):
        ins = {}
        for pname, (start, width) in ts.inputs.items():
            if pname in byname:
                ins[pname] = bv(steps[t][byname[pname]], width)
            else:
                ins[pname] = bv(0, 1)
        outs, cur = tm.step(t, cur, ins, simplify=True)
        for k, s in enumerate(watched):
            v = outs[k].as_long()
            sv = simtrace[t][k]
            if sv < 0:
                sv += 1 << len(s)
            if v != sv:
                mism.append((t, s.name, v, sv))
        if len(mism) > 5:
            break
    ncov = len(h._covers)
    widx = {id(s): k for k, s in enumerate(watched)}
    for s in h._covers.values():
        if id(s) in widx and any(row[widx[id(s)]] for row in simtrace):
            events += 1
    r = dict(query=q.name, kind="cosim", check="cosim", cycles=N, signals=len(watched), design=ts.describe(),
             solver_s=round(time.time() - t0, 2), covers_hit=events, covers_total=ncov)
    if mism:
        r.update(status="mismatch", mismatches=[list(map(str, m)) for m in mism[:6]])
    else:
        r.update(status="cosim_ok")
    return [r]


def run_query(q, prop, findings):
    t0 = time.time()
    try:
        if q.kind == "bmc":
            out = run_bmc(q, prop, findings)
        elif q.kind == "ind":
            out = run_ind(q, prop, findings)
        elif q.kind == "cosim":
            out = run_cosim(q, prop, findings)
        else:
            raise ValueError(q.kind)
    except Exception as e:
        if "out of memory" in str(e):
            # z3 hit the per-worker memory cap (VERIF_MEM_MB): the query is undecided, not broken
            out = [dict(query=q.name, kind=q.kind, check="*", K=q.K, status="unknown",
                        reason=f"z3 memory limit ({os.environ.get('VERIF_MEM_MB', '9000')} MB) reached")]
        else:
            out = [dict(query=q.name, kind=q.kind, check="*", status="error", error=f"{type(e).__name__}: {e}",
                        trace=traceback.format_exc()[-1500:])]
    for r in out:
        r["required"] = bool(q.required and r.get("required", True))
        r["wall_s"] = round(time.time() - t0, 2)
        r["desc"] = q.desc
        if q.outside:
            r["outside"] = q.outside
    return out


# ---------------------------------------------------------------- process pool

def split_queries(queries):
    """one process per assertion (and one for all cover twins) of every BMC query with split=True"""
    import copy
    out = []
    for q in queries:
        if q.kind != "bmc" or not getattr(q, "split", True):
            out.append(q)
            continue
        h = q.factory()
        asserts = list(h._viols) if q.asserts is None else list(q.asserts)
        covers = list(h._covers) if q.covers is None else list(q.covers)
        if len(asserts) + (1 if covers else 0) <= 1:
            out.append(q)
            continue
        for k, a in enumerate(asserts):
            qa = copy.copy(q)
            qa.asserts, qa.covers = [a], []
            qa.alive = (k == 0)
            out.append(qa)
        if covers:
            qc = copy.copy(q)
            qc.asserts, qc.covers = [], covers
            qc.alive = not asserts
            out.append(qc)
    return out


def _worker(q, prop, findings, conn):
    import threading
    # keep one runaway query from taking the machine down: z3 gives up ("unknown") beyond this much memory
    z3.set_param("memory_max_size", int(os.environ.get("VERIF_MEM_MB", "9000")))
    threading.stack_size(512 * 1024 * 1024)
    box = {}

    def go():
        box["r"] = run_query(q, prop, findings)

    th = threading.Thread(target=go)
    th.start()
    th.join()
    try:
        conn.send(box.get("r") or [dict(query=q.name, kind=q.kind, check="*", status="error", error="no result",
                                          required=q.required)])
    finally:
        conn.close()


def run_all(queries, prop, findings, jobs=None, on_result=None):
    jobs = jobs or int(os.environ.get("VERIF_JOBS", "16"))
    ctx = mp.get_context("fork")
    pending = list(queries)
    running = []
    results = []
    while pending or running:
        while pending and len(running) < jobs:
            q = pending.pop(0)
            pc, cc = ctx.Pipe(duplex=False)
            p = ctx.Process(target=_worker, args=(q, prop, findings, cc))
            p.start()
            cc.close()
            running.append((q, p, pc, time.time()))
        time.sleep(0.05)
        still = []
        for q, p, pc, t0 in running:
            if pc.poll():
                try:
                    got = pc.recv()
                    results.extend(got)
                    if on_result:
                        for g in got:
                            on_result(g)
                except EOFError:
                    # the solver process died without an answer (in practice: memory): undecided, not broken
                    if not getattr(q, "_retried", False):
                        q._retried = True
                        pending.append(q)
                    else:
                        results.append(dict(query=q.name, kind=q.kind, check="*", K=q.K, status="unknown",
                                            reason="solver process died twice without an answer (memory)",
                                            required=q.required))
                p.join()
            elif not p.is_alive():
                # the worker may have sent its result and exited between our poll() and is_alive()
                if pc.poll(0.5):
                    try:
                        got = pc.recv()
                        results.extend(got)
                        if on_result:
                            for g in got:
                                on_result(g)
                        p.join()
                        continue
                    except EOFError:
                        pass
                if not getattr(q, "_retried", False):
                    q._retried = True          # killed from outside (e.g. the kernel's OOM killer): one more try
                    pending.append(q)
                else:
                    results.append(dict(query=q.name, kind=q.kind, check="*", status="error",
                                        error=f"worker exited {p.exitcode}", required=q.required))
            elif time.time() - t0 > q.timeout * 3 + 120:
                p.kill()
                p.join()
                results.append(dict(query=q.name, kind=q.kind, check="*", status="unknown",
                                    reason="hard wall-clock cap", required=q.required, K=q.K))
            else:
                still.append((q, p, pc, t0))
        running = still
    return results
