"""Base class for verification harnesses (ordinary Amaranth elaboratables).

A harness instantiates real luna classes, an environment model and a monitor.
It registers
  * free inputs          self.inp(name, width, const=False)  or  self.inp(name, signal=existing)
  * assertions           self.viol(name)   -> 1-bit Signal, 1 = property broken in this cycle
  * reachability twins   self.cover(name)  -> 1-bit Signal, 1 = interesting event happened
  * environment contract self.assume(name) -> 1-bit Signal that must be 1 in every cycle
  * finding scenarios    self.kf(name)     -> 1-bit Signal, 1 on violations explained by a recorded finding
  * observed signals     self.obs(name, signal)  (compared in co-simulation, shown in replays)
The same object is translated for the solver and simulated by pysim for replay.
"""
from amaranth import Elaboratable, Signal


class Harness(Elaboratable):
    #: clock domains of the design; the first one is where monitors live
    domains = ("usb",)
    #: optional cyclic schedule: list of domain-name tuples, one entry per step
    schedule = None
    #: optional multi-rate clocks {domain: (period_in_steps, phase_step)}; the domain ticks at steps t % period == phase
    clocks = None

    def __init__(self):
        self._inputs = {}
        self._viols = {}
        self._covers = {}
        self._assumes = {}
        self._kfs = {}
        self._obs = {}
        self.stubs = []          # free-text list of stubs/substitutions, goes to evidence
        self.restrictions = []   # free-text list of restrictions (ties, scaled constants)

    @property
    def domain(self):
        return self.domains[0]

    def inp(self, name, width=1, const=False, signal=None, init=0):
        if signal is None:
            signal = Signal(width, name=name, init=init)
        assert name not in self._inputs, name
        self._inputs[name] = (signal, const)
        return signal

    def sym_reg(self, signal, const_input_name):
        """start the register `signal` (a flip-flop of the real design or of the monitor) at the value of the const harness
        input `const_input_name` instead of its reset value -- a symbolic pre-state restricted to this one register.  The
        replay sets the register to the same value before the first clock edge.  State this in ASSUMPTIONS/BOUNDS: a
        counterexample that needs such a start value is only believed if the value is reachable."""
        if not hasattr(self, "_sym_regs"):
            self._sym_regs = []
        assert self._inputs[const_input_name][1], "sym_reg needs a const input"
        self._sym_regs.append((signal, const_input_name))

    def _reg(self, table, prefix, name, init=0):
        assert name not in table, name
        s = Signal(1, name=f"{prefix}_{name}", init=init)
        table[name] = s
        return s

    def viol(self, name):
        return self._reg(self._viols, "viol", name)

    def cover(self, name):
        return self._reg(self._covers, "cover", name)

    def assume(self, name):
        # init=1: an assumption nobody drives is true
        return self._reg(self._assumes, "assume", name, init=1)

    def kf(self, name):
        return self._reg(self._kfs, "kf", name)

    def obs(self, name, signal):
        self._obs[name] = signal
        return signal

    # random stimulus for co-simulation: override for protocol-aware stimulus.
    def stimulus(self, rng, t, consts):
        """return {input name: int} for step t; const inputs come from `consts`"""
        out = {}
        for name, (sig, const) in self._inputs.items():
            if const:
                out[name] = consts[name]
            else:
                w = len(sig)
                r = rng.random()
                if w == 1:
                    out[name] = int(rng.random() < 0.5)
                elif r < 0.1:
                    out[name] = 0
                elif r < 0.2:
                    out[name] = (1 << w) - 1
                else:
                    out[name] = rng.getrandbits(w)
        return out

    def const_stimulus(self, rng):
        return {name: rng.getrandbits(len(sig)) for name, (sig, const) in self._inputs.items() if const}
