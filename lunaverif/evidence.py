"""evidence/<id>.json writer (EVIDENCE.schema.json, level model_checking)."""
import json
import os

VERIF = os.path.dirname(os.path.dirname(os.path.abspath(__file__)))


def write(prop, tier, mod, results, wall, nviol):
    import z3
    frames = 0
    trans = 0
    validated = 0
    samples = []
    obligations = 0
    discharged = 0
    solver_s = 0.0
    queries = []
    seen_q = set()
    for r in results:
        K = r.get("K") or r.get("cycles") or 0
        if r.get("query") not in seen_q:
            seen_q.add(r.get("query"))
            frames += K
            trans += max(K - 1, 0) if r.get("kind") != "ind" else K
        st = r["status"]
        if r.get("kind") in ("bmc", "ind"):
            obligations += 1
            if st in ("holds", "covered", "known_finding"):
                discharged += 1
        if st in ("covered", "violation", "known_finding", "cosim_ok"):
            validated += 1
        solver_s += float(r.get("solver_s") or 0)
        if st == "covered" and "step" in r and len(samples) < 4:
            samples.append(dict(kind="cover witness replayed on pysim", query=r["query"], check=r["check"],
                                step=r["step"], inputs=r.get("witness")))
        if st in ("violation", "known_finding") and len(samples) < 6:
            samples.append(dict(kind=st + " trace replayed on pysim", query=r["query"], check=r["check"],
                                step=r["step"], inputs=r.get("inputs")))
        rec = {k: r.get(k) for k in ("query", "kind", "check", "K", "cycles", "status", "result", "solver_s",
                                     "unroll_s", "wall_s", "layer", "design", "required", "desc", "outside",
                                     "note", "reason", "invariants", "signals", "covers_hit") if r.get(k) is not None}
        queries.append(rec)
    if not samples:
        samples.append(dict(kind="obligation", text=(queries[0] if queries else "none")))
    ev = dict(
        property_id=prop,
        tier=tier,
        seed=int(os.environ.get("VERIF_SEED", "0") or 0),
        level="model_checking",
        coverage=dict(
            states=max(frames, 1),
            transitions=max(trans, 1),
            traces_validated_against_impl=validated,
            samples=samples,
            obligations=obligations,
            discharged=discharged,
            solver_seconds=round(solver_s, 2),
            solver=f"z3 {z3.get_version_string()} SolverFor(QF_BV)",
            encoded=getattr(mod, "ENCODED", []),
            bounds=getattr(mod, "BOUNDS", ""),
            outside_bounds=getattr(mod, "OUTSIDE", ""),
            queries=queries,
            explanation="states = clock frames unrolled symbolically (each frame stands for every input value "
                        "and state reachable at that depth); transitions = frame-to-frame relations instantiated; "
                        "obligations = solver queries (assertions must be unsat, cover twins must be sat and "
                        "replay on Amaranth's simulator).",
        ),
        assumptions=list(getattr(mod, "ASSUMPTIONS", [])),
        wall_s=round(wall, 2),
        violations=nviol,
    )
    os.makedirs(os.path.join(VERIF, "evidence"), exist_ok=True)
    path = os.path.join(VERIF, "evidence", f"{prop}.json")
    with open(path, "w") as f:
        json.dump(ev, f, indent=1, default=str)
    try:
        import jsonschema
        with open("/root/.vp/EVIDENCE.schema.json") as f:
            schema = json.load(f)
        jsonschema.validate(ev, schema)
    except ImportError:
        pass
    except FileNotFoundError:
        pass
    return path
