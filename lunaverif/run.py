"""CLI:  python -m lunaverif.run C05 [--tier quick|thorough] [--replay file] [--only substring] [--list]"""
import argparse
import importlib
import json
import os
import sys
import time
import warnings

VERIF = os.path.dirname(os.path.dirname(os.path.abspath(__file__)))
REPO = os.environ.get("VERIF_REPO", "/repo")
sys.path.insert(0, os.path.join(VERIF, ".deps"))
sys.path.insert(0, REPO)
warnings.filterwarnings("ignore")
os.environ.setdefault("LUNA_VERIF", "1")

EXIT_OK, EXIT_VIOLATION, EXIT_INFRA = 0, 1, 2


def load_findings():
    p = os.path.join(VERIF, "known_findings.json")
    if not os.path.exists(p):
        return []
    with open(p) as f:
        return json.load(f).get("findings", [])


def main():
    ap = argparse.ArgumentParser()
    ap.add_argument("prop")
    ap.add_argument("--tier", default=os.environ.get("VERIF_TIER") or "quick", choices=["quick", "thorough"])
    ap.add_argument("--replay")
    ap.add_argument("--only")
    ap.add_argument("--list", action="store_true")
    ap.add_argument("--no-evidence", action="store_true")
    args = ap.parse_args()
    prop = args.prop.upper()
    t0 = time.time()
    import luna
    luna_path = os.path.dirname(os.path.dirname(os.path.abspath(luna.__file__)))
    if os.path.realpath(luna_path) != os.path.realpath(REPO):
        print(f"INFRA: luna imported from {luna_path}, expected {REPO}")
        return EXIT_INFRA
    from . import engine, evidence
    mod = importlib.import_module(f"lunaverif.props.{prop.lower()}")
    queries = mod.queries(args.tier)
    if args.only:
        queries = [q for q in queries if args.only in q.name]
    if args.list:
        for q in queries:
            print(q.name, q.kind, q.K, q.desc)
        return 0
    findings = load_findings()
    if args.replay:
        return replay(prop, mod, queries, args.replay)
    def progress(r):
        print(f"  .. {r.get('query')} {r.get('check')} K={r.get('K', r.get('cycles'))} -> {r['status']} "
              f"({r.get('result', '')} {r.get('solver_s', '')}s)", file=sys.stderr, flush=True)

    results = engine.run_all(engine.split_queries(queries), prop, findings, on_result=progress)
    wall = time.time() - t0
    code = EXIT_OK
    nviol = 0
    os.makedirs(os.path.join(VERIF, "replays"), exist_ok=True)
    for r in results:
        st = r["status"]
        line = f"[{prop}] {r.get('query')} {r.get('check')} K={r.get('K', r.get('cycles'))} -> {st} " \
               f"({r.get('result', '')} {r.get('solver_s', '')}s, unroll {r.get('unroll_s', '')}s)"
        print(line)
        if st == "violation":
            nviol += 1
            path = os.path.join(VERIF, "replays", f"{prop}-{nviol}.json")
            with open(path, "w") as f:
                json.dump(dict(property=prop, tier=args.tier, query=r["query"], check=r["check"], step=r["step"],
                               inputs=r["inputs"], mem=r.get("mem"), observed=r.get("observed")), f, indent=1)
            print(f"VIOLATION property={prop} replay={path}")
            code = EXIT_VIOLATION
        elif st == "known_finding":
            for what in r.get("findings", []):
                print(f"KNOWN-FINDING: property={prop} {what}")
        elif st == "unknown" and args.tier == "thorough":
            # thorough tier: a query the solver did not decide within its limits is reported as inconclusive (here and in
            # the evidence: it is not counted as discharged); it is neither a pass nor an alarm
            print(f"INCONCLUSIVE property={prop} {r.get('query')} {r.get('check')}: {r.get('reason') or 'solver limit reached'}")
        elif st in ("mismatch", "error", "vacuous", "unknown"):
            if st == "error":
                print("   ", r.get("error"), r.get("trace", ""))
            if st == "mismatch":
                print("   ", r.get("mismatches") or "model did not reproduce on pysim", r.get("step"))
            if r.get("required", True) and code == EXIT_OK:
                code = EXIT_INFRA
    if not args.no_evidence and not args.only:
        evidence.write(prop, args.tier, mod, results, wall, nviol)
    print(f"[{prop}] tier={args.tier} exit={code} wall={wall:.1f}s")
    return code


def replay(prop, mod, queries, path):
    from . import engine
    with open(path) as f:
        rp = json.load(f)
    q = [q for q in queries if q.name == rp["query"]]
    if not q:
        import importlib
        q = [q for q in mod.queries(rp.get("tier", "quick")) if q.name == rp["query"]]
    q = q[0]
    trace = engine.simulate(q.factory, rp["inputs"], rp.get("mem"))
    key = "viol_" + rp["check"].split(":", 1)[1]
    hit = bool(trace[rp["step"]].get(key))
    for t, (i, o) in enumerate(zip(rp["inputs"], trace)):
        print(t, i, {k: v for k, v in o.items() if v and not k.startswith("assume_")})
    print(f"replay {path}: {key} at step {rp['step']} = {int(hit)}")
    if hit:
        print(f"VIOLATION property={prop} replay={path}")
        return EXIT_VIOLATION
    return EXIT_OK


if __name__ == "__main__":
    sys.exit(main())
